//! Pure-code parser workload for Miri (no FFI, no sockets): `cargo +nightly miri run -- <seed> <ops>`.
//! Prints `MIRI-DONE <ops>` when the interpreter reached the end without a report.

use bytes::Bytes;
use std::net::{IpAddr, SocketAddr};
use trusttunnel::rules::{Rule, RuleAction, RulesConfig, RulesEngine};
use trusttunnel::verif::pure;

struct Rng(u64);
impl Rng {
    fn next(&mut self) -> u64 { self.0 ^= self.0 << 13; self.0 ^= self.0 >> 7; self.0 ^= self.0 << 17; self.0 }
    fn below(&mut self, n: u64) -> u64 { self.next() % n.max(1) }
    fn bytes(&mut self, n: usize) -> Vec<u8> { (0..n).map(|_| self.next() as u8).collect() }
}

fn main() {
    let a: Vec<String> = std::env::args().collect();
    let seed: u64 = a.get(1).and_then(|x| x.parse::<i64>().ok()).map(|x| x as u64).unwrap_or(1) | 1;
    let ops: u64 = a.get(2).and_then(|x| x.parse().ok()).unwrap_or(200);
    let mut r = Rng(seed.wrapping_mul(0x9e3779b97f4a7c15) | 1);
    let mut done = 0u64;
    let engine = RulesEngine::from_config(RulesConfig { rule: vec![
        Rule { cidr: Some("10.0.0.0/8".into()), client_random_prefix: Some("a0b0/f0f0".into()), action: RuleAction::Deny },
        Rule { cidr: Some("junk".into()), client_random_prefix: Some("zz".into()), action: RuleAction::Allow },
        Rule { cidr: None, client_random_prefix: Some("aa".into()), action: RuleAction::Deny },
    ] });
    for i in 0..ops {
        match i % 8 {
            0 => {
                // the unsafe sockaddr conversions
                let sa: SocketAddr = if r.below(2) == 0 { SocketAddr::from(([r.next() as u8, 2, 3, 4], r.next() as u16)) } else { SocketAddr::from((std::net::Ipv6Addr::from(r.next() as u128 * 0x1_0000_0001), r.next() as u16)) };
                let back = pure::sockaddr_roundtrip(&sa);
                assert_eq!(back.ip(), sa.ip());
                assert_eq!(back.port(), sa.port());
            }
            1 => { let n = r.below(70) as usize; let mut p = r.bytes(n); if n > 0 { p[0] = 0x40 | (r.below(16) as u8); } let _ = pure::skip_ipv4_header(Bytes::from(p)); }
            2 => { let n = r.below(90) as usize; let mut p = r.bytes(n); if n > 6 { p[0] = 0x60; p[6] = [0u8, 43, 44, 58, 60][r.below(5) as usize]; } let _ = pure::skip_ipv6_header(Bytes::from(p)); }
            3 => { let n = r.below(80) as usize; let mut p = r.bytes(n); if n > 0 { p[0] = [0u8, 3, 5, 8, 11, 12, 1, 2, 4, 128, 129][r.below(11) as usize]; } for v6 in [false, true] { let _ = pure::icmp_encode_reply(v6, "192.0.2.1".parse().unwrap(), Bytes::from(p.clone())); } }
            4 => {
                // UDP stream decoder under segmentation
                let n = r.below(120) as usize;
                let mut s = r.bytes(n);
                if n > 4 { s[0] = 0; s[1] = 0; s[2] = 0; s[3] = [0u8, 1, 36, 37, 40, 60][r.below(6) as usize]; }
                let cut = r.below(n as u64 + 1) as usize;
                let mut d = pure::UdpDecoder::new();
                for part in [&s[..cut], &s[cut..]] {
                    let mut pending = Some(Bytes::copy_from_slice(part));
                    while let Some(b) = pending.take() { if b.is_empty() { break; } if let Some((_, tail)) = d.decode_chunk(b) { if !tail.is_empty() { pending = Some(tail); } } }
                }
            }
            5 => { let n = r.below(200) as usize; let d = r.bytes(n); let c = pure::rfc1071_checksum(&d); let img = pure::echo_serialize(false, r.next() as u16, r.next() as u16, Bytes::from(d)); let _ = (c, img.len()); }
            6 => { let ip: IpAddr = if r.below(2) == 0 { IpAddr::from((r.next() as u32).to_be_bytes()) } else { IpAddr::from((r.next() as u128 * 0x1_0000_0000_0000_0001u128).to_be_bytes()) }; let _ = pure::is_global_ip(&ip); }
            _ => { let nn = r.below(40) as usize; let rnd = r.bytes(nn); let ip: IpAddr = IpAddr::from((r.next() as u32).to_be_bytes()); let _ = engine.evaluate(&ip, if r.below(4) == 0 { None } else { Some(&rnd) }); let _ = pure::udp_encode("10.0.0.1:1".parse().unwrap(), "[2001:db8::1]:2".parse().unwrap(), Bytes::from(rnd)); }
        }
        done += 1;
    }
    println!("MIRI-DONE {}", done);
}
