#!/bin/bash
# Re-runs every seeded change against the checks recorded in its meta.json (quick tier unless TIER is set); one summary line each.
cd /verif || exit 9
TIER="${TIER:-quick}"
for d in seeded/*/; do
  name=$(basename "$d")
  checks=$(python3 -c "import json,sys;m=json.load(open('$d/meta.json'));print(' '.join(r['check'] for r in m['checks_run']['results'] if r['violation_lines']>0) or m['property'])")
  out=$(tools/try_seed.sh "$name" "$TIER" $checks 2>&1)
  caught=$(echo "$out" | grep -c "exit=1 ")
  if echo "$out" | grep -q "not clean\|error: patch failed\|does not apply"; then echo "$name APPLY-FAILED"; git -C /repo checkout -- . ; continue; fi
  echo "$name checks=[$checks] caught_by=$caught $(echo "$out" | grep -o 'check=[A-Z0-9]* tier=[a-z]* exit=[0-9]*' | tr '\n' ' ')"
done
