#!/usr/bin/env python3
"""Generates /verif/MANIFEST.json from the table below (kept in one place so it stays valid)."""
import json, os, subprocess, sys

ROOT = os.path.dirname(os.path.dirname(os.path.abspath(__file__)))

def hook_commits():
    out = subprocess.run(["git", "-C", "/repo", "log", "--format=%h %s"], capture_output=True, text=True).stdout
    return [l.split()[0] for l in out.splitlines() if l.split(" ", 1)[1].startswith("verif hooks")]

# id -> dict(category, text, note, technique, design_ref)
CHECKS = {
 "C03": dict(
   category="exploration",
   text="Runtime monitor over the real classifier and the real TcpForwarder::connect. quick: ~3.7M addresses (every /16 of IPv4 and of ::ffff:/96, every first IPv6 hextet x representative second hextets x 4 interface ids, all block boundaries) + all literal/host-name spellings against loopback canaries + scripted multi-address resolver answers in every order (hook H3). thorough: exhaustive over all 2^32 IPv4, all 2^32 IPv4-mapped and all 2^32 leading IPv6 words x 4 interface ids (2.6e10 evaluations). Oracle = prefix table written from the IANA special-purpose registries with an explicit EITHER zone.",
   note="Trusted: the IANA-derived reference table in harness/src/props/c03.rs; glibc files-only resolution in the sandbox; for scripted resolver answers the connect itself is short-circuited by the observer hook (ECONNREFUSED). 502/310/311 rendering to the client is checked by C10.",
   technique="runtime monitoring: exhaustive differential sweep of the real classifier vs IANA reference + canary listeners and connect observer on the real connector",
   design_ref="DESIGN.md §3 C03"),
}

CHECKS.update({
 "C02": dict(
   category="fault_enumeration",
   text="The real pipe::DuplexPipe::exchange wired as Tunnel wires it, between four scripted endpoints under tokio's paused clock. Position-coded streams make loss/duplication/reordering visible as a first mismatch offset; the monitor checks content, end-of-stream ordering, clean-end completeness, credit (sum of consume) == bytes accepted == metrics callback, prompt tear-down after each injected fault (read/consume/write/wait_writable/eof/flush error at a chosen call), endpoint release, zero-progress spin bound, and a CPU-clock wedge watchdog. quick: 1.5M small-scope + 30k large (<=256 KiB) seeded cases; thorough: 60M + 1M.",
   note="Trusted: the scripted mirror endpoints (harness/src/script.rs) honour the Source/Sink contract; real codec/TCP endpoints are covered end to end by other checks (C08/C10/C16). Idle-timer verdicts belong to C14.",
   technique="runtime monitoring: scripted hostile endpoints + fault injection around the real DuplexPipe under a virtual clock, conservation/ordering oracle over recorded events",
   design_ref="DESIGN.md §3 C02"),
 "C06": dict(
   category="exploration",
   text="The real http_udp_codec Decoder (driven exactly like DatagramDecoder::read: tail re-queued in front) and Encoder against an independent PROTOCOL.md 6.3/6.4/11.2 codec. Record pool of 13 small kinds (valid v4/v6, empty name/payload, ::1, length 0/1/36, length shorter than name, non-UTF-8 name) enumerated to sequences of 3 (quick) / 4 (thorough) plus seeded sequences with 60-65 KB records; every stream decoded whole, byte-at-a-time, under every 1-cut, every 2-cut (<=130/200 bytes), 3-cuts, field-boundary and seeded cuts (7.6M / 108M decodes). CPU-clock wedge watchdog turns a non-returning decoder into a witness.",
   note="Trusted: the reference decoder written from PROTOCOL.md; payloads in (64000, 65507] are EITHER.",
   technique="runtime monitoring: differential + metamorphic (segmentation-invariance) oracle on the real codec, exhaustive small-scope segmentations",
   design_ref="DESIGN.md §3 C06"),
 "C14": dict(
   category="exploration",
   text="Part A: the real DuplexPipe::exchange under the paused clock with activity patterns placed relative to T (within T, around and exactly at the deadline, bursts/long silences, back-pressure stalls of 0.5T..3T, EOF/silent endings), T in {1,2,5,8} s + 370 us; oracle R1: a TimedOut close needs >= T without data transfer, R2: never more than 2T without any event while still open, endpoints released after the close; 400k (quick) / 20M (thorough) patterns plus a known-idle calibration case. Part B: the real Tunnel over H1/H2 with a scripted connector completing after a chosen virtual delay (0..5T, seeded, and never) for T_est in {3,7,30} s: 200 if it completes before T_est, otherwise 502/302 at T_est (not earlier, not more than 10% later) and the connect future released. Part C: real time on loopback with T_hs = 1.5 s: stalled handshakes (nothing, partial record, half hello, full hello then silence) dropped within [T/2, 2T + 2.5 s], a ClientHello sent at T/4 still answered.",
   note="Trusted: tokio's paused clock as a model of time order (T carries a 370 us fraction so timer ticks land after the deadline as in real time); gaps in (T, 2T] are EITHER.",
   technique="runtime monitoring: virtual-clock trace oracle over the real pipe (bounded-liveness restated as close-by-2T)",
   design_ref="DESIGN.md §3 C14"),
})

CHECKS.update({
 "C11": dict(
   category="exploration",
   text="L0 through the door on the real code: rfc1071_checksum and serialised echo images against an RFC 1071 reference on seeded byte strings of every length 0..1500 and on echo images whose last data word is solved so that the folded sum carries a second time (the failing class is hit by construction); the real 7.3 decoder under whole / byte-at-a-time / every 1-cut / every 2-cut of streams of 1-3 records; the real 7.4 encoder + responded_echo_request on built packets (echo replies, ICMPv4 errors quoting the request behind 0-40 option bytes, ICMPv6 errors, extension-header chains, truncated and foreign quotes). L2: the real Core::listen with icmp.interface_name = lo, three HTTP/2 clients each driving an _icmp stream with 6-40 echo requests (records sometimes split across DATA frames) to 127.0.0.1 / ::1; a harness raw socket sniffs every echo the endpoint emits (exactly one per request, requested id/seq/TTL/size, checksum verifies) and injects forged replies (foreign id, foreign seq); each client must be told exactly about its own requests in 7.4 format with the responder's address; the waiter/deadline tables must be empty after the request timeout.",
   note="Trusted: the reference checksum/codec in harness/src/props/c11.rs. ICMPv6 checksums are filled in by the kernel, so only ICMPv4 images must verify as serialised. Duplicate genuine replies inside the timeout window are EITHER.",
   technique="runtime monitoring: differential oracle on real checksum/codec/quote-matching with constructed double-carry inputs and exhaustive small segmentations",
   design_ref="DESIGN.md §3 C11"),
})

CHECKS.update({
 "C08": dict(
   category="exploration",
   text="(a) the real Http1Codec::listen over an in-memory transport fed in segments under the paused clock: 26 heads (valid, near-miss invalid, over the size / header-count limits) x every 1-cut, every 2-cut (heads <= 120/400 bytes), seeded 2/3-cuts, byte-at-a-time, gaps 0 / 1 ms / 10 s, plus truncated-head-then-EOF; oracle: same request as the unsegmented delivery (metamorphic), valid heads recognised, invalid/over-limit rejected with <= 4 KiB pulled, listen() returns once the last byte is delivered, and the loop never iterates 10000 times (hook H4) without the transport being polled (probe). (b) CONNECT + position-coded payloads up to 200 KB in seeded segments through the real Tunnel/HttpDownstream/DuplexPipe to an echoing peer, either side closing first: exactly one well-formed 200 head, byte-exact relay both ways.",
   note="Trusted: tokio duplex pipe + paused clock as the transport; hook H4 (one tick per loop iteration) and the transport probe. Heads with exactly 32 headers, LF-only line ends and Expect are EITHER.",
   technique="runtime monitoring: metamorphic segmentation oracle + logical busy-loop detector (loop-tick hook vs transport probe) on the real codec under a virtual clock",
   design_ref="DESIGN.md §3 C08"),
})

CHECKS.update({
 "C01": dict(
   category="exploration",
   text="The real Tunnel + HttpDownstream + Http1Codec/Http2Codec over in-memory sessions with a registry authenticator and a recording forwarder: 27 Proxy-Authorization cases (absent, valid x3, wrong user/password, token prefix/suffix/case variants, whitespace, other schemes, malformed base64, non-UTF-8, empty, duplicates) x 7 request kinds (CONNECT host/ip, _check, _udp2, _icmp, GET/POST absolute-URI) x {H1, H2}; every request has its own destination so egress (connect / UDP mux / ICMP mux creation) is attributed per request. Seeded HTTP/2 histories of 2-6 interleaved streams with mixed credentials are judged stream by stream (an accepted request must not authorise a later one). SNI-credential configurations go through the real Core::on_tunnel_request with the real DirectForwarder against a loopback canary (accept counter + connect observer).",
   note="Trusted: the reference decision table in harness/src/props/c01.rs; EITHER zones listed in evidence.assumptions. HTTP/3 not exercised.",
   technique="runtime monitoring: reference decision function vs observed status/challenge + per-request egress attribution at a recording forwarder and loopback canaries",
   design_ref="DESIGN.md §3 C01"),
 "C10": dict(
   category="fault_enumeration",
   text="7 methods x 16 authorities (reserved names, case/suffix/port variants, literals with and without port) x 11 outcomes of the outbound connection attempt injected at the forwarder boundary (connected, refused, EMFILE, resolver failure, other, unreachable, timed out, policy 310/311, upstream auth failure, never completes) x {H1, H2} through the real Tunnel; oracle = documented status / X-Warning / X-Adguard-Vpn-Error table, exactly one final response per stream (back-to-back status lines on H1, stream errors on H2), number and destination of connect calls, datagram-mux creation only for CONNECT on _udp2/_icmp. Plus outcomes the sandbox produces for real with the real DirectForwarder on loopback.",
   note="Trusted: outcome injection at the mirror forwarder boundary (descriptor exhaustion = Io(EMFILE)); HTTP/3 not exercised.",
   technique="runtime monitoring: fault injection at the forwarder boundary + response-table oracle over scripted H1/H2 clients",
   design_ref="DESIGN.md §3 C10"),
 "C18": dict(
   category="exploration",
   text="Ping, speedtest and reverse-proxy handlers over in-memory H1/H2 sessions (directly, as an SNI-selected host gets them, and through the main host's HttpDemux markers) with credentials configured and never supplied: ping = 200/empty/no egress; downloads = exact N x 2^20 zero bytes under four client read patterns, 400 around the bounds (N=0/101, case, prefixes, overflow); uploads = consumed then 200, 400 beyond 120 MiB / wrong path / wrong method / malformed length; reverse proxy = real loopback origin under both values of the egress policy, with the client trying to steer Host: origin must receive the HTTP/1.1 request with X-Original-Protocol, response and later bytes relayed both ways.",
   note="Trusted: tokio duplex + h2 client; HTTP/3 variants not exercised. L=0 and numeric spellings 01/+1 are EITHER.",
   technique="runtime monitoring: byte-counting client + recording origin/forwarder against the documented behaviour table",
   design_ref="DESIGN.md §3 C18"),
})

CHECKS.update({
 "C20": dict(
   category="exploration",
   text="A capturing log::Log at Trace records every record the library emits while the scenario sets of C01 (auth table, multiplexed histories, SNI matrix), C10 (method x authority x connect-outcome matrix, real forwarder cases), C18 (ping/speedtest/reverse proxy) and a dedicated error-path sweep (malformed heads, other schemes, non-UTF-8 values, refused/failed/timed-out connects) run with Authorization and Cookie canaries added to every request and every Proxy-Authorization value, SNI credential label and configured password registered as planted. Each of ~62k records is searched for every planted value, its marker and the base64-decoded user/password halves; leaks are keyed by (log target, call-site text).",
   note="Trusted: the capturing logger sees what a real logger would (same log facade); records of the harness's own client stacks are excluded. TLS-level SNI label logging is covered when the C05/C12 loopback scenarios run under this check (listed in evidence).",
   technique="runtime monitoring: canary planting + full-log scan at trace level riding on the other properties' workloads",
   design_ref="DESIGN.md §3 C20"),
})

CHECKS.update({
 "C17": dict(
   category="exploration",
   text="The real http_forwarded_stream::into_forwarded on a mirror HTTP stream (request head with client version 1/2/3, scripted body source, recording responder, scripted client sink with acceptance quotas {0,1,7,inf} and writability delays) wired by the real DuplexPipe to a scripted origin that delivers its response in 0-3 cuts or byte-at-a-time: optional 100/103 prefix, statuses incl. 204/304/HEAD, bodies 0..5000 bytes framed by Content-Length / chunked (sizes 1..4096, extensions) / close-delimited, hop-by-hop headers. An independent HTTP/1.1 reference (httparse + own de-chunker) decides the expected forwarded request (line, Host, headers minus proxy-*, body framing) and the expected client-visible status / headers / body bytes / end-of-stream. Origins that break their own framing (bytes after the body, chunked+Content-Length, trailers) are judged for termination, panic and spin only. 60k (quick) / 5M (thorough) seeded cases, CPU-clock wedge watchdog.",
   note="Trusted: the HTTP/1.1 reference in harness/src/props/c17.rs; scripted mirror endpoints. Known finding: HTTP/2-3 request bodies without Content-Length are forwarded unframed.",
   technique="runtime monitoring: differential oracle (independent HTTP/1.1 reference) over the real translator + pipe under scripted segmentation and back-pressure",
   design_ref="DESIGN.md §3 C17"),
})

CHECKS.update({
 "C04": dict(
   category="exploration",
   text="L0: the public RulesEngine on every single rule and every ordered pair over 13 cidr spellings x 20 client-random patterns x 2 actions (incl. malformed fields) plus seeded lists of 3-5 rules, each for 8 addresses x 7 client randoms (22M evaluations quick) against a reference evaluator written from CONFIGURATION.md with explicit EITHER zones; rules files through toml::from_str::<Settings> (order, unknown/missing action, non-TOML, missing file). L2: the real Core::listen on 127.0.0.1 and dual-stack [::] with deny/allow rule sets, rustls clients over IPv4 and IPv6: a denied peer must receive zero bytes before the close, an allowed one must complete the handshake; one-bit client-random mask rule (80/80) over >= 64 connections with the client's random read from its own ClientHello.",
   note="Trusted: reference evaluator in harness/src/props/c04.rs; rustls as the client. QUIC wiring not exercised.",
   technique="runtime monitoring: exhaustive small-scope differential oracle on the rules engine + byte tap on real loopback TLS connections",
   design_ref="DESIGN.md §3 C04"),
 "C05": dict(
   category="exploration",
   text="L0: the real TlsDemux built from generated certificates (one per name, so the served certificate identifies the host) for seeded configurations over names {a,b}^(1..3 labels) in the four host classes + alternative SNIs, every non-empty subset of listen protocols, reverse proxy on/off x 17 SNIs x every ALPN sequence of length <= 2/3 over {h3,h2,http/1.1,spdy,non-UTF-8} + absent, against a reference router (542k-2.7M selections); validation of duplicate/unloadable/garbage hosts; 8 threads selecting through the live RwLock while reloads alternate between two configurations and failing ones (every observation must match A or B as a whole; a failed reload must change nothing). L2: rustls handshakes against Core::listen with listen protocols {h1+h2, h1, h2}: certificate identity, negotiated ALPN, channel behaviour probe (407 / ping 200 / 1 MiB download), refusal without certificate for unknown/no SNI, h3-only and unsupported ALPN.",
   note="Trusted: reference router in harness/src/props/c05.rs; rustls/h2 clients. QUIC listener not exercised.",
   technique="runtime monitoring: differential oracle on the real demultiplexer + concurrent reload stress with whole-configuration consistency check + loopback TLS probes",
   design_ref="DESIGN.md §3 C05"),
 "C15": dict(
   category="fault_enumeration",
   text="The real socks5_client::connect over an in-memory duplex against a scripted server: seeded credentials (0..600 bytes, multi-byte UTF-8, extended-auth value sets), destinations (IPv4/IPv6/domains of 0..300 bytes) x server behaviours (method 0/2/0x80/0xff/unknown/non-offered, auth status, reply codes 0..9/0xff, bound ATYP 1/3/4/9, truncation at a random byte, 0-2 cuts or byte-at-a-time); every client message is parsed in lock-step by an independent RFC 1928/1929/extended-auth parser (length octets, TERM, ATYP/port), and the client's conclusion is compared with the reference. Plus Basic-credential splitting through the real make_auth/make_extended_auth, RFC 1928 section 7 wrap/unwrap on a real loopback UDP association incl. hostile datagrams, and reply-code mapping to 502/301/302/300 through the real tunnel with forward_protocol=socks5 and a scripted TCP server.",
   note="Trusted: the independent parser in harness/src/props/c15.rs. Zero-length user/password/domain are EITHER.",
   technique="runtime monitoring: lock-step protocol parser at a scripted SOCKS5 server + fault/segmentation injection",
   design_ref="DESIGN.md §3 C15"),
})

CHECKS.update({
 "C12": dict(
   category="exploration",
   text="L0: the real extract_client_random on every prefix (sampled + boundaries for long flights) and on byte mutations of first flights from a real rustls client and of synthetic ClientHellos (padding, post-quantum-sized key shares up to > 16 KiB, legacy versions, session ids, hello fragmented across records, trailing records): result must be the exact bytes 11..43, 'need more' while the first record is incomplete, or absent - never another value. L1: real loopback sockets through the real TlsListener::listen and Core::on_new_tls_connection with a real rustls client whose first flight is written in seeded segments (0-3 cuts or byte-at-a-time, gaps 0/2 ms): extracted random == what the client wrote, SNI/ALPN intact, right certificate, and a working HTTP exchange afterwards (transparency of the peek); synthetic large hellos written raw in segments.",
   note="Trusted: rustls as the real TLS stack on both sides; the synthetic ClientHello builder. QUIC client random not exercised.",
   technique="runtime monitoring: prefix/segmentation sweep of the real extractor + end-to-end handshakes over segmented loopback writes",
   design_ref="DESIGN.md §3 C12"),
 "C13": dict(
   category="exploration",
   text="Credentials files with a hostile pool of user names/passwords (quotes, backslashes, escapes, apostrophes, padding, control characters, Unicode, 600 bytes, seeded strings over a hostile alphabet) in every TOML string form, in both roles: Settings::get_clients vs the `toml` crate's reading of the same file, RegistryBasedAuthenticator verdict for base64(user:pass), exported client configuration re-parsed; malformed credentials files (missing keys, wrong types, duplicates); sub-process round trips of the real binaries built from the working tree (setup_wizard -m non-interactive -> trusttunnel_endpoint -c) and the start-up matrix (credentials x listen-address class x listen protocols x reverse-proxy section x duplicate/garbage/missing host files) through toml::from_str + Core::new.",
   note="Trusted: the `toml` crate as the conforming TOML reader; cargo builds the two binaries into harness/target/repo-bins. IPv4-mapped loopback listen address and a key file used as certificate are EITHER.",
   technique="runtime monitoring: differential reading (endpoint vs conforming TOML reader) + sub-process round trips of the real binaries",
   design_ref="DESIGN.md §3 C13"),
})

CHECKS.update({
 "C07": dict(
   category="exploration",
   text="The real udp_pipe::DuplexPipe over the real direct-forwarder multiplexer against real loopback UDP servers in real time (T in {300,400} ms): seeded histories of 12-28 operations over 5-6 flows (two clients sharing a destination, one client with two destinations, a silent peer, a port-53 flow): client datagram, burst, unsolicited peer datagram, waits of T/4, T/2, 2T+300 ms, datagrams to a destination that cannot be connected (EACCES) and to a closed port (ECONNREFUSED), DNS query. Every datagram has a unique id: the monitor checks where each arrived, the labels of what came back, that nothing is lost or duplicated, that the multiplexer survives per-flow faults and ends with the client stream, that the outbound_udp_sockets gauge (and, in a serial phase, the process's UDP sockets from /proc) returns to the number of live flows after 2T+250 ms of idleness and after a DNS answer. 51 (quick) / 1230 (thorough) histories, 16-wide.",
   note="Trusted: loopback UDP delivery; timing bands (expiry only asserted after 2T+250 ms idle, histories whose sleeps overshoot by > 150 ms are inconclusive for expiry verdicts). SOCKS5 UDP path is covered by C15.",
   technique="runtime monitoring: history checker over uniquely identified datagrams + gauge/fd invariants at quiescent points, with fault injection (unconnectable destination, closed port)",
   design_ref="DESIGN.md §3 C07"),
})

CHECKS.update({
 "C16": dict(
   category="exploration",
   text="The real Core::listen on loopback (TLS, HTTP/1.1 + HTTP/2) with the metrics listener enabled: seeded histories of 6-14 steps (open/close session, open tunnel to a transfer server, failed connect, asymmetric transfer of N+8 bytes up / M bytes down, graceful close, reset, _udp2 datagrams on up to 3 flows, close session) plus dedicated expiry histories under T_tcp = 2.5 s / T_udp = 2 s. After every step the monitor waits for quiescence (matching or 12 identical snapshots), compares client_sessions / outbound_tcp_sockets / outbound_udp_sockets / inbound and outbound byte counters per protocol with its model (asymmetric transfers make a swap visible), then fetches /metrics over HTTP and compares every documented series with the in-process value, and /health-check; at the end all gauges must be back to zero.",
   note="Trusted: the model in harness/src/props/c16.rs; label values compared case-insensitively. HTTP/3 sessions not exercised.",
   technique="runtime monitoring: model-vs-gauge comparison at quiescent points over real loopback sessions + scrape of the real metrics listener",
   design_ref="DESIGN.md §3 C16"),
})

CHECKS.update({
 "C19": dict(
   category="exploration",
   text="(a) The real Shutdown under a small deterministic executor (one ready task polled per step): depth-first enumeration of every scheduling choice for 72 scenarios with 1-2 participants (start delays, work lengths, submit/wait delays; 51 enumerated exhaustively, the rest and two 3-participant scenarios up to a cap) and seeded random walks with 3-8 participants - 56k (quick) / millions (thorough) schedules, ~800 distinct event orders; oracle on the recorded event log: a participant registered before submit observes the notification unless its own work ended first, Completed never precedes the Finished of a registered participant, and completion() returns once all have finished and nothing is runnable. (b) The real Tunnel / ping / speedtest handlers on in-memory HTTP/1.1 and HTTP/2 sessions on an 8-thread runtime, 150-4000 rounds with random yields: every client sees a graceful end (GOAWAY resolves the h2 connection cleanly; h1 transport closed), completion() returns and all handlers have finished. (c) The real trusttunnel_endpoint binary with an open HTTP/2 CONNECT stream receives SIGINT.",
   note="Trusted: tokio broadcast/mpsc being runtime-agnostic (they only use wakers); late registrants (while completion() holds the lock) are recorded, not judged. Known finding: main.rs exits before completion (no GOAWAY on SIGINT).",
   technique="runtime monitoring: exhaustive schedule enumeration of the real primitive on a deterministic executor + multi-thread stress of the real handlers + signal test of the real binary",
   design_ref="DESIGN.md §3 C19"),
})

CHECKS.update({
 "C09": dict(
   category="exploration",
   text="One sweep (2M inputs quick, more thorough) over every parser of untrusted bytes reachable through the door: IPv4/IPv6 header skipping (every version/IHL byte; extension-header chains with hostile lengths, truncated everywhere), ICMP/ICMPv6 deserialisation + reply encoding (every type byte x codes x lengths with quote variants), UDP/ICMP stream decoders under random segmentation, HTTP/1.1 request/response head parsers (all strings of length 4-5 over a 14-symbol alphabet after three prefixes + truncations/mutations of valid heads), ClientHello extractor (all strings of length 6-7 over 7 symbols; every length field of a real hello set to 0/1/max/+-1), SOCKS5 reply readers (all server byte strings of length 4-5 over 8 symbols), settings/credentials/rules/hosts files (products + line mutations), the origin-response translator and the HTTP/1.1 listen loop on mutated inputs. Refutation = panic (caught per case, keyed by parser + source file), non-termination (per-case guards, spin hook, CPU-clock wedge watchdog) or over-pulling. The sweep runs in the release-equivalent profile and again in a checked profile (overflow checks + debug assertions) as a separate binary; thorough adds Miri on the pure parsers incl. the unsafe sockaddr conversions (9 processes, ~10k operations) and the whole sweep under AddressSanitizer (nightly, -Zsanitizer=address).",
   note="Trusted: per-case catch_unwind (release and checked profiles unwind); Miri cannot cross the BoringSSL/ring/socket FFI, ASan does not instrument the C objects. A clean sanitizer run means no report on these executions, not memory safety.",
   technique="runtime monitoring + sanitizers: panic/overflow/UB oracles (catch_unwind, checked profile, Miri, ASan) over exhaustive-short and mutation inputs to every parser",
   design_ref="DESIGN.md §3 C09, §2.5"),
})

NOT_YET = "check not built yet in this session (designed in DESIGN.md §3; harness work in progress)"

# additions made after the first version of each check (kept separate so the table above stays readable)
ADDENDA = {
 "C17": "Wire part: response header values (every byte 0x80-0xff included) compared byte for byte through the real HTTP/1.1 and HTTP/2 codecs; origins that keep their connection open after the last byte.",
 "C01": "Plus HTTP/3 on loopback (real Core::listen with QUIC, registry authenticator, DirectForwarder, counting canary): the credential table x {CONNECT host:port, _check, _udp2} as one long session. quick 4000 / thorough 300k HTTP/2 histories. 32 Proxy-Authorization spellings incl. a registered token outside the Basic form.",
 "C02": "Plus L2 on loopback: position-coded streams through real HTTP/1.1, HTTP/2 and HTTP/3 tunnels over TLS/QUIC (sizes to 24 MiB > the HTTP/2 windows, slow readers, three closing orders), and an HTTP/2 connection-credit scenario (40/400 half-closed tunnels through a 64 KiB connection window). quick 6M + 100k L1 cases. A third of the L2 cases again through the real Socks5Forwarder and a relaying SOCKS5 proxy (one coalescing the destination's first bytes with its reply); steady transfers across a 2 s client listener timeout; HTTP/3 transfers with a 400 ms window in which every packet from the endpoint is lost (mid-transfer and tail loss).",
 "C03": "quick also sweeps every /24 of IPv4; every literal spelling is handed to the connector both as a socket address and as a host name. IPv6 literals embedding a private IPv4 address must be attempted, if at all, at the literal itself (checked address = connected address).",
 "C04": "Plus L2: ClientHellos split over several TLS records (client random unavailable) against client-random rules (fail closed, zero server bytes), and QUIC (allow/deny by CIDR and client random through a quiche client). Generated rule lists are round-tripped through a rules file and judged by the reference over every address x client random.",
 "C05": "Plus QUIC L2: certificate, h3 and channel per SNI through a quiche client; no session with the QUIC listener disabled.",
 "C06": "Record pool extended with IPv4-mapped, :: and ::2 endpoints (16 kinds). Wire part: a _udp2 stream of the real HTTP/2 codec read by a client with a 150-1500 byte window that stops reading during a burst of echoes must be a sequence of whole 6.4 records.",
 "C07": "Operations added: peer restart (socket error surfacing on the receive path) and 2-3 DNS queries outstanding on one port-53 flow against a slow resolver; per-history loopback addresses for the port-53 servers. The same clauses through the real Socks5Forwarder multiplexer and a relaying SOCKS5 proxy (flows sharing an association, port-53 flows, expiry of a sibling, associations open at the proxy).",
 "C08": "Tunnel part: deterministic boundary cases (cut at / around the end of the head, payload in the same read, either side closing, gaps 0/1 ms/10 s) + 3000 / 250k seeded cases.",
 "C09": "Families added: ICMP errors quoting a packet behind every IPv4 option length / IPv6 extension header with 0-12 bytes left; rules files with every prefix-length x mask-length client-random pattern, loaded and evaluated. Datagrams from a SOCKS5 UDP relay to a live association (6 address types x every length 0-44); a panic escaping any check from outside the harness is reported as a violation.",
 "C10": "Plus seeded HTTP/2 sessions of 2-7 concurrent requests with their own outcomes (600 / 40k), OS errors of the connect through the real TcpForwarder and its errno mapping (hook: scripted connect error), and HTTP/3 on loopback. Plus the real Socks5Forwarder against a proxy that accepts / rejects credentials / reports unreachable / TTL expired, for host:port, closed port, _udp2 and _check.",
 "C11": "Plus a private-network-namespace scenario (icmp_echo_ignore_all = 1): requests stay pending and are answered by the harness with echo replies, errors quoting 8 / 12 / all bytes, or nothing; each reported exactly once, table empty after the timeout. Two more clients take strict turns with fixed TTL patterns on the shared raw socket; ICMPv6 errors quoting the first fragment of a request.",
 "C12": "A well-formed hello of any size whose acceptor has not reported 6 s after the last byte was written is a violation (bytes lost behind the peek). QUIC: one-bit client-random rules judged against the client's own TLS key log, with ClientHellos spanning 1-3 Initial packets.",
 "C13": "Start-up matrix includes every pair of the four host classes sharing a name. Passwords with colons through the wizard; a second credentials entry for the same user name; listen-address x credentials combinations.",
 "C14": "Part C also drips a valid hello one byte per 0.4 T. Part D: the idle timer on the real clock (real Core::listen over TLS, T = 1 s).",
 "C15": "quick 40k / thorough 3M dialogues. Marker bytes in the same write as a successful reply must be the first bytes of the tunnel; hostile relay datagrams caught per datagram.",
 "C16": "Plus an L1 UDP byte-accounting part (scripted forwarder side, hook run_udp_pipe_scripted) and connections that never become sessions (not TLS, unknown SNI, unknown ALPN, client gone mid-hello). Port-53 flows in the UDP accounting; /metrics and /health-check under every combination of listen protocols; an HTTP/3 gauge scenario.",
 "C18": "Plus client-supplied X-Original-Protocol on the reverse proxy, and ping / speedtest over HTTP/3 on loopback. Readers and writers slower than the session timeouts (speedtest, reverse proxy), reverse proxy over HTTP/3 (SNI and path mask), an origin that answers only after the whole request (two known findings), obs-text header values both ways, CONNECT bearing a ping marker.",
 "C19": "Executor participants take 0-2 steps between registration and their first wait and may have endless work; handlers part uses a logical registration barrier (hook Shutdown::verif_participants) and flags handlers holding a notification handle without a completion guard; plus HTTP/3 sessions after submit(). (b') an HTTP/2 client whose view lags by 40 ms opens a stream while the GOAWAY is in flight.",
 "C20": "Plus the C05 L2 scenarios (real TLS front end, SNI credentials label), Proxy-Authorization values without a space, and the real SOCKS5 upstream path; a record counts as emitted iff the endpoint's own logger accepts it; thorough = 12 rounds at different seeds. Every record is also handed to the endpoint's real FileLogger and StdoutLogger and the lines they write are scanned.",
}
for k, v in ADDENDA.items():
    CHECKS[k]["text"] = CHECKS[k]["text"] + " " + v

def main():
    props = [json.loads(l) for l in open(os.path.join(ROOT, "properties.jsonl"))]
    checks, na = [], []
    for p in props:
        pid = p["id"]
        c = CHECKS.get(pid)
        if not c:
            na.append({"property_id": pid, "reason": NOT_YET})
            continue
        checks.append({
            "property_id": pid,
            "quick_cmd": f"./check {pid} --tier quick",
            "thorough_cmd": f"./check {pid} --tier thorough",
            "evidence_file": f"/verif/evidence/{pid}.json",
            "replay_cmd_template": f"./check {pid} --replay {{path}}",
            "engine": "tt_verif",
            "level_claimed": {"category": c["category"], "text": c["text"], "design_ref": c["design_ref"]},
            "level_note": c["note"],
            "technique": c["technique"],
        })
    m = {
        "version": 1,
        "setup_cmd": "(cd harness && CARGO_NET_OFFLINE=true cargo build --release --offline) && (cd /repo && CARGO_NET_OFFLINE=true cargo build --release --offline -p trusttunnel_endpoint -p trusttunnel_endpoint_tools --target-dir /verif/harness/target/repo-bins) && (cd harness && CARGO_NET_OFFLINE=true cargo build --profile checked --offline)",
        "hooks": {
            "guard": "cargo feature verif_hooks of crate trusttunnel (lib/Cargo.toml)",
            "enable": "the harness crate /verif/harness depends on /repo/lib by path with features=[\"verif_hooks\"]; ./check rebuilds it from /repo's working tree",
            "baseline_off_cmd": "cd /repo && cargo test --workspace --no-fail-fast --offline",
            "source_commits": hook_commits(),
            "add_only": True,
        },
        "engines": [{
            "name": "tt_verif",
            "path": "/verif/harness",
            "serves_properties": [c["property_id"] for c in checks],
            "kind_free_text": "Rust harness: runtime monitors (reference-model oracles over recorded events, invariant hooks, scripted endpoints under a virtual clock, loopback end-to-end runs) driving the real library through the verif_hooks door; sanitizer tier (checked profile, Miri, ASan)",
        }],
        "checks": checks,
        "not_applicable": na,
        "notes": "Every check exits 0 / 1 (+VIOLATION line) / 2 (broken run: monitor observed nothing) / 3 (build failure). Known findings: /verif/known_findings.json.",
    }
    json.dump(m, open(os.path.join(ROOT, "MANIFEST.json"), "w"), indent=1)
    print("checks:", len(checks), "not_applicable:", len(na))

main()
