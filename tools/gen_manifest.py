#!/usr/bin/env python3
"""Generates /verif/MANIFEST.json from the table below (kept in one place so it stays valid)."""
import json, os, subprocess, sys

ROOT = os.path.dirname(os.path.dirname(os.path.abspath(__file__)))

def hook_commits():
    out = subprocess.run(["git", "-C", "/repo", "log", "--format=%h %s"], capture_output=True, text=True).stdout
    return [l.split()[0] for l in out.splitlines() if l.split(" ", 1)[1].startswith("verif hooks")]

# id -> dict(category, text, note, technique, design_ref)
CHECKS = {
 "C03": dict(
   category="exploration",
   text="Runtime monitor over the real classifier and the real TcpForwarder::connect. quick: ~3.7M addresses (every /16 of IPv4 and of ::ffff:/96, every first IPv6 hextet x representative second hextets x 4 interface ids, all block boundaries) + all literal/host-name spellings against loopback canaries + scripted multi-address resolver answers in every order (hook H3). thorough: exhaustive over all 2^32 IPv4, all 2^32 IPv4-mapped and all 2^32 leading IPv6 words x 4 interface ids (2.6e10 evaluations). Oracle = prefix table written from the IANA special-purpose registries with an explicit EITHER zone.",
   note="Trusted: the IANA-derived reference table in harness/src/props/c03.rs; glibc files-only resolution in the sandbox; for scripted resolver answers the connect itself is short-circuited by the observer hook (ECONNREFUSED). 502/310/311 rendering to the client is checked by C10.",
   technique="runtime monitoring: exhaustive differential sweep of the real classifier vs IANA reference + canary listeners and connect observer on the real connector",
   design_ref="DESIGN.md §3 C03"),
}

NOT_YET = "check not built yet in this session (designed in DESIGN.md §3; harness work in progress)"

def main():
    props = [json.loads(l) for l in open(os.path.join(ROOT, "properties.jsonl"))]
    checks, na = [], []
    for p in props:
        pid = p["id"]
        c = CHECKS.get(pid)
        if not c:
            na.append({"property_id": pid, "reason": NOT_YET})
            continue
        checks.append({
            "property_id": pid,
            "quick_cmd": f"./check {pid} --tier quick",
            "thorough_cmd": f"./check {pid} --tier thorough",
            "evidence_file": f"/verif/evidence/{pid}.json",
            "replay_cmd_template": f"./check {pid} --replay {{path}}",
            "engine": "tt_verif",
            "level_claimed": {"category": c["category"], "text": c["text"], "design_ref": c["design_ref"]},
            "level_note": c["note"],
            "technique": c["technique"],
        })
    m = {
        "version": 1,
        "setup_cmd": "cd harness && CARGO_NET_OFFLINE=true cargo build --release --offline",
        "hooks": {
            "guard": "cargo feature verif_hooks of crate trusttunnel (lib/Cargo.toml)",
            "enable": "the harness crate /verif/harness depends on /repo/lib by path with features=[\"verif_hooks\"]; ./check rebuilds it from /repo's working tree",
            "baseline_off_cmd": "cd /repo && cargo test --workspace --no-fail-fast --offline",
            "source_commits": hook_commits(),
            "add_only": True,
        },
        "engines": [{
            "name": "tt_verif",
            "path": "/verif/harness",
            "serves_properties": [c["property_id"] for c in checks],
            "kind_free_text": "Rust harness: runtime monitors (reference-model oracles over recorded events, invariant hooks, scripted endpoints under a virtual clock, loopback end-to-end runs) driving the real library through the verif_hooks door; sanitizer tier (checked profile, Miri, ASan)",
        }],
        "checks": checks,
        "not_applicable": na,
        "notes": "Every check exits 0 / 1 (+VIOLATION line) / 2 (broken run: monitor observed nothing) / 3 (build failure). Known findings: /verif/known_findings.json.",
    }
    json.dump(m, open(os.path.join(ROOT, "MANIFEST.json"), "w"), indent=1)
    print("checks:", len(checks), "not_applicable:", len(na))

main()
