#!/bin/bash
# validate_seed.sh <worktree> : confirm a seeded change (seeded/patch.diff + seeded/demo.diff in the worktree)
#  (a) patch only  -> the repository's whole test suite passes
#  (b) patch+demo  -> the demonstration fails
#  (c) demo only   -> the demonstration passes
# Prints a summary; logs in <worktree>/seeded/validate.*.log
wt="$1"; cd "$wt" || exit 9
export CARGO_NET_OFFLINE=true
# the integration tests bind fixed loopback ports: run them in a private network namespace so that
# concurrent runs in other worktrees cannot collide
ns() { unshare -n sh -c 'ip link set lo up; exec "$@"' sh "$@"; }
clean() { git checkout -- . ; git clean -fdq -e seeded ; }
clean
git apply seeded/patch.diff || { echo "RESULT patch does not apply"; exit 9; }
ns cargo test --workspace --no-fail-fast --offline > seeded/validate.a.log 2>&1; a=$?
if [ $a -ne 0 ]; then
  # lib/tests has cases that are flaky under load (HTTP/3 speedtest upload): re-run each failing test binary once, alone
  reruns=$(grep -o 'to rerun pass `[^`]*`' seeded/validate.a.log | sed 's/to rerun pass `//; s/`$//' | sort -u)
  a=0; echo "RERUN of failing test binaries: $reruns"
  [ -z "$reruns" ] && a=1
  while read -r r; do [ -z "$r" ] && continue; ns cargo test --offline $r >> seeded/validate.a-rerun.log 2>&1 || a=1; done <<< "$reruns"
fi
git apply seeded/demo.diff || { echo "RESULT demo does not apply on top of patch"; clean; exit 9; }
ns cargo test --workspace --no-fail-fast --offline > seeded/validate.b.log 2>&1; b=$?
clean
git apply seeded/demo.diff || { echo "RESULT demo does not apply alone"; exit 9; }
ns cargo test --workspace --no-fail-fast --offline > seeded/validate.c.log 2>&1; c=$?
if [ $c -ne 0 ]; then
  reruns=$(grep -o 'to rerun pass `[^`]*`' seeded/validate.c.log | sed 's/to rerun pass `//; s/`$//' | sort -u)
  c=0; echo "RERUN (demo only) of failing test binaries: $reruns"
  [ -z "$reruns" ] && c=1
  while read -r r; do [ -z "$r" ] && continue; ns cargo test --offline $r >> seeded/validate.c-rerun.log 2>&1 || c=1; done <<< "$reruns"
fi
clean
echo "RESULT suite_with_patch_exit=$a demo_with_patch_exit=$b demo_without_patch_exit=$c"
echo "failed with patch+demo:"; grep -E '^test .* FAILED|^    [a-z_:0-9]+$' seeded/validate.b.log | sort -u | head -20
[ $a -eq 0 ] && [ $b -ne 0 ] && [ $c -eq 0 ] && echo "VALID" || echo "INVALID"
