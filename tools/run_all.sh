#!/usr/bin/env bash
# Runs every claimed check's quick (or given tier) command, validates evidence, prints a summary.
TIER="${1:-quick}"
cd "$(dirname "$0")/.."
ids=$(python3 -c "import json;print(' '.join(c['property_id'] for c in json.load(open('MANIFEST.json'))['checks']))")
fail=0
for id in $ids; do
  s=$(date +%s.%N)
  ./check $id --tier $TIER > .work/run_$id.out 2>&1; rc=$?
  e=$(date +%s.%N)
  printf "%s rc=%d %.1fs %s\n" $id $rc $(echo "$e - $s" | bc) "$(grep -E "^$id (quick|thorough):" .work/run_$id.out | cut -c1-150)"
  [ $rc -ne 0 ] && fail=1
done
python3-vt - <<'PY'
import json, jsonschema, glob
sch=json.load(open('/root/.vp/EVIDENCE.schema.json'))
m=json.load(open('/verif/MANIFEST.json'))
jsonschema.validate(m, json.load(open('/root/.vp/MANIFEST.schema.json')))
for c in m['checks']:
    f=c['evidence_file']
    try:
        jsonschema.validate(json.load(open(f)), sch)
    except Exception as ex:
        print("EVIDENCE INVALID", f, str(ex)[:200])
print("schemas checked")
PY
exit $fail
