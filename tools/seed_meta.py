#!/usr/bin/env python3
"""Write /verif/seeded/<name>/meta.json from the table below plus the logs of tools/validate_seed.sh and
tools/try_seed.sh kept under /verif/.work (run those first).  Usage: seed_meta.py <name>..."""
import json, os, re, sys, subprocess
V = '/verif'
TABLE = {
 'C01': dict(property='C01', breaks='"The decision is made per request": a session-level cache of the last credentials seen is filled before the verdict and not cleared on reject',
             needs='HTTP/2 (multiplexed session); two requests on one session carrying the same invalid Basic value with no other parsable Basic value in between; the second is let through',
             checks=['C01']),
 'C02': dict(property='C02', breaks='"nothing lost": the unsent tail of a partially written chunk is moved into the per-iteration future and destroyed when that future is cancelled',
             needs='a partial write, then the sink stays unwritable until an idle-timer expiration cancels the copy loop, while the other direction keeps the tunnel alive',
             checks=['C02', 'C14']),
 'C03': dict(property='C03', breaks='shared address space 100.64.0.0/10 matched with an 11-bit mask: 100.96.0.0-100.127.255.255 classified global',
             needs='private networks disallowed and a destination in 100.96.0.0/11 (any spelling: literal, IPv4-mapped, resolved name)', checks=['C03']),
 'C04': dict(property='C04', breaks='a rule with both cidr and a prefix/mask client-random pattern ignores its cidr (`matches =` instead of `matches &=`)',
             needs='a rule combining cidr with the masked pattern form and a peer outside the cidr whose random matches the mask', checks=['C04']),
 'C05': dict(property='C05', breaks='ALPN parsing stops at the first non-UTF-8 entry (map_while) instead of skipping it',
             needs='an ALPN list with a non-UTF-8 entry placed before the known protocol that should win', checks=['C05']),
 'C06': dict(property='C06', breaks='minimum record length compared with the outgoing header constant (36) instead of the incoming one (37): a record of declared length 36 underflows the drop counter',
             needs='a record whose declared length is exactly 36 followed by further records', checks=['C06', 'C09']),
 'C07': dict(property='C07', breaks='a flow closed after a socket error is reported with the reversed key, so udp_pipe keeps a stale entry and the next datagram on the pair returns NotFound and ends the whole multiplexer',
             needs='a socket error observed on the receive path of a flow (peer restarts and sends to the old socket after an ICMP error was latched) followed by a client datagram on the same pair within the UDP timeout',
             checks=['C07'], strengthened='C07 had no operation that surfaces a socket error on the receive path (datagrams to a closed port are consumed by the next send); added the PeerRestart operation (quick and thorough). Missed before, caught after.'),
 'C08': dict(property='C08', breaks='the codec always waits for another transport read before handing over buffered bytes: payload that arrived in the same read as the end of the head is withheld (lost on close)',
             needs='payload bytes sharing a read with the end of the head (or a cut inside the final CRLFCRLF), then the client goes silent or closes', checks=['C08']),
 'C10': dict(property='C10', breaks='reserved-authority dispatch on uri.host() instead of the whole authority: `_check:443` answered as a health check, `_udp2:port`/`_icmp:port` hit unreachable!() and get no response',
             needs='an authenticated request whose authority is a reserved name with a port', checks=['C10']),
 'C11': dict(property='C11', breaks='request decoder takes the zero-copy fast path although the head of a record is already buffered',
             needs='a 7.3 record split across two chunks where the continuation chunk is at least 23 bytes long (carries the next record too)', checks=['C11']),
 'C14': dict(property='C14', breaks='"a tunnel that transfers data at least once every T is never closed": progress made while draining a held-back remainder no longer refreshes last_activity',
             needs='a sink accepting only part of each write, one chunk taking longer than T to drain with portions flowing more often than once per T, the opposite direction silent',
             checks=['C14']),
 'C17': dict(property='C17', breaks='de-chunking for HTTP/2 and HTTP/3 clients reads 2 bytes of chunk suffix even when one is already buffered',
             needs='HTTP/2 or HTTP/3 client, chunked origin response cut exactly between the CR and LF closing a data chunk, with at least one more byte in the piece that starts with the LF', checks=['C17']),
 'C09': dict(property='C09', breaks='v4 responded_echo_request parses the quoted echo without the lower-bound length check: panic in the ICMP listener task',
             needs='an ICMPv4 error whose quoted IPv4 header carries options (IHL >= 6) and whose quote ends 1-7 bytes after that header with first byte 8', checks=['C09', 'C11'],
             strengthened='missed at first by C09 and C11 (no input had a quote truncated 1-7 bytes into the echo header *behind IP options*); C09 gained the family "errors quoting a packet behind every IPv4 option length / IPv6 extension header with 0-12 bytes of quoted message left", C11 the matching must-not-report cases. Caught by both afterwards.'),
 'C12': dict(property='C12', breaks='early give-up guard looks at byte 5 with only 5 bytes buffered: a complete ClientHello is reported as having no client random',
             needs='a read that returns exactly the 5-byte record header and nothing else (first flight cut at offset 5 with a delay, or byte-at-a-time with delays)', checks=['C12']),
 'C13': dict(property='C13', breaks='the registry authenticator encodes the configured pair with the URL-safe base64 alphabet: pairs whose standard base64 contains + or / are rejected (407) although configured',
             needs='a user:password whose standard base64 contains + or / (e.g. ~ > ? at byte offset 2 mod 3, most non-ASCII)', checks=['C13', 'C01']),
 'C15': dict(property='C15', breaks='a selected authentication method the endpoint did not offer is treated as success (username/password sent into an extended-auth dialogue and vice versa)',
             needs='credentials present and the server selecting exactly the other authenticating method byte (0x80 when 0x02 was offered, or 0x02 when 0x80 was offered)', checks=['C15']),
 'C16': dict(property='C16', breaks='inbound_traffic_bytes counts UDP datagrams the forwarder dropped (send failed)',
             needs='a _udp2 flow whose send on the connected socket fails (second datagram to a closed port: ECONNREFUSED) while the flow stays alive', checks=['C16'],
             strengthened='missed at first: the L2 histories cannot tell from outside which datagram a socket refused. Added hook run_udp_pipe_scripted (scripted forwarder side whose per-datagram outcome the harness chooses) and the C16 UDP byte-accounting part: counter callback totals must equal the bytes of datagrams actually sent / delivered. Caught afterwards.'),
 'C18': dict(property='C18', breaks='upload bound checked in whole MiB (integer division): Content-Length from 120 MiB + 1 to 121 MiB - 1 answered 200 instead of 400',
             needs='an upload whose Content-Length lies in (120 MiB, 121 MiB)', checks=['C18']),
 'C19': dict(property='C19', breaks='the ping handler drops its completion guard at once (`let (.., _) =`): completion() no longer waits for ping sessions',
             needs='a ping session still winding down when completion() is awaited, and an observer comparing "completion returned" with "handler finished"', checks=['C19'],
             strengthened='missed at first (the handlers part compared counts 20 ms after completion(), by which time the ping handler had finished too; with the new registration barrier the rounds became inconclusive). Added hook Shutdown::verif_participants and the verdict: every session handler that holds a notification handle must hold a completion guard. Caught afterwards.'),
 'C20': dict(property='C20', breaks='the auth-info error text quotes the "scheme" of a non-Basic Proxy-Authorization value: for a value without a space that is the whole token',
             needs='a tunnel request whose Proxy-Authorization value has no space before the secret (bare base64 token, `Basic:tok`, `Basic<TAB>tok`); logged at debug by tunnel.rs', checks=['C20'],
             strengthened='missed at first: the error-path sweep had no Proxy-Authorization value without a space between scheme and secret. Added bare token, `Basic:tok`, `Basic<TAB>tok`, `Basictok`, `Negotiate,tok`. Caught afterwards. (The seeding agent also pointed at an existing leak, ConnectionMeta Debug: see known_findings.json fixed C20.)'),
 'C01b': dict(property='C01', breaks='registry authenticator compares tokens with a "constant-time" helper that zips without a length check: any token that is a prefix of a registered one (or extends it) authenticates',
             needs='a presented token in a prefix relation with a registered base64 token (truncated, or user:pass extended when its length is a multiple of 3)', checks=['C01']),
 'C02b': dict(property='C02', breaks='HTTP/2 RequestStream::consume returns early once the client ended its stream: connection-level flow-control credit for the last forwarded bytes is never returned',
             needs='an HTTP/2 client that sends END_STREAM with its last DATA frame while the tunnel stays open for the download, repeated until the withheld credit exhausts the connection window',
             checks=['C02'], strengthened='missed at first: no scenario kept half-closed tunnels open on one session. Added the C02 L2 scenario "many half-closed tunnels on one HTTP/2 session through a 64 KiB connection window". Caught afterwards (session stalls).'),
 'C04b': dict(property='C04', breaks='TCP/TLS path passes an empty client random instead of "unavailable": rules that need a random no longer fail closed',
             needs='a ClientHello whose random the peek cannot extract (hello split over several TLS records) and a rule list with a client-random rule whose skipping yields allow',
             checks=['C04'], strengthened='missed at first: the L2 wiring part had no connection with an unavailable client random. Added rustls clients with max_fragment_size = 64 against rule lists with client-random rules (must be dropped with zero server bytes) and controls. Caught afterwards.'),
 'C05b': dict(property='C05', breaks='<credentials>.<main host> lookup by string suffix without a label boundary: xmain.test, a.c.main.test accepted; nested main hosts order-dependent',
             needs='an SNI that ends with a main host name without being <one label>.<main host>', checks=['C05']),
 'C07b': dict(property='C07', breaks='follow-up datagrams on a port-53 flow are not counted as pending queries: the socket is released after the first answer although more are outstanding',
             needs='two or more client datagrams outstanding on one port-53 flow before the first answer arrives',
             checks=['C07'], strengthened='missed at first: the Dns operation sent one query at a time. Added a slow port-53 server (answers after 120 ms) and the DnsBurst operation (2-3 queries outstanding at once); port-53 servers now have per-history loopback addresses so every parallel history exercises them. Caught afterwards.'),
 'C10b': dict(property='C10', breaks='the establishment timeout yields ConnectionError::Io(TimedOut) instead of Timeout: 502 with X-Warning 300 instead of 302',
             needs='a connect attempt that stays pending longer than connection_establishment_timeout', checks=['C10', 'C14']),
 'C13b': dict(property='C13', breaks='TlsHostsSettings::validate checks speedtest hosts against a discarded clone of the name set: a name shared by a speedtest host and a reverse-proxy host is accepted',
             needs='the same host name in exactly the speedtest and reverse-proxy classes',
             checks=['C13'], strengthened='missed at first: the start-up matrix had only main/ping and main/main duplicates. Now every pair of the four host classes (and a control with four distinct names). Caught afterwards.'),
 'C14b': dict(property='C14', breaks='outbound connect limited by tls_handshake_timeout instead of connection_establishment_timeout',
             needs='the two settings different and a connect delay between them (or never completing) with the answer time observed on the virtual clock', checks=['C14']),
 'C17b': dict(property='C17', breaks='forwarded Host header loses its port when the client supplied its own Host header',
             needs='a target authority with an explicit port and a client-supplied Host header', checks=['C17']),
 'C18b': dict(property='C18', breaks='reverse proxy appends its X-Original-Protocol to a client-supplied one instead of replacing it',
             needs='a reverse-proxied request in which the client sends its own X-Original-Protocol header, observed at the origin',
             checks=['C18'], strengthened='missed at first: the steering attempts only used Host. Added client-supplied X-Original-Protocol values; the origin must see exactly one header with the endpoint\'s value. Caught afterwards.'),
}
def sigs(name, check, tier='quick'):
    p = f'{V}/.work/seed-{name}-{check}-{tier}.out'
    if not os.path.exists(p): return None
    t = open(p, errors='replace').read()
    s = sorted(set(re.findall(r'^  signature: (.*)$', t, re.M)))
    m = re.search(r'^%s %s: (.*)$' % (check, tier), t, re.M)
    return dict(check=check, tier=tier, violation_lines=len(re.findall(r'^VIOLATION', t, re.M)), signatures=s[:8], summary=m.group(1) if m else None)
for name in sys.argv[1:]:
    e = TABLE[name]; d = f'{V}/seeded/{name}'
    val = open(f'{V}/.work/validate-{name}.out', errors='replace').read() if os.path.exists(f'{V}/.work/validate-{name}.out') else ''
    res = re.search(r'RESULT (.*)', val)
    failed = sorted(set(x.strip() for x in re.findall(r'^test (\S+) \.\.\. FAILED', val, re.M)))
    patch = open(f'{d}/patch.diff').read()
    meta = dict(
        name=name, property=e['property'], what_it_breaks=e['breaks'], needs_to_manifest=e['needs'],
        files_changed=sorted(set(re.findall(r'^\+\+\+ b/(.*)$', patch, re.M))),
        author='fresh sub-agent given only the property text and its own scratch worktree under /tmp (nothing from /verif)',
        demonstration=dict(file='demo.diff', failing_tests_with_change=failed),
        confirmed_by_me=dict(
            how='tools/validate_seed.sh in the scratch worktree, tests run in a private network namespace (unshare -n): (a) patch only: cargo test --workspace --no-fail-fast --offline; (b) patch + demo: cargo test -p trusttunnel --no-fail-fast --offline; (c) demo only: same command',
            result=res.group(1) if res else 'NOT VALIDATED', verdict='VALID' if re.search(r'^VALID$', val, re.M) else 'INVALID/unknown'),
        checks_run=dict(how='tools/try_seed.sh: git -C /repo apply patch.diff; ./check <id> --tier quick; git -C /repo checkout -- .',
                        results=[x for x in (sigs(name, c) for c in e['checks']) if x]),
    )
    if 'strengthened' in e: meta['strengthened'] = e['strengthened']
    json.dump(meta, open(f'{d}/meta.json', 'w'), indent=1); print(name, meta['confirmed_by_me']['verdict'], [ (r['check'], r['violation_lines']) for r in meta['checks_run']['results']])
