#!/bin/bash
# try_seed.sh <seed-dir-name> <tier> <check-id>... : apply /verif/seeded/<name>/patch.diff to /repo, run the
# given checks, undo the change. Output of each check goes to /verif/.work/seed-<name>-<id>-<tier>.out
name="$1"; tier="$2"; shift 2
cd /verif || exit 9
[ -n "$(git -C /repo status --porcelain)" ] && { echo "/repo not clean"; exit 9; }
trap 'git -C /repo checkout -- .' EXIT
git -C /repo apply "/verif/seeded/$name/patch.diff" || exit 9
for id in "$@"; do
  out=".work/seed-$name-$id-$tier.out"
  ./check "$id" --tier "$tier" > "$out" 2>&1; rc=$?
  echo "seed=$name check=$id tier=$tier exit=$rc $(grep -c '^VIOLATION' "$out") violation line(s)"
  grep -m3 -E '^VIOLATION|^BROKEN|^KNOWN' "$out"
done
