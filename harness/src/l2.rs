//! Loopback end-to-end scaffolding: the real `Core::listen()` in-process, rustls clients with a
//! raw-byte tap, per-host certificates.

use crate::env;
use std::collections::HashMap;
use std::io;
use std::net::{SocketAddr, TcpListener as StdListener};
use std::pin::Pin;
use std::sync::atomic::{AtomicU64, Ordering};
use std::sync::Arc;
use std::task::{Context, Poll};
use std::time::Duration;
use tokio::io::{AsyncRead, AsyncWrite, ReadBuf};
use tokio::net::TcpStream;
use trusttunnel::authentication::Authenticator;
use trusttunnel::settings::{SettingsBuilder, TlsHostInfo, TlsHostsSettings};
use trusttunnel::verif::ctx::Ctx;

pub fn free_port(v6: bool) -> u16 {
    let l = if v6 { StdListener::bind("[::]:0") } else { StdListener::bind("127.0.0.1:0") }.expect("bind");
    l.local_addr().unwrap().port()
}

#[derive(Default)]
pub struct Hosts {
    pub main: Vec<(String, Vec<String>)>,
    pub ping: Vec<String>,
    pub speedtest: Vec<String>,
    pub reverse_proxy: Vec<String>,
}

pub struct Endpoint {
    pub addr: SocketAddr,
    pub ctx: Arc<Ctx>,
    pub task: tokio::task::JoinHandle<io::Result<()>>,
    /// host name -> DER of its certificate
    pub certs: HashMap<String, Vec<u8>>,
}

pub fn build_hosts(dir: &std::path::Path, hosts: &Hosts) -> (TlsHostsSettings, HashMap<String, Vec<u8>>) {
    let mut certs = HashMap::new();
    let mut mk = |name: &str, sni: Vec<String>| -> TlsHostInfo {
        let (info, der) = env::host_info(dir, name, sni);
        certs.insert(name.to_string(), der);
        info
    };
    let main: Vec<TlsHostInfo> = hosts.main.iter().map(|(h, s)| mk(h, s.clone())).collect();
    let ping: Vec<TlsHostInfo> = hosts.ping.iter().map(|h| mk(h, vec![])).collect();
    let speed: Vec<TlsHostInfo> = hosts.speedtest.iter().map(|h| mk(h, vec![])).collect();
    let rp: Vec<TlsHostInfo> = hosts.reverse_proxy.iter().map(|h| mk(h, vec![])).collect();
    let settings = TlsHostsSettings::builder().main_hosts(main).ping_hosts(ping).speedtest_hosts(speed).reverse_proxy_hosts(rp).build().expect("tls hosts");
    (settings, certs)
}

/// Start the real endpoint. `listen` is e.g. "127.0.0.1" or "[::]"; the port is chosen here.
pub async fn start_endpoint(
    dir: &std::path::Path,
    listen: &str,
    hosts: &Hosts,
    authenticator: Option<Arc<dyn Authenticator>>,
    clients: Vec<(String, String)>,
    protocols: (bool, bool, bool),
    tweak: impl FnOnce(SettingsBuilder) -> SettingsBuilder + Send + 'static,
) -> Endpoint {
    let port = free_port(listen.contains(':'));
    let addr_s = format!("{}:{}", listen, port);
    let settings = {
        let mut opts = env::CtxOpts { listen: addr_s.clone(), clients, h1: protocols.0, h2: protocols.1, quic: protocols.2, ..Default::default() };
        opts.tweak = Some(Box::new(tweak));
        env::build_settings(&mut opts)
    };
    let (hosts_settings, certs) = build_hosts(dir, hosts);
    let ctx = Arc::new(Ctx::new(settings, authenticator, hosts_settings).expect("ctx"));
    let c2 = ctx.clone();
    let task = tokio::spawn(async move { c2.core.listen().await });
    let addr: SocketAddr = addr_s.parse().unwrap();
    // wait until the listener accepts
    let probe: SocketAddr = if listen.contains(':') { format!("[::1]:{}", port).parse().unwrap() } else { addr };
    for _ in 0..200 {
        if let Ok(s) = TcpStream::connect(probe).await { drop(s); break; }
        tokio::time::sleep(Duration::from_millis(10)).await;
    }
    Endpoint { addr, ctx, task, certs }
}

/// TCP stream wrapper counting the bytes the server sent
pub struct Tap {
    pub inner: TcpStream,
    pub received: Arc<AtomicU64>,
    /// first bytes written by the client (its ClientHello)
    pub sent_prefix: Arc<std::sync::Mutex<Vec<u8>>>,
}

impl AsyncRead for Tap {
    fn poll_read(mut self: Pin<&mut Self>, cx: &mut Context<'_>, buf: &mut ReadBuf<'_>) -> Poll<io::Result<()>> {
        let before = buf.filled().len();
        let r = Pin::new(&mut self.inner).poll_read(cx, buf);
        self.received.fetch_add((buf.filled().len() - before) as u64, Ordering::SeqCst);
        r
    }
}

impl AsyncWrite for Tap {
    fn poll_write(mut self: Pin<&mut Self>, cx: &mut Context<'_>, data: &[u8]) -> Poll<io::Result<usize>> {
        let r = Pin::new(&mut self.inner).poll_write(cx, data);
        if let Poll::Ready(Ok(n)) = &r {
            let mut g = self.sent_prefix.lock().unwrap();
            if g.len() < 600 {
                let room = 600 - g.len();
                g.extend_from_slice(&data[..(*n).min(room)]);
            }
        }
        r
    }
    fn poll_flush(mut self: Pin<&mut Self>, cx: &mut Context<'_>) -> Poll<io::Result<()>> {
        Pin::new(&mut self.inner).poll_flush(cx)
    }
    fn poll_shutdown(mut self: Pin<&mut Self>, cx: &mut Context<'_>) -> Poll<io::Result<()>> {
        Pin::new(&mut self.inner).poll_shutdown(cx)
    }
}

struct AnyCert;
impl rustls::client::ServerCertVerifier for AnyCert {
    fn verify_server_cert(
        &self,
        _end_entity: &rustls::Certificate,
        _intermediates: &[rustls::Certificate],
        _server_name: &rustls::ServerName,
        _scts: &mut dyn Iterator<Item = &[u8]>,
        _ocsp_response: &[u8],
        _now: std::time::SystemTime,
    ) -> Result<rustls::client::ServerCertVerified, rustls::Error> {
        Ok(rustls::client::ServerCertVerified::assertion())
    }
}

pub fn client_config(alpn: &[&[u8]]) -> Arc<rustls::ClientConfig> {
    let mut cfg = rustls::ClientConfig::builder()
        .with_safe_defaults()
        .with_custom_certificate_verifier(Arc::new(AnyCert))
        .with_no_client_auth();
    cfg.alpn_protocols = alpn.iter().map(|a| a.to_vec()).collect();
    cfg.enable_sni = true;
    Arc::new(cfg)
}

pub struct TlsOutcome {
    pub stream: Option<tokio_rustls::client::TlsStream<Tap>>,
    pub error: Option<String>,
    pub server_bytes: u64,
    pub peer_cert: Option<Vec<u8>>,
    pub alpn: Option<Vec<u8>>,
    /// the 32-byte random of the ClientHello this client sent
    pub client_random: Option<Vec<u8>>,
}

/// TLS handshake from `local` family to `addr` with the given SNI (None = no SNI extension) and ALPN list
pub async fn tls_connect(addr: SocketAddr, sni: Option<&str>, alpn: &[&[u8]], timeout: Duration) -> TlsOutcome {
    tls_connect_opts(addr, sni, alpn, timeout, None).await
}

/// `max_fragment` = rustls `max_fragment_size`: a small value splits the ClientHello over several TLS records
pub async fn tls_connect_opts(addr: SocketAddr, sni: Option<&str>, alpn: &[&[u8]], timeout: Duration, max_fragment: Option<usize>) -> TlsOutcome {
    let received = Arc::new(AtomicU64::new(0));
    let mut out = TlsOutcome { stream: None, error: None, server_bytes: 0, peer_cert: None, alpn: None, client_random: None };
    let sent_prefix: Arc<std::sync::Mutex<Vec<u8>>> = Default::default();
    let tcp = match tokio::time::timeout(timeout, TcpStream::connect(addr)).await {
        Ok(Ok(s)) => s,
        Ok(Err(e)) => { out.error = Some(format!("connect: {}", e)); return out; }
        Err(_) => { out.error = Some("connect: timeout".into()); return out; }
    };
    let tap = Tap { inner: tcp, received: received.clone(), sent_prefix: sent_prefix.clone() };
    let mut cfg = (*client_config(alpn)).clone();
    cfg.max_fragment_size = max_fragment;
    let name = match sni {
        Some(s) => rustls::ServerName::try_from(s).unwrap_or_else(|_| rustls::ServerName::try_from("invalid.test").unwrap()),
        None => { cfg.enable_sni = false; rustls::ServerName::try_from("nosni.test").unwrap() }
    };
    let connector = tokio_rustls::TlsConnector::from(Arc::new(cfg));
    match tokio::time::timeout(timeout, connector.connect(name, tap)).await {
        Ok(Ok(s)) => {
            let (_, conn) = s.get_ref();
            out.peer_cert = conn.peer_certificates().and_then(|c| c.first()).map(|c| c.0.clone());
            out.alpn = conn.alpn_protocol().map(|a| a.to_vec());
            out.stream = Some(s);
        }
        Ok(Err(e)) => out.error = Some(format!("handshake: {}", e)),
        Err(_) => out.error = Some("handshake: timeout".into()),
    }
    out.server_bytes = received.load(Ordering::SeqCst);
    {
        let g = sent_prefix.lock().unwrap();
        // record(5) + handshake header(4) + version(2) = 11, then 32 bytes of random
        if g.len() >= 43 && g[0] == 0x16 && g[5] == 0x01 {
            out.client_random = Some(g[11..43].to_vec());
        }
    }
    out
}
