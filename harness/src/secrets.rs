//! Registry of planted secrets (C20): every value put into a secret-bearing field is recorded,
//! so the log scan knows exactly what must never appear.

use std::collections::BTreeSet;
use std::sync::Mutex;

static PLANTED: Mutex<BTreeSet<String>> = Mutex::new(BTreeSet::new());
static EXTRA: Mutex<Vec<(String, Vec<u8>)>> = Mutex::new(Vec::new());

pub const MARKER: &str = "CANARY";
pub const COOKIE: &str = "sid=CANARYCOOKIE77; theme=dark";
pub const AUTHZ: &str = "Bearer CANARYAUTHZ88";

/// Record a secret value (and, for `Basic <token>`, the token)
pub fn plant(value: &[u8]) {
    let s = String::from_utf8_lossy(value).to_string();
    let tok = s.trim().strip_prefix("Basic ").or_else(|| s.trim().strip_prefix("basic ")).unwrap_or(s.trim()).trim().to_string();
    if tok.len() >= 8 && !tok.contains(' ') {
        PLANTED.lock().unwrap().insert(tok);
    }
}

pub fn plant_str(s: &str) {
    if s.len() >= 6 {
        PLANTED.lock().unwrap().insert(s.to_string());
    }
}

pub fn needles() -> Vec<String> {
    let mut v: Vec<String> = PLANTED.lock().unwrap().iter().cloned().collect();
    v.push(MARKER.to_string());
    v
}

/// Headers added to every request built by the drivers (set by C20)
pub fn set_extra_headers(h: Vec<(String, Vec<u8>)>) {
    *EXTRA.lock().unwrap() = h;
}

pub fn extra_headers() -> Vec<(String, Vec<u8>)> {
    EXTRA.lock().unwrap().clone()
}
