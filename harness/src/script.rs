//! Scripted pipe endpoints (mirror traits) driven under tokio's paused clock.
//!
//! Every endpoint shares a `Log` with the harness: the monitor reads what the real pipe did to
//! it (calls, offered/accepted lengths, virtual timestamps, drop) after the run.

use crate::common::prng::coded_byte;
use async_trait::async_trait;
use bytes::Bytes;
use std::collections::VecDeque;
use std::io;
use std::sync::{Arc, Mutex};
use std::time::Duration;
use tokio::time::Instant;
use trusttunnel::verif::pipes::{VSink, VSource};

#[derive(Clone, Debug, PartialEq, Eq, Hash)]
pub enum SrcStep {
    /// virtual delay before the next step, in microseconds
    Delay(u64),
    Chunk(usize),
    Eof,
    Error,
}

#[derive(Clone, Debug, PartialEq, Eq, Hash, Default)]
pub struct SinkScript {
    /// acceptance quota of successive `write` calls (usize::MAX = everything); afterwards everything
    pub quotas: Vec<usize>,
    /// delay (µs) of successive `wait_writable` calls; afterwards 0
    pub writable_delays: Vec<u64>,
    /// delay (µs) of `flush`
    pub flush_delay: u64,
    pub fault: Option<SinkFault>,
}

#[derive(Clone, Copy, Debug, PartialEq, Eq, Hash)]
pub enum SinkFault {
    Write(usize),
    WaitWritable(usize),
    Eof,
    Flush,
}

#[derive(Clone, Debug, PartialEq, Eq, Hash, Default)]
pub struct SrcScript {
    pub steps: Vec<SrcStep>,
    /// fail the k-th `consume` call
    pub consume_fault: Option<usize>,
}

impl SrcScript {
    pub fn total_bytes(&self) -> usize {
        self.steps
            .iter()
            .map(|s| if let SrcStep::Chunk(n) = s { *n } else { 0 })
            .sum()
    }

    pub fn ends_with_eof(&self) -> bool {
        self.steps.iter().any(|s| *s == SrcStep::Eof)
    }

    pub fn has_error(&self) -> bool {
        self.steps.iter().any(|s| *s == SrcStep::Error)
    }
}

#[derive(Clone, Debug)]
pub enum Ev {
    ReadChunk(usize),
    ReadEof,
    ReadErr,
    ReadAfterEof,
    ReadCancelled,
    Consume(usize),
    ConsumeErr,
    Write { offered: usize, accepted: usize },
    WriteErr,
    WriteAfterEof,
    WaitWritable,
    WaitWritableErr,
    WaitCancelled,
    Eof,
    EofErr,
    Flush,
    FlushErr,
    FlushCancelled,
    Dropped,
}

#[derive(Default)]
pub struct Log {
    pub events: Vec<(Duration, Ev)>,
    pub received: Vec<u8>,
    pub consumed: usize,
    pub produced: usize,
    pub eof_calls: usize,
    pub flush_after_eof: usize,
    pub fault_fired_at: Option<Duration>,
    pub dropped: bool,
    pub zero_progress_run: usize,
    pub spin_detected: bool,
}

pub type SharedLog = Arc<Mutex<Log>>;

pub struct Clock(pub Instant);

impl Clock {
    pub fn now(&self) -> Duration {
        Instant::now().duration_since(self.0)
    }
}

pub struct ScriptSource {
    key: u64,
    dir: u64,
    steps: VecDeque<SrcStep>,
    offset: u64,
    wake_at: Option<Instant>,
    in_flight: bool,
    eof_seen: bool,
    consume_calls: usize,
    consume_fault: Option<usize>,
    log: SharedLog,
    t0: Instant,
}

impl ScriptSource {
    pub fn new(key: u64, dir: u64, script: &SrcScript, t0: Instant) -> (Self, SharedLog) {
        let log: SharedLog = Default::default();
        (
            Self {
                key,
                dir,
                steps: script.steps.iter().cloned().collect(),
                offset: 0,
                wake_at: None,
                in_flight: false,
                eof_seen: false,
                consume_calls: 0,
                consume_fault: script.consume_fault,
                log: log.clone(),
                t0,
            },
            log,
        )
    }

    fn ev(&self, e: Ev) {
        let t = Instant::now().duration_since(self.t0);
        self.log.lock().unwrap().events.push((t, e));
    }
}

#[async_trait]
impl VSource for ScriptSource {
    async fn read(&mut self) -> io::Result<Option<Bytes>> {
        if self.in_flight {
            // the previous read future was dropped before completing (copy loop restarted)
            self.ev(Ev::ReadCancelled);
        }
        self.in_flight = true;
        loop {
            if let Some(w) = self.wake_at {
                tokio::time::sleep_until(w).await;
                self.wake_at = None;
            }
            match self.steps.front().cloned() {
                Some(SrcStep::Delay(us)) => {
                    self.steps.pop_front();
                    self.wake_at = Some(Instant::now() + Duration::from_micros(us));
                }
                Some(SrcStep::Chunk(n)) => {
                    self.steps.pop_front();
                    let data: Vec<u8> = (0..n as u64)
                        .map(|i| coded_byte(self.key, self.dir, self.offset + i))
                        .collect();
                    self.offset += n as u64;
                    self.in_flight = false;
                    self.log.lock().unwrap().produced += n;
                    self.ev(Ev::ReadChunk(n));
                    return Ok(Some(Bytes::from(data)));
                }
                Some(SrcStep::Eof) => {
                    self.in_flight = false;
                    if self.eof_seen {
                        self.ev(Ev::ReadAfterEof);
                    } else {
                        self.ev(Ev::ReadEof);
                    }
                    self.eof_seen = true;
                    return Ok(None);
                }
                Some(SrcStep::Error) => {
                    self.steps.pop_front();
                    self.in_flight = false;
                    let t = Instant::now().duration_since(self.t0);
                    self.log.lock().unwrap().fault_fired_at = Some(t);
                    self.ev(Ev::ReadErr);
                    return Err(io::Error::new(io::ErrorKind::ConnectionReset, "injected read error"));
                }
                None => {
                    // script exhausted without EOF: silent forever
                    futures::future::pending::<()>().await;
                }
            }
        }
    }

    fn consume(&mut self, size: usize) -> io::Result<()> {
        self.consume_calls += 1;
        if self.consume_fault == Some(self.consume_calls) {
            let t = Instant::now().duration_since(self.t0);
            self.log.lock().unwrap().fault_fired_at = Some(t);
            self.ev(Ev::ConsumeErr);
            return Err(io::Error::new(io::ErrorKind::Other, "injected consume error"));
        }
        self.log.lock().unwrap().consumed += size;
        self.ev(Ev::Consume(size));
        Ok(())
    }
}

impl Drop for ScriptSource {
    fn drop(&mut self) {
        self.ev(Ev::Dropped);
        self.log.lock().unwrap().dropped = true;
    }
}

pub struct ScriptSink {
    quotas: VecDeque<usize>,
    writable_delays: VecDeque<u64>,
    flush_delay: u64,
    fault: Option<SinkFault>,
    write_calls: usize,
    wait_calls: usize,
    wake_at: Option<Instant>,
    wait_in_flight: bool,
    flush_in_flight: bool,
    eof: bool,
    log: SharedLog,
    t0: Instant,
}

pub const SPIN_BOUND: usize = 10_000;

impl ScriptSink {
    pub fn new(script: &SinkScript, t0: Instant) -> (Self, SharedLog) {
        let log: SharedLog = Default::default();
        (
            Self {
                quotas: script.quotas.iter().cloned().collect(),
                writable_delays: script.writable_delays.iter().cloned().collect(),
                flush_delay: script.flush_delay,
                fault: script.fault,
                write_calls: 0,
                wait_calls: 0,
                wake_at: None,
                wait_in_flight: false,
                flush_in_flight: false,
                eof: false,
                log: log.clone(),
                t0,
            },
            log,
        )
    }

    fn ev(&self, e: Ev) {
        let t = Instant::now().duration_since(self.t0);
        self.log.lock().unwrap().events.push((t, e));
    }

    fn fire(&self) {
        let t = Instant::now().duration_since(self.t0);
        self.log.lock().unwrap().fault_fired_at = Some(t);
    }
}

#[async_trait]
impl VSink for ScriptSink {
    fn write(&mut self, mut data: Bytes) -> io::Result<Bytes> {
        self.write_calls += 1;
        if self.fault == Some(SinkFault::Write(self.write_calls)) {
            self.fire();
            self.ev(Ev::WriteErr);
            return Err(io::Error::new(io::ErrorKind::BrokenPipe, "injected write error"));
        }
        if self.eof {
            self.ev(Ev::WriteAfterEof);
        }
        let quota = self.quotas.pop_front().unwrap_or(usize::MAX);
        let accepted = quota.min(data.len());
        let rest = data.split_off(accepted);
        {
            let mut l = self.log.lock().unwrap();
            l.received.extend_from_slice(&data);
            if accepted == 0 && !rest.is_empty() {
                l.zero_progress_run += 1;
                if l.zero_progress_run > SPIN_BOUND {
                    l.spin_detected = true;
                    return Err(io::Error::new(io::ErrorKind::Other, "monitor: zero-progress write spin"));
                }
            } else {
                l.zero_progress_run = 0;
            }
        }
        self.ev(Ev::Write {
            offered: accepted + rest.len(),
            accepted,
        });
        Ok(rest)
    }

    fn eof(&mut self) -> io::Result<()> {
        if self.fault == Some(SinkFault::Eof) {
            self.fire();
            self.ev(Ev::EofErr);
            return Err(io::Error::new(io::ErrorKind::BrokenPipe, "injected eof error"));
        }
        self.eof = true;
        self.log.lock().unwrap().eof_calls += 1;
        self.ev(Ev::Eof);
        Ok(())
    }

    async fn wait_writable(&mut self) -> io::Result<()> {
        self.log.lock().unwrap().zero_progress_run = 0;
        if self.wait_in_flight {
            self.ev(Ev::WaitCancelled);
        } else {
            self.wait_calls += 1;
            if let Some(us) = self.writable_delays.pop_front() {
                if us > 0 {
                    self.wake_at = Some(Instant::now() + Duration::from_micros(us));
                }
            }
        }
        self.wait_in_flight = true;
        if let Some(w) = self.wake_at {
            tokio::time::sleep_until(w).await;
            self.wake_at = None;
        }
        self.wait_in_flight = false;
        if self.fault == Some(SinkFault::WaitWritable(self.wait_calls)) {
            self.fire();
            self.ev(Ev::WaitWritableErr);
            return Err(io::Error::new(io::ErrorKind::BrokenPipe, "injected wait_writable error"));
        }
        self.ev(Ev::WaitWritable);
        Ok(())
    }

    async fn flush(&mut self) -> io::Result<()> {
        if self.flush_in_flight {
            self.ev(Ev::FlushCancelled);
        } else if self.flush_delay > 0 {
            self.wake_at = Some(Instant::now() + Duration::from_micros(self.flush_delay));
        }
        self.flush_in_flight = true;
        if let Some(w) = self.wake_at {
            tokio::time::sleep_until(w).await;
            self.wake_at = None;
        }
        self.flush_in_flight = false;
        if self.fault == Some(SinkFault::Flush) {
            self.fire();
            self.ev(Ev::FlushErr);
            return Err(io::Error::new(io::ErrorKind::BrokenPipe, "injected flush error"));
        }
        if self.eof {
            self.log.lock().unwrap().flush_after_eof += 1;
        }
        self.ev(Ev::Flush);
        Ok(())
    }
}

impl Drop for ScriptSink {
    fn drop(&mut self) {
        self.ev(Ev::Dropped);
        self.log.lock().unwrap().dropped = true;
    }
}

/// Expected content of direction `dir` (first `n` bytes)
pub fn expected_bytes(key: u64, dir: u64, n: usize) -> Vec<u8> {
    (0..n as u64).map(|i| coded_byte(key, dir, i)).collect()
}
