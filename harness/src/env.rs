//! Shared scaffolding: work directory, generated certificates, settings/context builders.

use std::path::PathBuf;
use std::sync::Arc;
use std::time::Duration;
use trusttunnel::authentication::registry_based::{Client, RegistryBasedAuthenticator};
use trusttunnel::authentication::Authenticator;
use trusttunnel::settings::{
    Http1Settings, Http2Settings, ListenProtocolSettings, QuicSettings, Settings, TlsHostInfo,
    TlsHostsSettings,
};
use trusttunnel::verif::ctx::Ctx;

/// Per-process scratch directory (removed by a later run once the process is gone)
pub fn work_dir(root: &std::path::Path, sub: &str) -> PathBuf {
    let p = root.join(".work").join(format!("{}-{}", sub, std::process::id()));
    std::fs::create_dir_all(&p).expect("create work dir");
    p
}

/// Remove scratch directories of processes that no longer exist
pub fn sweep_work(root: &std::path::Path) {
    if let Ok(rd) = std::fs::read_dir(root.join(".work")) {
        for e in rd.flatten() {
            let name = e.file_name().to_string_lossy().to_string();
            if let Some((_, pid)) = name.rsplit_once('-') {
                if pid.chars().all(|c| c.is_ascii_digit()) && !pid.is_empty()
                    && !std::path::Path::new(&format!("/proc/{}", pid)).exists()
                {
                    let _ = std::fs::remove_dir_all(e.path());
                }
            }
        }
    }
}

type CertCache = std::sync::Mutex<std::collections::HashMap<(PathBuf, String), (String, String, Vec<u8>)>>;
static CERTS: std::sync::OnceLock<CertCache> = std::sync::OnceLock::new();

/// Self-signed certificate + key for `host`, written as PEM files; returns (cert path, key path, cert DER)
pub fn make_cert(dir: &std::path::Path, host: &str, sans: &[String]) -> (String, String, Vec<u8>) {
    // generated once per (directory, host) in this process; workers share the files
    let cache = CERTS.get_or_init(Default::default);
    let mut guard = cache.lock().unwrap();
    let key = (dir.to_path_buf(), format!("{}|{}", host, sans.join(",")));
    if let Some(x) = guard.get(&key) {
        return x.clone();
    }
    let r = make_cert_uncached(dir, host, sans);
    guard.insert(key, r.clone());
    r
}

fn make_cert_uncached(dir: &std::path::Path, host: &str, sans: &[String]) -> (String, String, Vec<u8>) {
    let mut names = vec![host.to_string()];
    names.extend(sans.iter().cloned());
    let ck = rcgen::generate_simple_self_signed(names).expect("rcgen");
    let file_stem = host.replace(['*', '/'], "_");
    let cert_path = dir.join(format!("{}.cert.pem", file_stem));
    let key_path = dir.join(format!("{}.key.pem", file_stem));
    std::fs::write(&cert_path, ck.cert.pem()).unwrap();
    std::fs::write(&key_path, ck.key_pair.serialize_pem()).unwrap();
    (
        cert_path.to_string_lossy().to_string(),
        key_path.to_string_lossy().to_string(),
        ck.cert.der().to_vec(),
    )
}

pub fn host_info(dir: &std::path::Path, host: &str, allowed_sni: Vec<String>) -> (TlsHostInfo, Vec<u8>) {
    let (c, k, der) = make_cert(dir, host, &allowed_sni);
    (
        TlsHostInfo {
            hostname: host.to_string(),
            cert_chain_path: c,
            private_key_path: k,
            allowed_sni,
        },
        der,
    )
}

pub struct CtxOpts {
    pub listen: String,
    pub allow_private: bool,
    pub ipv6_available: bool,
    pub clients: Vec<(String, String)>,
    pub authenticator: Option<Arc<dyn Authenticator>>,
    pub registry_authenticator: bool,
    pub h1: bool,
    pub h2: bool,
    pub quic: bool,
    pub tcp_timeout: Option<Duration>,
    pub udp_timeout: Option<Duration>,
    pub establish_timeout: Option<Duration>,
    pub client_listener_timeout: Option<Duration>,
    pub tls_handshake_timeout: Option<Duration>,
    pub main_host: String,
    pub tweak: Option<Box<dyn FnOnce(trusttunnel::settings::SettingsBuilder) -> trusttunnel::settings::SettingsBuilder>>,
}

impl Default for CtxOpts {
    fn default() -> Self {
        Self {
            listen: "127.0.0.1:0".into(),
            allow_private: false,
            ipv6_available: true,
            clients: vec![],
            authenticator: None,
            registry_authenticator: false,
            h1: true,
            h2: true,
            quic: false,
            tcp_timeout: None,
            udp_timeout: None,
            establish_timeout: None,
            client_listener_timeout: None,
            tls_handshake_timeout: None,
            main_host: "main.test".into(),
            tweak: None,
        }
    }
}

pub fn listen_protocols(h1: bool, h2: bool, quic: bool) -> ListenProtocolSettings {
    ListenProtocolSettings {
        http1: h1.then(|| Http1Settings::builder().build()),
        http2: h2.then(|| Http2Settings::builder().build()),
        quic: quic.then(|| QuicSettings::builder().build()),
    }
}

pub fn build_settings(o: &mut CtxOpts) -> Settings {
    let mut b = Settings::builder()
        .listen_address(o.listen.as_str())
        .expect("listen address")
        .allow_private_network_connections(o.allow_private)
        .ipv6_available(o.ipv6_available)
        .listen_protocols(listen_protocols(o.h1, o.h2, o.quic))
        .clients(
            o.clients
                .iter()
                .map(|(u, p)| Client {
                    username: u.clone(),
                    password: p.clone(),
                })
                .collect(),
        );
    if let Some(t) = o.tcp_timeout {
        b = b.tcp_connections_timeout(t);
    }
    if let Some(t) = o.udp_timeout {
        b = b.udp_connections_timeout(t);
    }
    if let Some(t) = o.establish_timeout {
        b = b.connection_establishment_timeout(t);
    }
    if let Some(t) = o.client_listener_timeout {
        b = b.client_listener_timeout(t);
    }
    if let Some(t) = o.tls_handshake_timeout {
        b = b.tls_handshake_timeout(t);
    }
    if let Some(f) = o.tweak.take() {
        b = f(b);
    }
    b.build().expect("settings")
}

/// Build a context with one main host (certificate generated under `dir`)
pub fn make_ctx(dir: &std::path::Path, mut o: CtxOpts) -> Ctx {
    let settings = build_settings(&mut o);
    let (main, _) = host_info(dir, &o.main_host, vec![]);
    let hosts = TlsHostsSettings::builder()
        .main_hosts(vec![main])
        .build()
        .expect("hosts");
    let authenticator: Option<Arc<dyn Authenticator>> = match o.authenticator.take() {
        Some(a) => Some(a),
        None if o.registry_authenticator => Some(Arc::new(RegistryBasedAuthenticator::new(
            &o.clients
                .iter()
                .map(|(u, p)| Client {
                    username: u.clone(),
                    password: p.clone(),
                })
                .collect::<Vec<_>>(),
        ))),
        None => None,
    };
    Ctx::new(settings, authenticator, hosts).expect("ctx")
}

pub fn rt_paused() -> tokio::runtime::Runtime {
    tokio::runtime::Builder::new_current_thread()
        .enable_all()
        .start_paused(true)
        .build()
        .unwrap()
}

pub fn rt_current() -> tokio::runtime::Runtime {
    tokio::runtime::Builder::new_current_thread()
        .enable_all()
        .build()
        .unwrap()
}

pub fn rt_multi(n: usize) -> tokio::runtime::Runtime {
    tokio::runtime::Builder::new_multi_thread()
        .worker_threads(n)
        .enable_all()
        .build()
        .unwrap()
}
