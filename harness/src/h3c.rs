//! A small HTTP/3 client over quiche for the loopback (L2) scenarios: several concurrent request streams,
//! never panics on what the server does (every irregularity is recorded, the monitors judge it).

use std::collections::HashMap;
use std::net::SocketAddr;
use std::time::{Duration, Instant};
use tokio::net::UdpSocket;

const MAX_UDP: usize = 1350;
/// longest burst of consecutive datagrams the loss injection discards
const MAX_LOSS_BURST: u64 = 100;

#[derive(Default, Debug, Clone)]
pub struct H3Stream {
    /// every HEADERS frame received on the stream: (status, headers)
    pub heads: Vec<(Option<u16>, Vec<(String, String)>)>,
    pub body: Vec<u8>,
    /// if set, body bytes are counted but not stored
    pub count_only: bool,
    pub body_len: u64,
    pub finished: bool,
    pub reset: Option<u64>,
}

impl H3Stream {
    pub fn status(&self) -> Option<u16> { self.heads.iter().rev().find_map(|h| h.0.filter(|s| *s >= 200)) }
    pub fn final_heads(&self) -> usize { self.heads.iter().filter(|h| h.0.map(|s| s >= 200).unwrap_or(true)).count() }
    pub fn header(&self, name: &str) -> Option<&str> {
        self.heads.iter().rev().find(|h| h.0.map(|s| s >= 200).unwrap_or(true)).and_then(|h| h.1.iter().find(|(n, _)| n.eq_ignore_ascii_case(name)).map(|(_, v)| v.as_str()))
    }
    pub fn summary(&self) -> String { format!("status={:?} heads={} body={}B finished={} reset={:?}", self.status(), self.heads.len(), self.body_len, self.finished, self.reset) }
}

pub struct H3 {
    socket: UdpSocket,
    local: SocketAddr,
    conn: quiche::Connection,
    h3: quiche::h3::Connection,
    pub streams: HashMap<u64, H3Stream>,
    pub goaway: Option<u64>,
    /// why the connection ended, when it did
    pub closed: Option<String>,
    pub peer_cert: Option<Vec<u8>>,
    pub alpn: Vec<u8>,
    /// loss injection: datagrams from the server are discarded unread until this instant
    pub drop_incoming_until: Option<Instant>,
    pub dropped_datagrams: u64,
    /// the ClientHello random of this connection, read off the TLS key log (NSS format) of the client
    pub client_random: Option<Vec<u8>>,
    /// QUIC datagrams the client had sent before it received the first one from the server (> 1: the ClientHello did not fit in one Initial packet)
    pub first_flight_datagrams: u32,
}

#[derive(Clone, Default)]
struct KeyLog(std::sync::Arc<std::sync::Mutex<Vec<u8>>>);
impl std::io::Write for KeyLog {
    fn write(&mut self, b: &[u8]) -> std::io::Result<usize> { self.0.lock().unwrap().extend_from_slice(b); Ok(b.len()) }
    fn flush(&mut self) -> std::io::Result<()> { Ok(()) }
}

fn config(alpn: &[&[u8]], idle_ms: u64) -> Result<quiche::Config, String> {
    let mut c = quiche::Config::new(quiche::PROTOCOL_VERSION).map_err(|e| e.to_string())?;
    c.verify_peer(false);
    c.set_max_idle_timeout(idle_ms);
    c.set_max_recv_udp_payload_size(MAX_UDP);
    c.set_max_send_udp_payload_size(MAX_UDP);
    c.set_initial_max_data(10_000_000);
    c.set_initial_max_stream_data_bidi_local(1_000_000);
    c.set_initial_max_stream_data_bidi_remote(1_000_000);
    c.set_initial_max_stream_data_uni(1_000_000);
    c.set_initial_max_streams_bidi(100);
    c.set_initial_max_streams_uni(100);
    c.set_application_protos(alpn).map_err(|e| e.to_string())?;
    c.log_keys();
    Ok(c)
}

impl H3 {
    /// QUIC + HTTP/3 handshake. `Err` = no HTTP/3 session (refused, timed out, ...), with the reason.
    pub async fn connect(peer: SocketAddr, sni: &str, alpn: &[&[u8]], timeout: Duration, idle_ms: u64) -> Result<H3, String> {
        let socket = UdpSocket::bind(if peer.is_ipv6() { "[::1]:0" } else { "127.0.0.1:0" }).await.map_err(|e| e.to_string())?;
        let local = socket.local_addr().map_err(|e| e.to_string())?;
        let mut scid = [0u8; quiche::MAX_CONN_ID_LEN];
        for (i, b) in scid.iter_mut().enumerate() { *b = (crate::common::fnv(format!("{}-{}-{:?}", local, i, Instant::now()).as_bytes()) & 0xff) as u8; }
        let mut cfg = config(alpn, idle_ms)?;
        let mut conn = quiche::connect(Some(sni), &quiche::ConnectionId::from_ref(&scid), local, peer, &mut cfg).map_err(|e| e.to_string())?;
        let keylog = KeyLog::default();
        conn.set_keylog(Box::new(keylog.clone()));
        let deadline = Instant::now() + timeout;
        let first_flight_datagrams = flush(&socket, &mut conn);
        while !conn.is_established() {
            if conn.is_closed() { return Err(format!("closed during the handshake (peer_error={:?}, local_error={:?}, timed_out={})", conn.peer_error().map(|e| e.error_code), conn.local_error().map(|e| e.error_code), conn.is_timed_out())); }
            if Instant::now() >= deadline { return Err("handshake timeout".into()); }
            let wait = conn.timeout().unwrap_or(Duration::from_millis(50)).min(Duration::from_millis(100));
            if tokio::time::timeout(wait, socket.readable()).await.is_err() { conn.on_timeout(); }
            read_out(&socket, local, &mut conn);
            flush(&socket, &mut conn);
        }
        let alpn_got = conn.application_proto().to_vec();
        let peer_cert = conn.peer_cert().map(|c| c.to_vec());
        let h3 = quiche::h3::Connection::with_transport(&mut conn, &quiche::h3::Config::new().map_err(|e| e.to_string())?).map_err(|e| format!("h3 transport: {}", e))?;
        flush(&socket, &mut conn);
        // "<LABEL> <client random, hex> <secret>" per line
        let client_random = String::from_utf8_lossy(&keylog.0.lock().unwrap()).lines().find_map(|l| l.split(' ').nth(1).and_then(|h| (0..h.len() / 2).map(|i| u8::from_str_radix(h.get(2 * i..2 * i + 2)?, 16).ok()).collect::<Option<Vec<u8>>>()).filter(|v| v.len() == 32));
        Ok(H3 { socket, local, conn, h3, streams: HashMap::new(), goaway: None, closed: None, peer_cert, alpn: alpn_got, drop_incoming_until: None, dropped_datagrams: 0, client_random, first_flight_datagrams })
    }

    /// Send a request head; `authority`/`path` as they go on the wire. Returns the stream id.
    pub fn request(&mut self, method: &str, scheme: Option<&str>, authority: &str, path: Option<&str>, headers: &[(String, Vec<u8>)], fin: bool) -> Result<u64, String> {
        let mut h = vec![quiche::h3::Header::new(b":method", method.as_bytes())];
        if let Some(s) = scheme { h.push(quiche::h3::Header::new(b":scheme", s.as_bytes())); }
        h.push(quiche::h3::Header::new(b":authority", authority.as_bytes()));
        if let Some(p) = path { h.push(quiche::h3::Header::new(b":path", p.as_bytes())); }
        for (n, v) in headers { h.push(quiche::h3::Header::new(n.as_bytes(), v)); }
        let id = self.h3.send_request(&mut self.conn, &h, fin).map_err(|e| e.to_string())?;
        self.streams.insert(id, H3Stream::default());
        flush(&self.socket, &mut self.conn);
        Ok(id)
    }

    /// Send body bytes (and/or FIN) on a stream, pumping the connection while flow control blocks.
    pub async fn send_body(&mut self, id: u64, mut data: &[u8], fin: bool, timeout: Duration) -> Result<(), String> {
        let deadline = Instant::now() + timeout;
        loop {
            match self.h3.send_body(&mut self.conn, id, data, fin) {
                Ok(n) if n == data.len() => { flush(&self.socket, &mut self.conn); return Ok(()); }
                Ok(n) => { data = &data[n..]; }
                Err(quiche::h3::Error::Done) => {}
                Err(e) => return Err(e.to_string()),
            }
            if Instant::now() >= deadline { return Err("send timeout (flow control never opened)".into()); }
            self.pump_once(Duration::from_millis(20)).await;
            if self.closed.is_some() { return Err(format!("connection closed: {:?}", self.closed)); }
        }
    }

    /// One round of: flush, wait for input (bounded), read, process events.
    pub async fn pump_once(&mut self, max_wait: Duration) {
        flush(&self.socket, &mut self.conn);
        let wait = self.conn.timeout().unwrap_or(max_wait).min(max_wait);
        if tokio::time::timeout(wait, self.socket.readable()).await.is_err() { self.conn.on_timeout(); }
        if self.drop_incoming_until.map(|t| Instant::now() < t).unwrap_or(false) && self.dropped_datagrams < MAX_LOSS_BURST {
            // (at most MAX_LOSS_BURST datagrams: quiche 0.24 (both ends here) encodes a packet number in one byte while fewer than 256
            // packets are unacknowledged, which its own receiver mis-decodes once more than 128 in a row were lost -
            // a longer burst would test the QUIC library, not the endpoint)
            let mut buf = [0u8; 65536];
            while self.dropped_datagrams < MAX_LOSS_BURST && self.socket.try_recv_from(&mut buf).is_ok() { self.dropped_datagrams += 1; }
        } else {
            read_out(&self.socket, self.local, &mut self.conn);
        }
        loop {
            match self.h3.poll(&mut self.conn) {
                Ok((id, quiche::h3::Event::Headers { list, .. })) => {
                    use quiche::h3::NameValue;
                    let mut status = None;
                    let mut hs = vec![];
                    for h in &list {
                        if h.name() == b":status" { status = std::str::from_utf8(h.value()).ok().and_then(|s| s.parse().ok()); }
                        else { hs.push((String::from_utf8_lossy(h.name()).to_string(), String::from_utf8_lossy(h.value()).to_string())); }
                    }
                    self.streams.entry(id).or_default().heads.push((status, hs));
                }
                Ok((id, quiche::h3::Event::Data)) => {
                    let mut buf = [0u8; 65536];
                    loop {
                        match self.h3.recv_body(&mut self.conn, id, &mut buf) {
                            Ok(n) => { let s = self.streams.entry(id).or_default(); s.body_len += n as u64; if !s.count_only { s.body.extend_from_slice(&buf[..n]); } }
                            Err(_) => break,
                        }
                    }
                }
                Ok((id, quiche::h3::Event::Finished)) => { self.streams.entry(id).or_default().finished = true; }
                Ok((id, quiche::h3::Event::Reset(e))) => { self.streams.entry(id).or_default().reset = Some(e); }
                Ok((id, quiche::h3::Event::GoAway)) => { self.goaway = Some(id); }
                Ok((_, quiche::h3::Event::PriorityUpdate)) => {}
                Err(quiche::h3::Error::Done) => break,
                Err(e) => { if self.closed.is_none() && self.conn.is_closed() { self.closed = Some(format!("h3 error {}", e)); } break; }
            }
        }
        flush(&self.socket, &mut self.conn);
        if self.conn.is_closed() && self.closed.is_none() {
            self.closed = Some(format!("peer_error={:?} local_error={:?} timed_out={}", self.conn.peer_error().map(|e| (e.is_app, e.error_code)), self.conn.local_error().map(|e| (e.is_app, e.error_code)), self.conn.is_timed_out()));
        }
    }

    /// Pump until `pred` holds, the connection closes, or `timeout` passes. Returns whether `pred` held.
    pub async fn run_until(&mut self, timeout: Duration, pred: impl Fn(&H3) -> bool) -> bool {
        let deadline = Instant::now() + timeout;
        loop {
            if pred(self) { return true; }
            if self.closed.is_some() || Instant::now() >= deadline { return pred(self); }
            self.pump_once(Duration::from_millis(25)).await;
        }
    }

    pub fn stream(&self, id: u64) -> H3Stream { self.streams.get(&id).cloned().unwrap_or_default() }

    pub fn set_count_only(&mut self, id: u64) { self.streams.entry(id).or_default().count_only = true; }

    /// request + wait for the final response head (and the end of the stream when `until_end`)
    pub async fn roundtrip(&mut self, method: &str, scheme: Option<&str>, authority: &str, path: Option<&str>, headers: &[(String, Vec<u8>)], fin: bool, until_end: bool, timeout: Duration) -> Result<(u64, H3Stream), String> {
        let id = self.request(method, scheme, authority, path, headers, fin)?;
        self.run_until(timeout, |c| c.streams.get(&id).map(|s| s.reset.is_some() || (s.status().is_some() && (!until_end || s.finished))).unwrap_or(false)).await;
        Ok((id, self.stream(id)))
    }

    pub async fn close(mut self) {
        let _ = self.conn.close(true, 0x100, b"done");
        flush(&self.socket, &mut self.conn);
    }
}

fn read_out(socket: &UdpSocket, local: SocketAddr, conn: &mut quiche::Connection) {
    let mut buf = [0u8; 65536];
    loop {
        match socket.try_recv_from(&mut buf) {
            Ok((n, from)) => { let _ = conn.recv(&mut buf[..n], quiche::RecvInfo { from, to: local }); }
            Err(_) => break,
        }
    }
}

fn flush(socket: &UdpSocket, conn: &mut quiche::Connection) -> u32 {
    let mut buf = [0u8; MAX_UDP];
    let mut sent = 0u32;
    loop {
        match conn.send(&mut buf) {
            Ok((n, info)) => { if socket.try_send_to(&buf[..n], info.to).is_err() { break; } sent += 1; }
            Err(_) => break,
        }
    }
    sent
}
