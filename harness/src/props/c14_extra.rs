//! C14 parts B (connection-establishment timeout, virtual time) and C (TLS handshake timeout,
//! real time with bands).

use crate::common::{self, Args, Reporter, Rng};
use crate::env;
use crate::kit::*;
use crate::l2::*;
use crate::tun::*;
use serde_json::json;
use std::sync::atomic::Ordering;
use std::sync::Arc;
use std::time::Duration;
use tokio::io::{AsyncReadExt, AsyncWriteExt};
use trusttunnel::verif::tunnel::{Fwd, MuxChoice, Policy, Proto};

fn part_b(rep: &Reporter, args: &Args) {
    let dir = env::work_dir(&args.root, "c14");
    let rt = env::rt_paused();
    let mut r = Rng::derive(args.seed, 0xc14b, 0);
    let mut id = 140_000u64;
    for t_est_ms in [3_000u64, 7_000, 30_000] {
        let ctx = Arc::new(env::make_ctx(&dir, env::CtxOpts { establish_timeout: Some(Duration::from_millis(t_est_ms)), ..Default::default() }));
        // connect delays around the limit (in 1/8 steps of T) and "never"
        let mut delays: Vec<Option<u64>> = vec![None];
        for k in [0u64, 1, 4, 7, 9, 12, 16, 40] { delays.push(Some(t_est_ms * k / 8)); }
        for _ in 0..args.qt(4, 60) { delays.push(Some(r.below(2 * t_est_ms))); }
        for d in delays {
            for proto in [Proto::H1, Proto::H2] {
                id += 1;
                let outcome = match d { None => Outcome::Never, Some(ms) => Outcome::Delayed(ms, Box::new(Outcome::Canned(vec![]))) };
                let oc = outcome.clone();
                let fwd = Arc::new(RecFwd { log: Default::default(), decide: Box::new(move |_| oc.clone()), udp: MuxChoice::Real, icmp: MuxChoice::NotConfigured, check_auth_err: None, received: Default::default(), abandoned: Default::default() });
                let req = Req::connect("slow.dest.test:443");
                let how = How::Tunnel(Fwd::Scripted(fwd.clone()), Policy::Default);
                let (resp, elapsed_ms) = rt.block_on(async {
                    let t0 = tokio::time::Instant::now();
                    // the client measures when the response head arrives
                    let resp = match proto {
                        Proto::H1 => {
                            let sess = open_session(&ctx, Proto::H1, how, "main.test", false, id);
                            let (mut rd, mut wr) = tokio::io::split(sess.client);
                            let _ = wr.write_all(&h1_encode(&req)).await;
                            let mut buf = vec![0u8; 4096];
                            let mut got = vec![];
                            let mut at = None;
                            loop {
                                match tokio::time::timeout(Duration::from_millis(5 * t_est_ms), rd.read(&mut buf)).await {
                                    Ok(Ok(n)) if n > 0 => { got.extend_from_slice(&buf[..n]); if let Ok(Some(_)) = parse_h1_head(&got) { at = Some(t0.elapsed()); break; } }
                                    _ => break,
                                }
                            }
                            let mut resp = Resp::default();
                            if let Ok(Some(h)) = parse_h1_head(&got) { resp.status = Some(h.status); resp.headers = h.headers; resp.heads = 1; }
                            (resp, at)
                        }
                        _ => {
                            let sess = open_session(&ctx, Proto::H2, how, "main.test", false, id);
                            let mut resp = Resp::default();
                            let mut at = None;
                            if let Ok((mut send, conn)) = h2_client(sess.client).await {
                                let _ = futures::future::poll_fn(|cx| send.poll_ready(cx)).await;
                                if let Ok((fut, _tx)) = send.send_request(http::Request::builder().method("CONNECT").uri("slow.dest.test:443").body(()).unwrap(), false) {
                                    if let Ok(Ok(rsp)) = tokio::time::timeout(Duration::from_millis(5 * t_est_ms), fut).await {
                                        at = Some(t0.elapsed());
                                        resp.status = Some(rsp.status().as_u16());
                                        resp.headers = rsp.headers().iter().map(|(n, v)| (n.as_str().to_string(), String::from_utf8_lossy(v.as_bytes()).to_string())).collect();
                                        resp.heads = 1;
                                    }
                                }
                                conn.abort();
                            }
                            (resp, at)
                        }
                    };
                    (resp.0, resp.1.map(|d| d.as_millis() as u64))
                });
                rep.evals(1);
                rep.distinct(common::fnv(format!("est|{}|{:?}|{:?}", t_est_ms, d, proto).as_bytes()));
                let w = json!({"kind":"establishment-timeout","T_est_ms":t_est_ms,"connect_completes_after_ms":d,"protocol":format!("{:?}", proto),"response":resp.summary(),"response_at_ms":elapsed_ms,"abandoned_connects":fwd.abandoned.load(Ordering::SeqCst)});
                let completes_in_time = matches!(d, Some(ms) if ms + 2 < t_est_ms);
                let completes_late = match d { None => true, Some(ms) => ms > t_est_ms + 2 };
                if completes_in_time {
                    if resp.status != Some(200) { rep.violation("connection attempt completing before the establishment timeout was abandoned", w); }
                    else { rep.tally("establishment: attempt within the limit accepted", 1); }
                } else if completes_late {
                    let at = elapsed_ms.unwrap_or(u64::MAX);
                    if resp.status != Some(502) || !resp.header("x-warning").map(|v| v.starts_with("302")).unwrap_or(false) {
                        rep.violation("connection attempt exceeding the establishment timeout not reported as 502/302", w);
                    } else if at + 5 < t_est_ms {
                        rep.violation("502/302 sent before the establishment timeout elapsed", w);
                    } else if at > t_est_ms + t_est_ms / 10 + 50 {
                        rep.violation("502/302 sent long after the establishment timeout", w);
                    } else if fwd.abandoned.load(Ordering::SeqCst) != 1 {
                        rep.violation("timed-out connection attempt was not released (future still alive)", w);
                    } else { rep.tally("establishment: late attempt abandoned at T with 502/302", 1); }
                } else {
                    rep.tally("establishment: attempt completing at the deadline (either)", 1);
                }
            }
        }
    }
}

fn part_c(rep: &Reporter, args: &Args) {
    let dir = env::work_dir(&args.root, "c14");
    let rt = env::rt_multi(4);
    rt.block_on(async {
        let t_hs = Duration::from_millis(1500);
        let hosts = Hosts { main: vec![("main.test".into(), vec![])], ..Default::default() };
        let ep = start_endpoint(&dir, "127.0.0.1", &hosts, None, vec![], (true, true, false), move |b| b.tls_handshake_timeout(t_hs)).await;
        let hello = crate::props::c12::rustls_hello("main.test", &[b"h2", b"http/1.1"]).bytes;
        // (name, bytes to send at once, expect closed by the endpoint)
        let stalls: Vec<(&str, Vec<u8>)> = vec![
            ("nothing sent", vec![]),
            ("5 bytes of record header", hello[..5].to_vec()),
            ("half a ClientHello", hello[..hello.len() / 2].to_vec()),
            ("complete ClientHello, then silence", hello.clone()),
            // one byte of a valid hello every 0.4 T: never completes, and no single gap reaches the timeout
            ("slow drip of a valid ClientHello", hello.clone()),
        ];
        let mut js = vec![];
        for round in 0..args.qt(1, 6) {
            for (name, bytes) in stalls.clone() {
                let addr = ep.addr;
                js.push(tokio::spawn(async move {
                    let t0 = std::time::Instant::now();
                    let Ok(mut s) = tokio::net::TcpStream::connect(addr).await else { return (name, round, None, 0usize) };
                    let mut buf = vec![0u8; 8192];
                    let mut got = 0usize;
                    if name.starts_with("slow drip") {
                        for b in bytes.iter().take(40) {
                            if s.write_all(&[*b]).await.is_err() { return (name, round, Some(t0.elapsed()), got); }
                            match tokio::time::timeout(Duration::from_millis(600), s.read(&mut buf)).await {
                                Ok(Ok(0)) | Ok(Err(_)) => return (name, round, Some(t0.elapsed()), got),
                                Ok(Ok(n)) => got += n,
                                Err(_) => {}
                            }
                            if t0.elapsed() > Duration::from_millis(2 * 1500 + 2500) { return (name, round, None, got); }
                        }
                        return (name, round, None, got);
                    }
                    let _ = s.write_all(&bytes).await;
                    loop {
                        match tokio::time::timeout(Duration::from_millis(2 * 1500 + 2500), s.read(&mut buf)).await {
                            Ok(Ok(0)) | Ok(Err(_)) => return (name, round, Some(t0.elapsed()), got),
                            Ok(Ok(n)) => got += n,
                            Err(_) => return (name, round, None, got),
                        }
                    }
                }));
            }
        }
        for j in js {
            let Ok((name, round, closed_after, got)) = j.await else { continue };
            rep.evals(1);
            rep.distinct(common::fnv(format!("hs|{}|{}", name, round).as_bytes()));
            let w = json!({"kind":"tls-handshake-timeout","stall":name,"T_hs_ms":1500,"closed_after_ms":closed_after.map(|d| d.as_millis() as u64),"server_bytes":got});
            match closed_after {
                None => rep.violation("stalled TLS handshake not dropped within 2 x handshake timeout + margin", w),
                Some(d) if d < Duration::from_millis(700) => rep.violation("stalled TLS handshake dropped long before its timeout", w),
                Some(_) => rep.tally("tls: stalled handshake dropped within [T/2, 2T + margin]", 1),
            }
        }
        // a slow but timely client: ClientHello after T/4 must still be served
        for _ in 0..args.qt(2, 10) {
            let addr = ep.addr;
            let Ok(mut s) = tokio::net::TcpStream::connect(addr).await else { continue };
            let t0 = std::time::Instant::now();
            tokio::time::sleep(Duration::from_millis(375)).await;
            let over = t0.elapsed().as_millis() as u64 - 375;
            let _ = s.write_all(&hello).await;
            let mut buf = vec![0u8; 8192];
            let n = tokio::time::timeout(Duration::from_secs(2), s.read(&mut buf)).await.ok().and_then(|x| x.ok()).unwrap_or(0);
            rep.evals(1);
            if over > 300 { rep.inconclusive("sleep overshoot in the slow-client scenario"); }
            else if n == 0 { rep.violation("ClientHello arriving at a quarter of the handshake timeout was refused", json!({"kind":"tls-handshake-timeout","T_hs_ms":1500,"sent_after_ms":375})); }
            else { rep.tally("tls: ClientHello at T/4 answered with a ServerHello", 1); }
        }
        ep.task.abort();
    });
}

/// Part D: the idle timer on the real clock. Real Core::listen over TLS on loopback with T = 1 s, HTTP/1.1 CONNECT
/// tunnels to an echo destination: a tunnel that falls silent must be closed within [T - 0.3 s, 2T + 2.5 s] of its
/// last transfer, a tunnel that echoes one byte every T/2 for 4T must stay open.
fn part_d(rep: &Reporter, args: &Args) {
    const T_MS: u64 = 1000;
    let dir = env::work_dir(&args.root, "c14d");
    let rt = env::rt_multi(4);
    rt.block_on(async {
        let hosts = Hosts { main: vec![("main.test".into(), vec![])], ..Default::default() };
        let ep = start_endpoint(&dir, "127.0.0.1", &hosts, None, vec![], (true, true, false), move |b| b.allow_private_network_connections(true).tcp_connections_timeout(Duration::from_millis(T_MS))).await;
        let echo = tokio::net::TcpListener::bind("127.0.0.1:0").await.expect("bind");
        let target = echo.local_addr().unwrap().to_string();
        tokio::spawn(async move {
            loop {
                let Ok((mut s, _)) = echo.accept().await else { continue };
                tokio::spawn(async move { let mut b = vec![0u8; 4096]; loop { match s.read(&mut b).await { Ok(0) | Err(_) => break, Ok(n) => { if s.write_all(&b[..n]).await.is_err() { break; } } } } });
            }
        });
        // (name, echoed bytes before falling silent, period of the keep-alive traffic in ms (0 = none), duration of that traffic)
        let kinds: Vec<(&str, usize, u64, u64)> = vec![("silent from the start", 0, 0, 0), ("silent after some traffic", 3, 0, 0), ("one byte echoed every T/2 for 4T, then silent", 0, T_MS / 2, 4 * T_MS)];
        let mut js = vec![];
        for round in 0..args.qt(2, 8) {
            for (name, warmup, period, active_for) in kinds.clone() {
                let (addr, target) = (ep.addr, target.clone());
                js.push(tokio::spawn(async move {
                    // returns (name, round, Err(inconclusive reason) | Ok((closed while active?, closed after ms since the last transfer | None = still open at the end)))
                    let out = tls_connect(addr, Some("main.test"), &[b"http/1.1"], Duration::from_secs(10)).await;
                    let Some(mut st) = out.stream else { return (name, round, Err("tls connect failed".to_string())) };
                    if st.write_all(format!("CONNECT {} HTTP/1.1\r\nHost: {}\r\n\r\n", target, target).as_bytes()).await.is_err() { return (name, round, Err("request not written".into())); }
                    let mut buf = vec![0u8; 4096];
                    let mut head = vec![];
                    loop {
                        match tokio::time::timeout(Duration::from_secs(10), st.read(&mut buf)).await {
                            Ok(Ok(n)) if n > 0 => { head.extend_from_slice(&buf[..n]); if head.windows(4).any(|w| w == b"\r\n\r\n") { break; } }
                            _ => return (name, round, Err("no response head".into())),
                        }
                    }
                    if !head.starts_with(b"HTTP/1.1 200") { return (name, round, Err("CONNECT not answered 200".into())); }
                    let mut last = std::time::Instant::now();
                    let mut max_gap = 0u64;
                    let echo_once = |b: u8| b;
                    for k in 0..warmup {
                        if st.write_all(&[echo_once(k as u8)]).await.is_err() { return (name, round, Ok((true, Some(0)))); }
                        match tokio::time::timeout(Duration::from_secs(2), st.read(&mut buf)).await { Ok(Ok(n)) if n > 0 => {} _ => return (name, round, Ok((true, Some(0)))) }
                        last = std::time::Instant::now();
                        tokio::time::sleep(Duration::from_millis(50)).await;
                    }
                    if period > 0 {
                        let until = std::time::Instant::now() + Duration::from_millis(active_for);
                        while std::time::Instant::now() < until {
                            tokio::time::sleep(Duration::from_millis(period)).await;
                            let gap = last.elapsed().as_millis() as u64;
                            max_gap = max_gap.max(gap);
                            if st.write_all(&[7]).await.is_err() { return (name, round, if max_gap > T_MS - 150 { Err(format!("keep-alive gap of {} ms (scheduler lag)", max_gap)) } else { Ok((true, Some(gap))) }); }
                            match tokio::time::timeout(Duration::from_secs(2), st.read(&mut buf)).await {
                                Ok(Ok(n)) if n > 0 => {}
                                _ => return (name, round, if max_gap > T_MS - 150 { Err(format!("keep-alive gap of {} ms (scheduler lag)", max_gap)) } else { Ok((true, Some(gap))) }),
                            }
                            last = std::time::Instant::now();
                        }
                    }
                    // silence: the endpoint has to close
                    match tokio::time::timeout(Duration::from_millis(2 * T_MS + 2500), async { loop { match st.read(&mut buf).await { Ok(0) | Err(_) => break, Ok(_) => {} } } }).await {
                        Ok(()) => (name, round, Ok((false, Some(last.elapsed().as_millis() as u64)))),
                        Err(_) => (name, round, Ok((false, None))),
                    }
                }));
            }
        }
        for j in js {
            let Ok((name, round, r)) = j.await else { continue };
            rep.evals(1);
            rep.distinct(common::fnv(format!("idle-real|{}|{}", name, round).as_bytes()));
            match r {
                Err(why) => rep.inconclusive(&format!("real-time idle timer: {}", why.chars().take(60).collect::<String>())),
                Ok((while_active, after)) => {
                    let w = json!({"kind":"idle-timer-real-clock","pattern":name,"T_ms":T_MS,"closed_ms_after_last_transfer":after,"closed_while_traffic_was_flowing":while_active});
                    if while_active { rep.violation("real clock: tunnel transferring data every T/2 was closed", w); }
                    else {
                        match after {
                            None => rep.violation("real clock: idle tunnel not closed within 2T (+ 2.5 s margin) after its last transfer", w),
                            Some(ms) if ms + 300 < T_MS => rep.violation("real clock: tunnel closed less than T after its last transfer", w),
                            Some(_) => rep.tally(&format!("real clock: '{}' closed within [T, 2T + margin] of the last transfer", name), 1),
                        }
                    }
                }
            }
        }
        ep.task.abort();
    });
}

pub fn run_parts(rep: &Reporter, args: &Args) {
    part_b(rep, args);
    part_c(rep, args);
    part_d(rep, args);
    rep.set("parts", json!({"D_idle_timer_real_clock": "exercised (real Core::listen over TLS on loopback, T = 1 s: silent tunnels closed within [T - 0.3 s, 2T + 2.5 s] of the last transfer, tunnels echoing a byte every T/2 stay open)", "A_idle_timer": "exercised (virtual time)", "B_establishment_timeout": "exercised (virtual time, scripted connector with chosen completion time, H1 + H2)", "C_tls_handshake_timeout": "exercised (real time on loopback, T_hs = 1.5 s, bands [T/2, 2T + 2.5 s])"}));
}
