//! C14 parts B (establishment timeout) and C (TLS handshake timeout). Filled in once the
//! tunnel door exists; until then the parts are reported as not exercised.

use crate::common::{Args, Reporter};
use serde_json::json;

pub fn run_parts(rep: &Reporter, _args: &Args) {
    rep.set("parts", json!({"A_idle_timer": "exercised", "B_establishment_timeout": "not exercised yet", "C_tls_handshake_timeout": "not exercised yet"}));
}
