//! C04 — connection filtering rules: first match wins, fail closed, enforced early.
//!
//! L0: the public rules engine (and rules files through `toml::from_str::<Settings>`) against a
//! reference evaluator written from CONFIGURATION.md. L2 (see l2 part): the real Core::listen on
//! 127.0.0.1 and dual-stack [::] with deny/allow rules; a denied peer must not receive a byte.

use crate::common::report::Local;
use crate::common::{self, Args, Reporter, Rng};
use serde_json::{json, Value};
use std::collections::BTreeMap;
use std::net::IpAddr;
use std::sync::Arc;
use trusttunnel::rules::{Rule, RuleAction, RuleEvaluation, RulesConfig, RulesEngine};

pub const CIDRS: &[Option<&str>] = &[
    None, Some("10.0.0.0/8"), Some("10.1.0.0/16"), Some("0.0.0.0/0"), Some("::/0"), Some("2001:db8::/32"), Some("::ffff:10.0.0.0/104"),
    Some("10.0.0.1"), Some("10.0.0.0/33"), Some("junk"), Some(""), Some("10.0.0.1/32"), Some("192.168.0.0/16"),
];
pub const PATTERNS: &[Option<&str>] = &[
    None, Some("aa"), Some("aabb"), Some("AABB"), Some("a"), Some("zz"), Some(""), Some("aa/ff"), Some("aabb/f0f0"), Some("a0b0/f0f0"), Some("aabb/"),
    Some("/ff"), Some("aa/zz"), Some("aaaaaaaaaaaaaaaaaaaaaaaaaaaaaaaaaaaaaaaaaaaaaaaaaaaaaaaaaaaaaaaa"), Some("aaaaaaaaaaaaaaaaaaaaaaaaaaaaaaaaaaaaaaaaaaaaaaaaaaaaaaaaaaaaaaaaaa"),
    Some("80/80"), Some("00/80"), Some("a5b5/ffff"), Some("aabb/ff"), Some("aa/ffff"),
];
pub const ADDRS: &[&str] = &["10.0.0.1", "10.1.2.3", "192.168.1.1", "::ffff:10.0.0.1", "2001:db8::1", "::1", "11.0.0.0", "9.255.255.255"];

fn randoms() -> Vec<Option<Vec<u8>>> {
    vec![None, Some(vec![0xaa; 32]), Some({ let mut v = vec![0xa5, 0xb5]; v.extend(vec![0x11; 30]); v }), Some(vec![0; 32]), Some(vec![0xaa, 0xbb, 0xcc]), Some(vec![0xaa]), Some(vec![])]
}

#[derive(Clone, Copy, PartialEq, Eq, Debug)]
enum Tri { Yes, No, Either }

fn hex_decode(s: &str) -> Option<Vec<u8>> {
    if s.len() % 2 != 0 { return None; }
    (0..s.len() / 2).map(|i| u8::from_str_radix(s.get(2 * i..2 * i + 2)?, 16).ok()).collect()
}

fn parse_cidr(s: &str) -> Option<(IpAddr, u8)> {
    let (a, n) = s.split_once('/')?;
    let ip: IpAddr = a.parse().ok()?;
    let n: u8 = n.parse().ok()?;
    match ip { IpAddr::V4(_) if n <= 32 => Some((ip, n)), IpAddr::V6(_) if n <= 128 => Some((ip, n)), _ => None }
}

fn cidr_contains(net: IpAddr, len: u8, ip: &IpAddr) -> Tri {
    match (net, ip) {
        (IpAddr::V4(n), IpAddr::V4(i)) => { let m = if len == 0 { 0 } else { u32::MAX << (32 - len) }; if u32::from(n) & m == u32::from(*i) & m { Tri::Yes } else { Tri::No } }
        (IpAddr::V6(n), IpAddr::V6(i)) => { let m = if len == 0 { 0 } else { u128::MAX << (128 - len) }; if u128::from(n) & m == u128::from(*i) & m { Tri::Yes } else { Tri::No } }
        // an IPv4-mapped address against an IPv4 block (or the reverse): canonicalisation may happen at the caller
        (IpAddr::V4(n), IpAddr::V6(i)) => match i.to_ipv4_mapped() { Some(v4) if cidr_contains(IpAddr::V4(n), len, &IpAddr::V4(v4)) == Tri::Yes => Tri::Either, _ => Tri::No },
        (IpAddr::V6(_), IpAddr::V4(_)) => Tri::No,
    }
}

fn ref_rule(rule: &(Option<&str>, Option<&str>), ip: &IpAddr, random: Option<&[u8]>) -> Tri {
    let mut t = Tri::Yes;
    if let Some(c) = rule.0 {
        match parse_cidr(c) {
            None => return Tri::No,
            Some((n, l)) => match cidr_contains(n, l, ip) { Tri::No => return Tri::No, Tri::Either => t = Tri::Either, Tri::Yes => {} },
        }
    }
    if let Some(p) = rule.1 {
        let Some(r) = random else { return Tri::No };
        match p.split_once('/') {
            None => match hex_decode(p) {
                None => return Tri::No,
                Some(b) if b.is_empty() => t = Tri::Either,
                Some(b) => if !r.starts_with(&b) { return Tri::No },
            },
            Some((pp, mm)) => match (hex_decode(pp), hex_decode(mm)) {
                (Some(pb), Some(mb)) => {
                    if pb.len() != mb.len() || pb.is_empty() || r.len() < pb.len() {
                        // the documented formula is undefined for unequal lengths / short randoms
                        let n = pb.len().min(mb.len()).min(r.len());
                        if n > 0 && (0..n).any(|i| (r[i] & mb[i]) != (pb[i] & mb[i])) { return Tri::No; }
                        t = Tri::Either;
                    } else if (0..pb.len()).any(|i| (r[i] & mb[i]) != (pb[i] & mb[i])) { return Tri::No; }
                }
                _ => return Tri::No,
            },
        }
    }
    t
}

/// set of verdicts the reference allows: (allow possible, deny possible)
fn ref_engine(rules: &[(Option<&str>, Option<&str>, bool)], ip: &IpAddr, random: Option<&[u8]>) -> (bool, bool) {
    if random.is_none() && rules.iter().any(|r| r.1.is_some()) {
        return (false, true);
    }
    let (mut allow, mut deny) = (false, false);
    for r in rules {
        match ref_rule(&(r.0, r.1), ip, random) {
            Tri::Yes => { if r.2 { allow = true } else { deny = true }; return (allow, deny); }
            Tri::Either => { if r.2 { allow = true } else { deny = true } }
            Tri::No => {}
        }
    }
    allow = true; // no rule matched: allow
    (allow, deny)
}

fn mk_engine(rules: &[(Option<&str>, Option<&str>, bool)]) -> RulesEngine {
    RulesEngine::from_config(RulesConfig {
        rule: rules.iter().map(|r| Rule { cidr: r.0.map(String::from), client_random_prefix: r.1.map(String::from), action: if r.2 { RuleAction::Allow } else { RuleAction::Deny } }).collect(),
    })
}

fn classify(rules: &[(Option<&str>, Option<&str>, bool)], ip: &str, random: &Option<Vec<u8>>, got_allow: bool) -> String {
    let has_pat = rules.iter().any(|r| r.1.is_some());
    if random.is_none() && has_pat { return format!("client random unavailable but a rule needs it: connection {}", if got_allow { "allowed (must fail closed)" } else { "denied" }); }
    let r0 = &rules[0];
    let kind = |r: &(Option<&str>, Option<&str>, bool)| format!("{}{}", match r.0 { None => "no-cidr", Some(c) if parse_cidr(c).is_none() => "malformed-cidr", Some(c) if c.contains(':') => "v6-cidr", _ => "v4-cidr" },
        match r.1 { None => "", Some(p) if p.contains('/') => "+mask-pattern", Some(_) => "+prefix-pattern" });
    format!("engine verdict {} differs from the reference (first rule {}, {} rule(s), {} address)", if got_allow { "allow" } else { "deny" }, kind(r0), rules.len(), if ip.contains(':') { "IPv6" } else { "IPv4" })
}

fn engine_part(rep: &Arc<Reporter>, args: &Args) {
    let n = common::workers();
    let thorough = args.thorough();
    let seed = args.seed;
    let results = common::parallel(n, move |shard, nshards| {
        let mut local = Local::default();
        let mut bad: BTreeMap<String, Value> = BTreeMap::new();
        let mut variants: Vec<(Option<&str>, Option<&str>, bool)> = vec![];
        for c in CIDRS { for p in PATTERNS { for a in [true, false] { variants.push((*c, *p, a)); } } }
        let addrs: Vec<IpAddr> = ADDRS.iter().map(|a| a.parse().unwrap()).collect();
        let rnds = randoms();
        let mut samples: Vec<Value> = vec![];
        let mut check = |rules: &[(Option<&str>, Option<&str>, bool)], local: &mut Local, bad: &mut BTreeMap<String, Value>| {
            let engine = mk_engine(rules);
            for (ai, ip) in addrs.iter().enumerate() {
                for rnd in &rnds {
                    local.evals += 1;
                    let got = match common::catch(|| engine.evaluate(ip, rnd.as_deref())) {
                        Ok(g) => g == RuleEvaluation::Allow,
                        Err(p) => { bad.entry(format!("rules engine panicked: {}", common::panic_file(&p))).or_insert(json!({"rules":format!("{:?}", rules),"panic":p})); continue; }
                    };
                    let (may_allow, may_deny) = ref_engine(rules, ip, rnd.as_deref());
                    if (got && !may_allow) || (!got && !may_deny) {
                        bad.entry(classify(rules, ADDRS[ai], rnd, got)).or_insert_with(|| json!({"kind":"rules-engine","rules":rules.iter().map(|r| json!({"cidr":r.0,"client_random_prefix":r.1,"action":if r.2 {"allow"} else {"deny"}})).collect::<Vec<_>>(),
                            "address":ADDRS[ai],"client_random":rnd.as_ref().map(|r| common::hex(r)),"engine":if got {"allow"} else {"deny"},"reference_allows":{"allow":may_allow,"deny":may_deny}}));
                    } else if may_allow && may_deny {
                        local.tally("engine: verdict in an EITHER zone", 1);
                    } else if rules.len() == 2 && local.evals % 500_003 == 7 && samples.len() < 2 {
                        samples.push(json!({"rules":rules.iter().map(|r| json!({"cidr":r.0,"client_random_prefix":r.1,"action":if r.2 {"allow"} else {"deny"}})).collect::<Vec<_>>(),
                            "address":ADDRS[ai],"client_random":rnd.as_ref().map(|r| common::hex(r)),"verdict":if got {"allow"} else {"deny"}}));
                    }
                }
            }
        };
        // all single rules and all ordered pairs
        let nv = variants.len();
        let mut job = 0usize;
        for i in 0..nv {
            job += 1;
            if job % nshards == shard { check(&[variants[i]], &mut local, &mut bad); local.distinct_by_construction += 1; }
        }
        for i in 0..nv { for j in 0..nv {
            job += 1;
            if job % nshards != shard { continue; }
            check(&[variants[i], variants[j]], &mut local, &mut bad);
            local.distinct_by_construction += 1;
        } }
        // seeded longer lists
        let mut r = Rng::derive(seed, 0xc04, shard as u64);
        for _ in 0..(if thorough { 400_000 } else { 8_000 }) {
            let len = r.range(3, 5) as usize;
            let rules: Vec<_> = (0..len).map(|_| variants[r.below(nv as u64) as usize]).collect();
            check(&rules, &mut local, &mut bad);
            local.distinct.push(common::fnv(format!("{:?}", rules).as_bytes()));
        }
        (local, bad, samples)
    });
    for (l, b, ss) in results { for (s, d) in b { rep.violation(&s, d); } for s in ss { rep.sample(s); } l.merge_into(rep); }
}

/// rules files as the endpoint reads them
fn file_part(rep: &Arc<Reporter>, args: &Args) {
    let dir = crate::env::work_dir(&args.root, "c04");
    let settings_for = |rules_path: Option<&str>| -> Result<trusttunnel::settings::Settings, String> {
        let mut s = String::from("listen_address = \"127.0.0.1:1443\"\n");
        if let Some(p) = rules_path { s.push_str(&format!("rules_file = \"{}\"\n", p)); }
        s.push_str("[listen_protocols]\n[listen_protocols.http1]\n");
        toml::from_str::<trusttunnel::settings::Settings>(&s).map_err(|e| e.to_string())
    };
    let ip: IpAddr = "10.0.0.1".parse().unwrap();
    let ip2: IpAddr = "192.168.1.1".parse().unwrap();
    let rnd = vec![0xaa; 32];
    // (name, file content or None for absent, expected verdicts for (ip, ip2) with random aa..: Some(true)=allow)
    let cases: Vec<(&str, Option<&str>, (Option<bool>, Option<bool>))> = vec![
        ("no rules_file key", None, (Some(true), Some(true))),
        ("deny 10/8 then allow", Some("[[rule]]\ncidr = \"10.0.0.0/8\"\naction = \"deny\"\n[[rule]]\naction = \"allow\"\n"), (Some(false), Some(true))),
        ("order matters: allow all first", Some("[[rule]]\naction = \"allow\"\n[[rule]]\ncidr = \"10.0.0.0/8\"\naction = \"deny\"\n"), (Some(true), Some(true))),
        ("catch-all deny", Some("[[rule]]\naction = \"deny\"\n"), (Some(false), Some(false))),
        ("unknown action dropped", Some("[[rule]]\ncidr = \"10.0.0.0/8\"\naction = \"reject\"\n[[rule]]\ncidr = \"192.168.0.0/16\"\naction = \"deny\"\n"), (Some(true), Some(false))),
        ("upper-case action", Some("[[rule]]\ncidr = \"10.0.0.0/8\"\naction = \"DENY\"\n"), (None, Some(true))),
        ("missing action dropped", Some("[[rule]]\ncidr = \"10.0.0.0/8\"\n"), (Some(true), Some(true))),
        ("client random prefix deny", Some("[[rule]]\nclient_random_prefix = \"aaaa\"\naction = \"deny\"\n"), (Some(false), Some(false))),
        ("client random mask no match", Some("[[rule]]\nclient_random_prefix = \"0000/ff00\"\naction = \"deny\"\n"), (Some(true), Some(true))),
        ("empty file", Some(""), (Some(true), Some(true))),
        ("not TOML", Some("[[rule\ncidr = "), (Some(true), Some(true))),
        ("rule table instead of array", Some("[rule]\ncidr = \"10.0.0.0/8\"\naction = \"deny\"\n"), (None, Some(true))),
        ("non-string cidr", Some("[[rule]]\ncidr = 10\naction = \"deny\"\n"), (None, None)),
    ];
    for (name, content, (w1, w2)) in cases {
        rep.evals(1);
        rep.distinct(common::fnv(format!("file|{}", name).as_bytes()));
        let path = dir.join(format!("rules-{}.toml", common::fnv(name.as_bytes())));
        let settings = match content {
            None => settings_for(None),
            Some(c) => { std::fs::write(&path, c).unwrap(); settings_for(Some(&path.to_string_lossy())) }
        };
        let settings = match settings { Ok(s) => s, Err(e) => { rep.violation(&format!("settings with rules file '{}' refused", name), json!({"error":e})); continue; } };
        let engine = settings.get_rules_engine();
        let verdict = |ip: &IpAddr| -> bool { match engine { None => true, Some(e) => e.evaluate(ip, Some(&rnd)) == RuleEvaluation::Allow } };
        for (ip, want, label) in [(&ip, w1, "10.0.0.1"), (&ip2, w2, "192.168.1.1")] {
            if let Some(w) = want {
                if verdict(ip) != w { rep.violation(&format!("rules file '{}': {} {} instead of {}", name, label, if verdict(ip) {"allowed"} else {"denied"}, if w {"allowed"} else {"denied"}), json!({"kind":"rules-file","file":content,"address":label})); }
                else { rep.tally("rules file read with the documented meaning", 1); }
            }
        }
    }
    // the loader keeps the meaning of every rule: rule lists drawn from the same variants as the
    // engine part (malformed CIDRs and patterns included) are written to a rules file, read back
    // through `Settings`, and judged by the reference evaluator over all addresses x randoms
    {
        let mut variants: Vec<(Option<&str>, Option<&str>, bool)> = vec![];
        for c in CIDRS { for p in PATTERNS { for a in [true, false] { variants.push((*c, *p, a)); } } }
        let addrs: Vec<IpAddr> = ADDRS.iter().map(|a| a.parse().unwrap()).collect();
        let rnds = randoms();
        let mut r = Rng::derive(args.seed, 0xc04f, 0);
        let mut lists: Vec<Vec<(Option<&str>, Option<&str>, bool)>> = variants.iter().map(|v| vec![*v]).collect();
        // a malformed-CIDR rule in front of a catch-all of the opposite action, for every malformed form
        for c in CIDRS.iter().filter(|c| c.map(|c| parse_cidr(c).is_none()).unwrap_or(false)) {
            for a in [true, false] { lists.push(vec![(*c, None, a), (None, None, !a)]); lists.push(vec![(*c, Some("aa"), a), (None, None, !a)]); }
        }
        for _ in 0..(if args.thorough() { 6000 } else { 600 }) {
            let len = r.range(2, 5) as usize;
            lists.push((0..len).map(|_| variants[r.below(variants.len() as u64) as usize]).collect());
        }
        let path = dir.join("rules-generated.toml");
        let mut bad: BTreeMap<String, Value> = BTreeMap::new();
        let mut judged = 0u64;
        for rules in &lists {
            let mut text = String::new();
            for (c, p, a) in rules {
                text.push_str("[[rule]]\n");
                if let Some(c) = c { text.push_str(&format!("cidr = \"{}\"\n", c)); }
                if let Some(p) = p { text.push_str(&format!("client_random_prefix = \"{}\"\n", p)); }
                text.push_str(&format!("action = \"{}\"\n", if *a { "allow" } else { "deny" }));
            }
            std::fs::write(&path, &text).unwrap();
            rep.evals(1);
            rep.distinct(common::fnv(text.as_bytes()));
            let settings = match common::catch(|| settings_for(Some(&path.to_string_lossy()))) {
                Ok(Ok(s)) => s,
                Ok(Err(e)) => { bad.entry("settings with a generated rules file refused".into()).or_insert(json!({"file":text,"error":e})); continue; }
                Err(p) => { bad.entry(format!("rules file loader panicked: {}", common::panic_file(&p))).or_insert(json!({"file":text,"panic":p})); continue; }
            };
            let engine = settings.get_rules_engine();
            for (ai, ip) in addrs.iter().enumerate() {
                for rnd in &rnds {
                    let got = match engine { None => true, Some(e) => e.evaluate(ip, rnd.as_deref()) == RuleEvaluation::Allow };
                    let (may_allow, may_deny) = ref_engine(rules, ip, rnd.as_deref());
                    judged += 1;
                    if (got && !may_allow) || (!got && !may_deny) {
                        bad.entry(format!("rules file: {}", classify(rules, ADDRS[ai], rnd, got))).or_insert_with(|| json!({"kind":"rules-file","file":text,"address":ADDRS[ai],"client_random":rnd.as_ref().map(|r| common::hex(r)),
                            "engine":if got {"allow"} else {"deny"},"reference_allows":{"allow":may_allow,"deny":may_deny}}));
                    }
                }
            }
        }
        rep.tally("rules file: verdicts of generated rule lists judged against the reference", judged);
        for (s, d) in bad { rep.violation(&s, d); }
    }
    // a rules_file path that does not exist: documented as allow-all
    match settings_for(Some("/nonexistent/rules.toml")) {
        Ok(s) => { let ok = s.get_rules_engine().as_ref().map(|e| e.evaluate(&ip, None) == RuleEvaluation::Allow).unwrap_or(true); if !ok { rep.violation("missing rules file does not default to allow-all", json!({})); } else { rep.tally("missing rules file -> allow all", 1); } }
        Err(e) => rep.violation("settings with a missing rules file refused", json!({"error":e})),
    }
    rep.evals(1);
}

pub fn run(args: &Args) -> i32 {
    let rep = Arc::new(Reporter::new(
        args,
        "exploration",
        "L0: every single rule and every ordered pair over 13 cidr spellings x 20 client-random patterns x 2 actions (incl. malformed fields), plus seeded lists \
         of 3-5 rules, each evaluated for 8 addresses (IPv4, IPv6, IPv4-mapped, block edges) x 7 client randoms (absent, full, short, empty) against a \
         reference evaluator from CONFIGURATION.md with explicit EITHER zones; rules files through toml::from_str::<Settings>. L2: see coverage.l2. \
         distinct_nontrivial = distinct rule lists (enumeration never repeats one).",
    ));
    rep.assume("EITHER: masks/prefixes of unequal or zero length, randoms shorter than the pattern, empty prefix, IPv4-mapped address vs IPv4 block at engine level, non-string TOML fields");
    engine_part(&rep, args);
    file_part(&rep, args);
    crate::props::c04_l2::run_l2(&rep, args);
    crate::props::h3_l2::c04_h3(&rep, args);
    rep.finish()
}
