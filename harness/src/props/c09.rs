//! C09 — no untrusted input can panic, wedge or unboundedly grow the endpoint.
//!
//! One sweep over every parser of untrusted bytes reachable through the door, run twice: in the
//! release-equivalent profile and in the `checked` profile (overflow checks + debug assertions on;
//! a separate binary spawned by this one). Thorough adds Miri and AddressSanitizer runs.

use crate::common::report::Local;
use crate::common::{self, Args, Reporter, Rng};
use crate::env;
use bytes::Bytes;
use serde_json::{json, Value};
use std::collections::BTreeMap;
use std::sync::Arc;
use std::time::Duration;
use trusttunnel::verif::misc::{extract_client_random, h1_decode_request, h1_decode_response, socks5_connect, H1Decode, S5Auth, S5Request};
use trusttunnel::verif::pure::{self, IcmpDecoder, UdpDecoder};

pub struct Acc {
    pub local: Local,
    pub bad: BTreeMap<String, Value>,
    slot: Option<Arc<crate::common::wedge::Slot>>,
}

impl Acc {
    fn new() -> Self { Self { local: Local::default(), bad: BTreeMap::new(), slot: None } }

    /// run one input through one parser, catching panics
    #[inline]
    fn case<T>(&mut self, parser: &'static str, input: &[u8], f: impl FnOnce() -> T) -> Option<T> {
        self.local.evals += 1;
        if let Some(s) = &self.slot {
            s.set(self.local.evals, common::fnv(input), input.len() as u64, 0);
        }
        match common::catch(f) {
            Ok(x) => Some(x),
            Err(p) => {
                self.bad.entry(format!("panic in {}: {}", parser, common::panic_file(&p))).or_insert_with(|| json!({"kind":"parser-panic","parser":parser,"input_hex":if input.len() <= 300 { common::hex(input) } else { format!("{}..({} bytes)", common::hex(&input[..150]), input.len()) },"panic":p}));
                None
            }
        }
    }
}

fn ip_headers(a: &mut Acc, r: &mut Rng, n_random: u64) {
    // IPv4: every version/IHL byte x lengths x protocol
    for vi in 0..=255u8 {
        for len in [0usize, 1, 19, 20, 21, 24, 28, 40, 59, 60, 61, 64] {
            for proto in [1u8, 6, 58] {
                let mut p = vec![0u8; len];
                if len > 0 { p[0] = vi; }
                if len > 9 { p[9] = proto; }
                let total = len;
                if let Some(Some((_, rest))) = a.case("skip_ipv4_header", &p.clone(), || pure::skip_ipv4_header(Bytes::from(p))) {
                    if rest.len() > total { a.bad.entry("skip_ipv4_header returned more bytes than it was given".into()).or_insert(json!({})); }
                }
                a.local.distinct_by_construction += 1;
            }
        }
    }
    // IPv6: chains of extension headers with every interesting length byte, truncated at every length
    let nh = [0u8, 43, 60, 44, 58, 59, 17, 255];
    let el = [0u8, 1, 2, 5, 31, 255];
    for n0 in nh { for e0 in el { for n1 in nh { for e1 in el { for n2 in [58u8, 0, 44] {
        let mut p = vec![0x60u8, 0, 0, 0, 0, 0, n0, 64];
        p.extend_from_slice(&[0; 32]);
        p.extend_from_slice(&[n1, e0, 0, 0, 0, 0, 0, 0]);
        p.extend_from_slice(&vec![0u8; (e0 as usize).min(3) * 8]);
        p.extend_from_slice(&[n2, e1, 0, 0, 0, 0, 0, 0]);
        p.extend_from_slice(&[128, 0, 0, 0, 0, 1, 0, 2]);
        for cut in [40usize, 41, 42, 47, 48, 49, 56, p.len().saturating_sub(1), p.len()] {
            let q = p[..cut.min(p.len())].to_vec();
            let total = q.len();
            if let Some(Some((_, rest))) = a.case("skip_ipv6_header", &q.clone(), || pure::skip_ipv6_header(Bytes::from(q))) {
                if rest.len() > total { a.bad.entry("skip_ipv6_header returned more bytes than it was given".into()).or_insert(json!({})); }
            }
        }
        a.local.distinct_by_construction += 1;
    } } } } }
    for _ in 0..n_random {
        let n = r.below(90) as usize;
        let mut p = r.bytes(n);
        if n > 6 && r.chance(1, 2) { p[0] = 0x60; p[6] = *r.pick(&nh); }
        let q = p.clone();
        a.case("skip_ipv6_header", &p, || pure::skip_ipv6_header(Bytes::from(q)));
        let q = p.clone();
        a.case("skip_ipv4_header", &p, || pure::skip_ipv4_header(Bytes::from(q)));
    }
}

fn icmp_messages(a: &mut Acc, r: &mut Rng, n_random: u64) {
    let peer4: std::net::IpAddr = "192.0.2.1".parse().unwrap();
    let peer6: std::net::IpAddr = "2001:db8::1".parse().unwrap();
    for t in 0..=255u8 {
        for code in [0u8, 1, 5, 6, 7, 255] {
            for len in [0usize, 1, 2, 4, 7, 8, 9, 20, 27, 28, 35, 36, 47, 48, 49, 80] {
                let mut p = vec![0u8; len];
                if len > 0 { p[0] = t; }
                if len > 1 { p[1] = code; }
                // make the body look like a quoted IPv4 / IPv6 packet with hostile length fields
                if len > 8 { p[8] = *r.pick(&[0x45u8, 0x4f, 0x40, 0x60, 0x00]); }
                if len > 14 { p[14] = *r.pick(&[0u8, 43, 44, 58, 60]); }
                if len > 17 { p[17] = 1; }
                for v6 in [false, true] {
                    let q = p.clone();
                    a.case("icmp deserialize + reply encoding", &p, || pure::icmp_encode_reply(v6, if v6 { peer6 } else { peer4 }, Bytes::from(q)));
                    let q = p.clone();
                    a.case("icmp deserialize", &p, || pure::icmp_deserialize(v6, Bytes::from(q)));
                }
                a.local.distinct_by_construction += 1;
            }
        }
    }
    // errors quoting a packet whose IP header (IPv4 options / IPv6 extension headers) leaves only 0..12 bytes of
    // the quoted ICMP message: every header length x every tail length x first tail byte (echo request or not)
    for t in [3u8, 4, 5, 11, 12, 1, 2] {
        for code in [0u8, 1, 4] {
            for ihl in 5usize..=15 {
                for tail in 0usize..=12 {
                    for first in [8u8, 0, 128, 13] {
                        for proto in [1u8, 58, 6] {
                            let mut p = vec![t, code, 0, 0, 0, 0, 0, 0];
                            let mut ip = vec![0u8; ihl * 4];
                            ip[0] = 0x40 | ihl as u8;
                            ip[3] = (ihl * 4 + tail) as u8;
                            ip[8] = 64;
                            ip[9] = proto;
                            ip[12..16].copy_from_slice(&[192, 0, 2, 7]);
                            ip[16..20].copy_from_slice(&[192, 0, 2, 1]);
                            p.extend_from_slice(&ip);
                            let mut tl = r.bytes(tail);
                            if tail > 0 { tl[0] = first; }
                            p.extend_from_slice(&tl);
                            let q = p.clone();
                            a.case("icmp deserialize (quote behind IPv4 options)", &p, || pure::icmp_deserialize(false, Bytes::from(q)));
                            let q = p.clone();
                            a.case("icmp deserialize + reply encoding", &p, || pure::icmp_encode_reply(false, peer4, Bytes::from(q)));
                            a.local.distinct_by_construction += 1;
                        }
                    }
                }
            }
        }
    }
    for t in [1u8, 2, 3, 4] {
        for n0 in [58u8, 0, 43, 60, 44, 59] {
            for e0 in [0u8, 1, 2, 255] {
                for tail in 0usize..=12 {
                    for first in [128u8, 129, 0, 8] {
                        let mut p = vec![t, 0, 0, 0, 0, 0, 0, 0];
                        let mut ip = vec![0u8; 40];
                        ip[0] = 0x60;
                        ip[6] = n0;
                        ip[7] = 64;
                        ip[23] = 1;
                        ip[39] = 2;
                        p.extend_from_slice(&ip);
                        if n0 != 58 && n0 != 59 {
                            // one extension header that claims e0 * 8 + 8 bytes but may be cut short by the tail
                            p.extend_from_slice(&[58, e0, 0, 0, 0, 0, 0, 0]);
                            if e0 == 1 { p.extend_from_slice(&[0; 8]); }
                        }
                        let mut tl = r.bytes(tail);
                        if tail > 0 { tl[0] = first; }
                        p.extend_from_slice(&tl);
                        let q = p.clone();
                        a.case("icmp deserialize (quote behind IPv6 extension headers)", &p, || pure::icmp_deserialize(true, Bytes::from(q)));
                        let q = p.clone();
                        a.case("icmp deserialize + reply encoding", &p, || pure::icmp_encode_reply(true, peer6, Bytes::from(q)));
                        a.local.distinct_by_construction += 1;
                    }
                }
            }
        }
    }
    for _ in 0..n_random {
        let n = r.below(120) as usize;
        let mut p = r.bytes(n);
        if n > 0 { p[0] = *r.pick(&[0u8, 3, 4, 5, 8, 11, 12, 13, 15, 1, 2, 128, 129]); }
        if n > 49 && r.chance(1, 2) { p[8] = 0x60; p[14] = *r.pick(&[0u8, 43, 44, 58, 60]); p[49] = r.next() as u8; }
        for v6 in [false, true] {
            let q = p.clone();
            a.case("icmp deserialize + reply encoding", &p, || pure::icmp_encode_reply(v6, peer4, Bytes::from(q)));
        }
    }
}

fn stream_decoders(a: &mut Acc, r: &mut Rng, n: u64) {
    for _ in 0..n {
        let len = r.below(260) as usize;
        let mut s = r.bytes(len);
        // bias length fields towards small values so that records complete
        if len > 4 && r.chance(2, 3) { s[0] = 0; s[1] = 0; s[2] = 0; s[3] = *r.pick(&[0u8, 1, 36, 37, 38, 40, 60, 255]); }
        let k = r.below(5) as usize;
        let mut cuts: Vec<usize> = (0..k).map(|_| r.below(len as u64 + 1) as usize).collect();
        cuts.sort();
        let input = s.clone();
        a.case("UDP multiplexer stream decoder", &input, || {
            let mut d = UdpDecoder::new();
            let mut produced = 0usize;
            let mut prev = 0;
            for c in cuts.iter().chain(std::iter::once(&len)) {
                let mut pending = Some(Bytes::copy_from_slice(&s[prev..*c]));
                prev = *c;
                while let Some(b) = pending.take() {
                    if b.is_empty() { break; }
                    if let Some((dg, tail)) = d.decode_chunk(b) { produced += 1 + dg.payload.len() / 65536; if !tail.is_empty() { pending = Some(tail); } }
                    if produced > len { panic!("decoder produced more datagrams than input bytes"); }
                }
            }
        });
        let s2 = input.clone();
        let cuts2 = cuts.clone();
        a.case("ICMP multiplexer stream decoder", &input, || {
            let mut d = IcmpDecoder::new();
            let mut prev = 0;
            let mut produced = 0usize;
            for c in cuts2.iter().chain(std::iter::once(&len)) {
                let mut pending = Some(Bytes::copy_from_slice(&s2[prev..*c]));
                prev = *c;
                while let Some(b) = pending.take() {
                    if b.is_empty() { break; }
                    if let Some((_, tail)) = d.decode_chunk(b) { produced += 1; if !tail.is_empty() { pending = Some(tail); } }
                    if produced > len { panic!("decoder produced more requests than input bytes"); }
                }
            }
        });
        a.local.distinct.push(common::fnv(&input));
    }
}

fn http1_heads(a: &mut Acc, r: &mut Rng, exhaustive_len: usize, n_mut: u64) {
    let alphabet: [u8; 14] = [b'G', b'E', b'T', b' ', b'/', b'H', b'P', b'1', b'.', b'\r', b'\n', b':', 0x00, 0xff];
    // exhaustive short strings (also appended to a valid request line prefix so the header parser is reached)
    let total = (alphabet.len() as u64).pow(exhaustive_len as u32);
    let prefixes: [&[u8]; 3] = [b"", b"GET / HTTP/1.1\r\n", b"HTTP/1.1 200 OK\r\n"];
    for idx in 0..total {
        let mut x = idx;
        let mut s = Vec::with_capacity(exhaustive_len);
        for _ in 0..exhaustive_len { s.push(alphabet[(x % alphabet.len() as u64) as usize]); x /= alphabet.len() as u64; }
        for p in prefixes {
            let mut input = p.to_vec();
            input.extend_from_slice(&s);
            let i1 = input.clone();
            let res = a.case("HTTP/1.1 request head parser", &input, || h1_decode_request(&i1).map(|d| matches!(d, H1Decode::Partial)));
            if let Some(Ok(true)) = res { if input.len() >= 1024 { a.bad.entry("request head parser keeps buffering beyond its limit".into()).or_insert(json!({})); } }
            let i2 = input.clone();
            a.case("HTTP/1.1 response head parser", &input, || h1_decode_response(&i2).map(|_| ()));
        }
        a.local.distinct_by_construction += 1;
    }
    // mutations of valid heads
    let valid: Vec<Vec<u8>> = vec![
        b"CONNECT example.org:443 HTTP/1.1\r\nHost: example.org:443\r\nProxy-Authorization: Basic dTpw\r\n\r\n".to_vec(),
        b"GET http://example.org/a?b=c HTTP/1.1\r\nHost: example.org\r\nAccept: */*\r\nContent-Length: 5\r\n\r\nhello".to_vec(),
        b"HTTP/1.1 200 OK\r\nContent-Length: 3\r\nTransfer-Encoding: chunked\r\n\r\nabc".to_vec(),
        b"GET / HTTP/1.1\r\nHost: [::1]:80\r\n\r\n".to_vec(),
        b"GET /%zz HTTP/1.1\r\nHost: a b\r\n\r\n".to_vec(),
    ];
    for v in &valid {
        for cut in 0..=v.len() {
            let i1 = v[..cut].to_vec();
            a.case("HTTP/1.1 request head parser", &i1.clone(), || h1_decode_request(&i1).map(|_| ()));
            let i2 = v[..cut].to_vec();
            a.case("HTTP/1.1 response head parser", &i2.clone(), || h1_decode_response(&i2).map(|_| ()));
        }
    }
    for _ in 0..n_mut {
        let mut m = r.pick(&valid).clone();
        for _ in 0..r.range(1, 4) {
            let i = r.below(m.len() as u64) as usize;
            match r.below(4) { 0 => m[i] = r.next() as u8, 1 => { m.remove(i); } 2 => m.insert(i, *r.pick(&alphabet)), _ => { let j = r.below(m.len() as u64) as usize; m.swap(i, j); } }
            if m.is_empty() { m.push(b'G'); }
        }
        if r.chance(1, 20) { let pad = vec![b'a'; 2000]; m.splice(10.min(m.len())..10.min(m.len()), pad); }
        let i1 = m.clone();
        a.case("HTTP/1.1 request head parser", &m, || h1_decode_request(&i1).map(|_| ()));
        let i2 = m.clone();
        a.case("HTTP/1.1 response head parser", &m, || h1_decode_response(&i2).map(|_| ()));
        a.local.distinct.push(common::fnv(&m));
    }
}

fn client_hello(a: &mut Acc, r: &mut Rng, exhaustive_len: usize, n_mut: u64) {
    let alphabet: [u8; 7] = [0x16, 0x03, 0x01, 0x00, 0xff, 0x05, 0x20];
    let total = (alphabet.len() as u64).pow(exhaustive_len as u32);
    for idx in 0..total {
        let mut x = idx;
        let mut s = Vec::with_capacity(exhaustive_len + 40);
        for _ in 0..exhaustive_len { s.push(alphabet[(x % alphabet.len() as u64) as usize]); x /= alphabet.len() as u64; }
        let i = s.clone();
        a.case("ClientHello random extractor", &s, || extract_client_random(&i));
        // the same bytes as a record header followed by zeros
        s.extend_from_slice(&[0u8; 40]);
        let i = s.clone();
        a.case("ClientHello random extractor", &s, || extract_client_random(&i));
        a.local.distinct_by_construction += 1;
    }
    let h = crate::props::c12::rustls_hello("main.test", &[b"h2", b"http/1.1"]);
    // every length field of the real hello set to 0 / 1 / max / +-1
    let fields: [(usize, usize); 5] = [(3, 2), (6, 3), (43, 1), (44 + h.bytes[43] as usize, 2), (h.bytes.len().min(120), 2)];
    for (off, w) in fields {
        if off + w > h.bytes.len() { continue; }
        let cur = h.bytes[off..off + w].iter().fold(0u64, |acc, b| (acc << 8) | *b as u64);
        for v in [0u64, 1, cur.wrapping_sub(1), cur + 1, (1u64 << (8 * w)) - 1, cur / 2] {
            let mut m = h.bytes.clone();
            for k in 0..w { m[off + k] = (v >> (8 * (w - 1 - k))) as u8; }
            let i = m.clone();
            a.case("ClientHello random extractor", &m, || extract_client_random(&i));
        }
    }
    for _ in 0..n_mut {
        let mut m = h.bytes.clone();
        for _ in 0..r.range(1, 5) { let i = r.below(m.len().min(200) as u64) as usize; m[i] = r.next() as u8; }
        if r.chance(1, 3) { m.truncate(r.below(m.len() as u64) as usize); }
        let i = m.clone();
        a.case("ClientHello random extractor", &m, || extract_client_random(&i));
        a.local.distinct.push(common::fnv(&m));
    }
}

fn socks5_replies(a: &mut Acc, r: &mut Rng, exhaustive_len: usize, n_random: u64) {
    let rt = env::rt_paused();
    let alphabet: [u8; 8] = [5, 0, 1, 2, 3, 4, 0x80, 0xff];
    let total = (alphabet.len() as u64).pow(exhaustive_len as u32);
    let mut inputs: Vec<Vec<u8>> = vec![];
    for idx in 0..total {
        let mut x = idx;
        let mut s = vec![];
        for _ in 0..exhaustive_len { s.push(alphabet[(x % alphabet.len() as u64) as usize]); x /= alphabet.len() as u64; }
        inputs.push(s);
    }
    for _ in 0..n_random { let n = r.below(40) as usize; let mut s = r.bytes(n); if n > 1 { s[0] = 5; s[1] = *r.pick(&[0u8, 2, 0x80]); } inputs.push(s); }
    for (k, s) in inputs.iter().enumerate() {
        let auth = match k % 3 { 0 => None, 1 => Some(S5Auth::UsernamePassword("u".into(), "p".into())), _ => Some(S5Auth::Extended(vec![])) };
        let server_bytes = s.clone();
        a.case("SOCKS5 reply reader", s, || {
            rt.block_on(async {
                let (c, mut srv) = tokio::io::duplex(4096);
                let j = tokio::spawn(async move {
                    use tokio::io::{AsyncReadExt, AsyncWriteExt};
                    let _ = srv.write_all(&server_bytes).await;
                    let mut sink = [0u8; 512];
                    // swallow what the client sends for a while, then close
                    let _ = tokio::time::timeout(Duration::from_secs(5), async { loop { match srv.read(&mut sink).await { Ok(0) | Err(_) => break, _ => {} } } }).await;
                });
                let r = tokio::time::timeout(Duration::from_secs(30), socks5_connect(c, auth, S5Request::ConnectDomain("example.org".into(), 443))).await;
                j.abort();
                if r.is_err() { panic!("SOCKS5 client did not conclude on a finite server stream"); }
            })
        });
        if k as u64 >= total { a.local.distinct.push(common::fnv(s)); } else { a.local.distinct_by_construction += 1; }
    }
}

/// Datagrams from the SOCKS5 UDP relay (RFC 1928 section 7 header) fed to a live association
/// over loopback: every address type x every total length 0..=44 (so every truncation point of
/// every header form), reserved/fragment variants, domain-length bytes, seeded random datagrams.
fn socks5_relay_datagrams(a: &mut Acc, r: &mut Rng, n_random: u64) {
    use futures::FutureExt;
    use tokio::io::{AsyncReadExt, AsyncWriteExt};
    use trusttunnel::verif::misc::S5Result;
    let rt = env::rt_current();
    let mut packets: Vec<Vec<u8>> = vec![];
    for atyp in [0u8, 1, 3, 4, 5, 0xff] {
        for fill in [1u8, 0, 5, 0xff] {
            if atyp != 3 && fill != 1 { continue; }
            for len in 0..=44usize {
                let mut p = vec![0u8, 0, 0, atyp];
                p.resize(46, fill);
                p.truncate(len);
                packets.push(p);
            }
        }
        for (rsv0, rsv1, frag) in [(1u8, 0u8, 0u8), (0, 1, 0), (0, 0, 1), (0, 0, 0x80), (0xff, 0xff, 0xff)] {
            for len in [4usize, 9, 10, 11, 20, 21, 22, 23] {
                let mut p = vec![rsv0, rsv1, frag, atyp];
                p.resize(46, 7);
                p.truncate(len);
                packets.push(p);
            }
        }
    }
    let systematic = packets.len();
    for _ in 0..n_random {
        let n = r.below(48) as usize;
        let mut p = r.bytes(n);
        if r.chance(3, 4) { for (i, b) in [0u8, 0, 0, *r.pick(&[1u8, 3, 4])].iter().enumerate() { if i < p.len() { p[i] = *b; } } }
        packets.push(p);
    }
    rt.block_on(async {
        let relay = tokio::net::UdpSocket::bind("127.0.0.1:0").await.unwrap();
        let relay_addr = relay.local_addr().unwrap();
        let (client_io, mut server_io) = tokio::io::duplex(4096);
        let srv = tokio::spawn(async move {
            let mut b = [0u8; 3];
            let _ = server_io.read_exact(&mut b).await;
            let mut rest = vec![0u8; (b[1] as usize).saturating_sub(1)];
            let _ = server_io.read_exact(&mut rest).await;
            let _ = server_io.write_all(&[5, 0]).await;
            let mut req = [0u8; 10];
            let _ = server_io.read_exact(&mut req).await;
            let mut reply = vec![5, 0, 0, 1];
            if let std::net::SocketAddr::V4(a) = relay_addr { reply.extend_from_slice(&a.ip().octets()); }
            reply.extend_from_slice(&relay_addr.port().to_be_bytes());
            let _ = server_io.write_all(&reply).await;
            // the association lives as long as its control connection
            tokio::time::sleep(Duration::from_secs(3600)).await;
            drop(server_io);
        });
        let assoc = match socks5_connect(client_io, None, S5Request::UdpAssociate).await {
            Ok(S5Result::UdpAssociation(x)) => x,
            _ => { a.local.tally("socks5 relay datagrams: association not established (nothing judged)", 1); return; }
        };
        let local = assoc.local_addr().unwrap();
        for (k, pkt) in packets.iter().enumerate() {
            a.local.evals += 1;
            if let Some(s) = &a.slot { s.set(a.local.evals, common::fnv(pkt), pkt.len() as u64, 0); }
            if k < systematic { a.local.distinct_by_construction += 1; } else { a.local.distinct.push(common::fnv(pkt)); }
            if relay.send_to(pkt, local).await.is_err() { a.local.tally("socks5 relay datagrams: not sent", 1); continue; }
            let mut buf = vec![0u8; 1500];
            let got = std::panic::AssertUnwindSafe(tokio::time::timeout(Duration::from_secs(2), assoc.recv_from(&mut buf))).catch_unwind().await;
            match got {
                Err(e) => {
                    let msg = e.downcast_ref::<&str>().map(|s| s.to_string()).or_else(|| e.downcast_ref::<String>().cloned()).unwrap_or_default();
                    let loc = common::LAST_PANIC_LOCATION.with(|l| l.borrow_mut().take()).unwrap_or_default();
                    let file = loc.rsplit_once(':').map(|x| x.0.to_string()).unwrap_or(loc.clone());
                    a.bad.entry(format!("panic in SOCKS5 relayed datagram reader: {}", file)).or_insert_with(|| json!({"kind":"parser-panic","parser":"UdpAssociation::recv_from","input_hex":common::hex(pkt),"panic":format!("{} @ {}", msg, loc)}));
                }
                Ok(Err(_)) => a.local.tally("socks5 relay datagrams: not delivered within 2 s (not judged)", 1),
                Ok(Ok(Ok((n, _)))) => {
                    if n > pkt.len() { a.bad.entry("SOCKS5 relayed datagram reader returned more payload than the datagram held".into()).or_insert(json!({"input_hex":common::hex(pkt),"returned":n})); }
                    a.local.tally("socks5 relay datagrams: parsed", 1);
                }
                Ok(Ok(Err(_))) => a.local.tally("socks5 relay datagrams: rejected with an error", 1),
            }
        }
        srv.abort();
    });
}

fn settings_files(a: &mut Acc, r: &mut Rng, root: &std::path::Path, n_mut: u64) {
    let dir = env::work_dir(root, "c09");
    let cred = dir.join("cred.toml");
    let rules = dir.join("rules.toml");
    let base_settings = |cred: &str, rules: &str| format!("listen_address = \"127.0.0.1:1443\"\ncredentials_file = \"{}\"\nrules_file = \"{}\"\ntls_handshake_timeout_secs = 10\n[listen_protocols]\n[listen_protocols.http1]\nupload_buffer_size = 32768\n[listen_protocols.http2]\n[icmp]\ninterface_name = \"lo\"\n[metrics]\naddress = \"127.0.0.1:1987\"\n", cred, rules);
    let cred_files = ["", "[[client]]\nusername = \"u\"\npassword = \"p\"\n", "[[client]]\npassword = \"p\"\n", "[[client]]\nusername = 1\npassword = 2\n", "[client]\nusername = \"u\"\n", "client = 5\n", "[[client]]\nusername = \"u\"\npassword = \"p\"\n[[client]]\n", "[[client]]\nusername = \"\\ud800\"\npassword = \"p\"\n", "\u{0}\u{1}", "[[client]]\nusername = \"u\"\npassword = \"p\"\nextra = { a = [1, 2, { b = 3 }] }\n"];
    let rule_files = ["", "[[rule]]\naction = \"deny\"\n", "[[rule]]\ncidr = 5\nclient_random_prefix = 7\naction = 9\n", "[[rule]]\ncidr = \"10.0.0.0/8\"\nclient_random_prefix = \"zz/zz\"\naction = \"deny\"\n", "[rule]\naction = \"deny\"\n", "rule = [1, 2]\n", "[[rule]]\ncidr = \"::/129\"\naction = \"allow\"\n", "[[rule]]\nclient_random_prefix = \"/\"\naction = \"allow\"\n"];
    for c in cred_files { for rf in rule_files {
        std::fs::write(&cred, c).unwrap();
        std::fs::write(&rules, rf).unwrap();
        let text = base_settings(&cred.to_string_lossy(), &rules.to_string_lossy());
        a.case("settings / credentials / rules loader", text.as_bytes(), || {
            if let Ok(s) = toml::from_str::<trusttunnel::settings::Settings>(&text) {
                // evaluating the loaded rules must not panic either
                if let Some(e) = s.get_rules_engine() { let _ = e.evaluate(&"10.0.0.1".parse().unwrap(), Some(&[0xaa; 32])); let _ = e.evaluate(&"::1".parse().unwrap(), None); }
            }
        });
        a.local.distinct_by_construction += 1;
    } }
    // client-random patterns: every combination of prefix and mask lengths (equal, shorter, longer, empty, odd, oversize),
    // loaded from a rules file and then evaluated against randoms that match, partly match, are short or absent
    std::fs::write(&cred, "[[client]]\nusername = \"u\"\npassword = \"p\"\n").unwrap();
    let hexes = ["", "a", "a0", "a0b0", "a0b0c0", "A0B0", &"ab".repeat(32), &"ab".repeat(33), "zz"];
    let masks: Vec<Option<&str>> = vec![None, Some(""), Some("f"), Some("f0"), Some("f0f0"), Some("f0f0ff"), Some("00"), Some("ffffffffff"), Some("zz")];
    let randoms: Vec<Option<Vec<u8>>> = vec![None, Some(vec![]), Some(vec![0xa5]), Some(vec![0xa5, 0xb5]), Some(vec![0xa5, 0xb5, 0xc5, 0xd5]), Some(vec![0xa0; 32]), Some(vec![0xab; 32]), Some(vec![0; 32]), Some(vec![0xa5; 40])];
    for hx in hexes { for m in &masks { for cidr in [None, Some("10.0.0.0/8"), Some("junk")] {
        let pat = match m { None => hx.to_string(), Some(m) => format!("{}/{}", hx, m) };
        let rf = format!("[[rule]]\n{}client_random_prefix = \"{}\"\naction = \"deny\"\n[[rule]]\naction = \"allow\"\n", cidr.map(|c| format!("cidr = \"{}\"\n", c)).unwrap_or_default(), pat);
        std::fs::write(&rules, &rf).unwrap();
        let text = base_settings(&cred.to_string_lossy(), &rules.to_string_lossy());
        let randoms = randoms.clone();
        a.case("rules file with a client-random pattern: load + evaluate", rf.as_bytes(), || {
            if let Ok(s) = toml::from_str::<trusttunnel::settings::Settings>(&text) {
                if let Some(e) = s.get_rules_engine() {
                    for ip in ["10.0.0.1", "192.0.2.1", "::1"] { for r in &randoms { let _ = e.evaluate(&ip.parse().unwrap(), r.as_deref()); } }
                }
            }
        });
        a.local.distinct_by_construction += 1;
    } } }
    std::fs::write(&cred, "[[client]]\nusername = \"u\"\npassword = \"p\"\n").unwrap();
    std::fs::write(&rules, "").unwrap();
    let base = base_settings(&cred.to_string_lossy(), &rules.to_string_lossy());
    let lines: Vec<&str> = base.lines().collect();
    let values = ["5", "-1", "\"x\"", "99999999999999999999", "true", "[1]", "{ a = 1 }", "\"\"", "1e308", "0x7fffffffffffffff", "\"[::]:0\"", "\"256.1.1.1:1\""];
    for _ in 0..n_mut {
        let mut ls: Vec<String> = lines.iter().map(|l| l.to_string()).collect();
        for _ in 0..r.range(1, 3) {
            let i = r.below(ls.len() as u64) as usize;
            match r.below(4) {
                0 => { ls.remove(i); }
                1 => { if let Some((k, _)) = ls[i].clone().split_once('=') { ls[i] = format!("{}= {}", k, r.pick(&values)); } }
                2 => { let d = ls[i].clone(); ls.insert(i, d); }
                _ => { ls[i] = format!("{} = {}", r.pick(&["udp_connections_timeout_secs", "ipv6_available", "speedtest_enable", "forward_protocol", "reverse_proxy", "listen_protocols.quic"]), r.pick(&values)); }
            }
            if ls.is_empty() { ls.push(String::new()); }
        }
        let text = ls.join("\n");
        a.case("settings / credentials / rules loader", text.as_bytes(), || { let _ = toml::from_str::<trusttunnel::settings::Settings>(&text); });
        a.local.distinct.push(common::fnv(text.as_bytes()));
    }
    // TLS hosts file
    for t in ["", "[[main_hosts]]\n", "[[main_hosts]]\nhostname = 5\n", "main_hosts = 1\n", "[[main_hosts]]\nhostname = \"a\"\ncert_chain_path = \"/nonexistent\"\nprivate_key_path = \"/nonexistent\"\nallowed_sni = 3\n"] {
        a.case("TLS hosts settings loader", t.as_bytes(), || { let _ = toml::from_str::<trusttunnel::settings::TlsHostsSettings>(t); });
    }
}

fn origin_responses(a: &mut Acc, r: &mut Rng, n: u64) {
    use crate::props::c17::{gen_case, run_case, ORIGIN_OVERRIDE};
    let rt = env::rt_paused();
    let valid: Vec<Vec<u8>> = vec![
        b"HTTP/1.1 200 OK\r\nContent-Length: 5\r\n\r\nhello".to_vec(),
        b"HTTP/1.1 200 OK\r\nTransfer-Encoding: chunked\r\n\r\n5\r\nhello\r\n0\r\n\r\n".to_vec(),
        b"HTTP/1.1 100 Continue\r\n\r\nHTTP/1.1 204 No Content\r\n\r\n".to_vec(),
        b"HTTP/1.1 200 OK\r\nContent-Length: 18446744073709551615\r\n\r\nx".to_vec(),
        b"HTTP/1.1 200 OK\r\nTransfer-Encoding: chunked\r\n\r\nffffffffffffffff\r\nx".to_vec(),
    ];
    // structured hostile responses: every odd spelling of the framing fields, for every client version, whole and byte-at-a-time
    let mut structured: Vec<Vec<u8>> = vec![];
    for size in ["", "0", "5", "+5", "-1", "0x5", " 5", "5 ", "5;ext", "5;", ";", "g", "ffffffffffffffff", "fffffffffffffffff", "10000000000000000", "7fffffffffffffff", "8000000000000000", "00000000000000005", "\u{e9}"] {
        structured.push(format!("HTTP/1.1 200 OK\r\nTransfer-Encoding: chunked\r\n\r\n{}\r\nhello\r\n0\r\n\r\n", size).into_bytes());
    }
    for cl in ["", "+5", "-5", "5, 5", "5,6", "18446744073709551616", "99999999999999999999999", "0x5", "5 ", " 5", "five", "\u{e9}"] {
        structured.push(format!("HTTP/1.1 200 OK\r\nContent-Length: {}\r\n\r\nhello", cl).into_bytes());
    }
    for line in ["NoColonHere", ": empty-name", "X-\u{e9}: v", "X: \u{e9}\u{2713}", "X:\tv", " X: leading-space", "X : space-before-colon", "Transfer-Encoding: CHUNKED", "transfer-encoding: gzip, chunked", "Content-Length: 5\r\nContent-Length: 6"] {
        structured.push(format!("HTTP/1.1 200 OK\r\n{}\r\nContent-Length: 5\r\n\r\nhello", line).into_bytes());
    }
    for status in ["HTTP/1.1 20 OK", "HTTP/1.1 2000 OK", "HTTP/1.1 OK", "HTTP/1.1", "HTTP/1.1 200", "HTTP/9.9 200 OK", "HTTP/1.1 099 Low", "HTTP/1.1 600 High", "ICY 200 OK", "HTTP/1.1  200  OK"] {
        structured.push(format!("{}\r\nContent-Length: 5\r\n\r\nhello", status).into_bytes());
    }
    structured.push({ let mut v = b"HTTP/1.1 200 OK\r\n".to_vec(); for i in 0..200 { v.extend_from_slice(format!("X-{}: {}\r\n", i, i).as_bytes()); } v.extend_from_slice(b"Content-Length: 5\r\n\r\nhello"); v });
    structured.push({ let mut v = b"HTTP/1.1 200 OK\r\nX-Long: ".to_vec(); v.extend(vec![b'a'; 70_000]); v.extend_from_slice(b"\r\nContent-Length: 5\r\n\r\nhello"); v });
    for (k, m) in structured.iter().enumerate() {
        for version_seed in 0..6u64 {
            for bytewise in [false, true] {
                let mut case = gen_case(version_seed * 7919 + 13, k as u64);
                case.cuts = if bytewise && m.len() < 600 { (1..m.len()).collect() } else { vec![] };
                let m2 = m.clone();
                a.case("origin response translator (structured hostile framing)", m, || {
                    ORIGIN_OVERRIDE.with(|o| *o.borrow_mut() = Some(m2));
                    let out = rt.block_on(run_case(&case));
                    ORIGIN_OVERRIDE.with(|o| *o.borrow_mut() = None);
                    if out.stalled { panic!("exchange with a malformed origin response never terminated"); }
                    if let Some(l) = &out.client_sink { if l.lock().unwrap().spin_detected { panic!("translator spins on a malformed origin response"); } }
                });
                ORIGIN_OVERRIDE.with(|o| *o.borrow_mut() = None);
                a.local.distinct_by_construction += 1;
            }
        }
    }
    for k in 0..n {
        let mut m = r.pick(&valid).clone();
        for _ in 0..r.below(4) {
            let i = r.below(m.len() as u64) as usize;
            match r.below(3) { 0 => m[i] = r.next() as u8, 1 => { m.remove(i); } _ => m.insert(i, *r.pick(&[b'\r', b'\n', b'0', b'f', b':', b' '])), }
            if m.is_empty() { m.push(b'H'); }
        }
        if r.chance(1, 10) { let nn = r.below(300) as usize + 1; m = r.bytes(nn); }
        let mut case = gen_case(r.next(), k);
        case.cuts = (0..r.below(4)).map(|_| r.below(m.len() as u64 + 1) as usize).filter(|c| *c > 0 && *c < m.len()).collect();
        case.cuts.sort();
        case.cuts.dedup();
        let m2 = m.clone();
        a.case("origin response translator", &m, || {
            ORIGIN_OVERRIDE.with(|o| *o.borrow_mut() = Some(m2));
            let out = rt.block_on(run_case(&case));
            ORIGIN_OVERRIDE.with(|o| *o.borrow_mut() = None);
            if out.stalled { panic!("exchange with a malformed origin response never terminated"); }
            if let Some(l) = &out.client_sink { if l.lock().unwrap().spin_detected { panic!("translator spins on a malformed origin response"); } }
        });
        ORIGIN_OVERRIDE.with(|o| *o.borrow_mut() = None);
        a.local.distinct.push(common::fnv(&m));
    }
}

fn h1_listen_loop(a: &mut Acc, r: &mut Rng, root: &std::path::Path, n: u64) {
    use crate::props::c08::{codec_case, heads, Head, Seen};
    let dir = env::work_dir(root, "c09");
    let ctx = Arc::new(env::make_ctx(&dir, env::CtxOpts::default()));
    let rt = env::rt_paused();
    let hs = heads();
    for _ in 0..n {
        let mut m = r.pick(&hs).bytes.clone();
        m.truncate(600);
        for _ in 0..r.range(1, 4) { let i = r.below(m.len() as u64) as usize; match r.below(3) { 0 => m[i] = r.next() as u8, 1 => { m.remove(i); } _ => m.insert(i, *r.pick(&[b'\r', b'\n', b':', b' ', 0u8])), } if m.is_empty() { m.push(b'C'); } }
        let cuts: Vec<usize> = { let mut c: Vec<usize> = (0..r.below(3)).map(|_| r.below(m.len() as u64 + 1) as usize).filter(|c| *c > 0 && *c < m.len()).collect(); c.sort(); c.dedup(); c };
        let close = r.chance(1, 2);
        let head = Head { kind: "mutated", bytes: m.clone(), valid: None, method: "" };
        a.case("HTTP/1.1 listen loop", &m, || {
            let out = rt.block_on(codec_case(&ctx, &head, &cuts, Duration::from_millis(1), close));
            match out.seen {
                Seen::Spin(s) => panic!("{}", s),
                Seen::Panic(s) => panic!("codec task panicked: {}", s),
                Seen::Hung if close => panic!("listen() never returned after the peer closed"),
                _ => {}
            }
            if out.pulled > 4096 + 600 { panic!("more than 4 KiB pulled while no request was recognised"); }
        });
        a.local.distinct.push(common::fnv(&m));
    }
}

/// The whole sweep; `scale` multiplies the seeded parts
pub fn sweep(args: &Args, scale: u64) -> Vec<Acc> {
    let seed = args.seed;
    let root = args.root.clone();
    let thorough = args.thorough();
    let parts: Vec<Box<dyn Fn(&mut Acc, &mut Rng) + Send + Sync>> = vec![
        Box::new(move |a, r| ip_headers(a, r, 40_000 * scale)),
        Box::new(move |a, r| icmp_messages(a, r, 40_000 * scale)),
        Box::new(move |a, r| stream_decoders(a, r, 60_000 * scale)),
        Box::new(move |a, r| http1_heads(a, r, if thorough { 5 } else { 4 }, 30_000 * scale)),
        Box::new(move |a, r| client_hello(a, r, if thorough { 7 } else { 6 }, 20_000 * scale)),
        Box::new(move |a, r| socks5_replies(a, r, if thorough { 5 } else { 4 }, 2_000 * scale)),
        { let root = root.clone(); Box::new(move |a, r| settings_files(a, r, &root, 3_000 * scale)) },
        Box::new(move |a, r| origin_responses(a, r, 6_000 * scale)),
        { let root = root.clone(); Box::new(move |a, r| h1_listen_loop(a, r, &root, 4_000 * scale)) },
        Box::new(move |a, r| socks5_relay_datagrams(a, r, 3_000 * scale)),
    ];
    let parts = Arc::new(parts);
    let n = parts.len();
    let inner = args.has_flag("--inner");
    // a parser that burns 20 CPU-seconds on one (tiny) input is wedged
    let watch = crate::common::wedge::Watch::start(n, 20, move |part, case_no, input_hash, input_len, _d, cpu| {
        let names = ["ip headers", "icmp messages", "stream decoders", "http1 heads", "client hello", "socks5 replies", "settings files", "origin responses", "h1 listen loop", "socks5 relay datagrams"];
        let sig = format!("parser wedged (no return within 20 CPU-seconds on one input): {}", names.get(part).copied().unwrap_or("?"));
        let detail = json!({"kind":"parser-wedge","part":names.get(part),"case_number_in_part":case_no,"input_fnv":format!("{:016x}", input_hash),"input_len":input_len,"cpu_seconds":cpu});
        if inner {
            println!("C09-INNER {}", json!({"evaluations": case_no, "violations": {sig: detail}}));
        } else {
            let dir = std::path::Path::new(&std::env::var("VERIF_ROOT").unwrap_or_else(|_| "/verif".into())).join("evidence").join("replays");
            let _ = std::fs::create_dir_all(&dir);
            let path = dir.join("C09-wedge.json");
            let _ = std::fs::write(&path, serde_json::to_string_pretty(&json!({"property":"C09","signature":sig,"witness":detail})).unwrap());
            println!("VIOLATION property=C09 replay={}\n  signature: {}\n  witness: {}", path.display(), sig, detail);
        }
        std::process::exit(1);
    });
    let slots = watch.slots.clone();
    common::parallel(n, move |i, _| {
        let mut a = Acc::new();
        slots[i].attach();
        a.slot = Some(slots[i].clone());
        let mut r = Rng::derive(seed, 0xc09, i as u64);
        (parts[i])(&mut a, &mut r);
        slots[i].detach();
        a.slot = None;
        a
    })
}

pub fn run(args: &Args) -> i32 {
    // inner mode: run by the release binary under another profile / sanitizer; prints a JSON summary
    if args.has_flag("--inner") {
        let accs = sweep(args, if args.thorough() { 4 } else { 1 });
        let mut evals = 0u64;
        let mut bad = BTreeMap::new();
        for a in accs { evals += a.local.evals; bad.extend(a.bad); }
        println!("C09-INNER {}", json!({"evaluations": evals, "violations": bad}));
        return 0;
    }
    let rep = Arc::new(Reporter::new(
        args,
        "exploration",
        "one sweep over every parser of untrusted bytes reachable through the door: IPv4/IPv6 header skipping (every version/IHL byte; extension-header chains \
         with hostile lengths, truncated everywhere), ICMP/ICMPv6 deserialisation + reply encoding (every type byte x codes x lengths; errors quoting a packet behind every IPv4 option length / IPv6 extension header with 0-12 bytes of quoted message left), UDP/ICMP stream \
         decoders under random segmentation, HTTP/1.1 request/response head parsers (all strings of length 4-5 over a 14-symbol alphabet after three prefixes, \
         truncations and mutations of valid heads), ClientHello extractor (all strings of length 6-7 over 7 symbols, every length field of a real hello set to \
         0/1/max/+-1), SOCKS5 reply readers (all server byte strings of length 4-5 over 8 symbols), SOCKS5 relayed datagrams to a live UDP association (6 address types x every length 0-44, reserved/fragment variants, seeded random), settings/credentials/rules/hosts files (products and \
         line mutations), origin-response translator and the HTTP/1.1 listen loop on mutated inputs; run in the release-equivalent profile and again in the \
         checked profile (overflow checks + debug assertions). distinct_nontrivial = distinct inputs (enumerations never repeat one).",
    ));
    rep.assume("panic = refuted; arithmetic overflow and failed debug assertions become panics in the checked profile; wedging is caught by the iteration/termination guards inside each case");
    let accs = sweep(args, if args.thorough() { 6 } else { 1 });
    let names = ["ip headers", "icmp messages", "stream decoders", "http1 heads", "client hello", "socks5 replies", "settings files", "origin responses", "h1 listen loop", "socks5 relay datagrams"];
    for (i, a) in accs.into_iter().enumerate() {
        rep.tally(&format!("release profile: inputs to {}", names[i]), a.local.evals);
        for (s, d) in a.bad { rep.violation(&s, d); }
        a.local.merge_into(&rep);
    }
    rep.sample(json!({"parser": "skip_ipv6_header", "input_hex": "6000000000080040<src 16><dst 16>3ac8000000000000", "note": "hop-by-hop header whose length byte runs past the packet"}));
    crate::props::c09_san::run_other_profiles(&rep, args);
    rep.finish()
}
