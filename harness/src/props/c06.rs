//! C06 — UDP multiplexer wire codec: exact, segmentation-invariant, resynchronising.
//!
//! The real `http_udp_codec::Decoder`/`Encoder` (through the door) against an independent
//! decoder/encoder written from PROTOCOL.md 6.3/6.4/11.2, over sequences of valid and invalid
//! records under every small segmentation.

use crate::common::report::Local;
use crate::common::{self, Args, Reporter, Rng};
use bytes::Bytes;
use serde_json::json;
use std::collections::BTreeMap;
use std::net::{IpAddr, Ipv4Addr, Ipv6Addr, SocketAddr};
use trusttunnel::verif::pure::{udp_encode, UdpDecoder, UdpIn};

pub const MAX_UDP_PAYLOAD: usize = 65507;
/// payloads above this and up to MAX_UDP_PAYLOAD are EITHER (the statement does not pin the cap)
pub const EITHER_FROM: usize = 64000;

#[derive(Clone, Debug)]
pub struct Rec {
    pub kind: &'static str,
    pub bytes: Vec<u8>,
}

fn put_ip(v: &mut Vec<u8>, ip: &IpAddr) {
    match ip {
        IpAddr::V4(x) => {
            v.extend_from_slice(&[0; 12]);
            v.extend_from_slice(&x.octets());
        }
        IpAddr::V6(x) => v.extend_from_slice(&x.octets()),
    }
}

pub fn encode_63(src: SocketAddr, dst: SocketAddr, name: &[u8], payload: &[u8], len_override: Option<u32>) -> Vec<u8> {
    let mut v = vec![];
    let total = 36 + 1 + name.len() + payload.len();
    v.extend_from_slice(&len_override.unwrap_or(total as u32).to_be_bytes());
    put_ip(&mut v, &src.ip());
    v.extend_from_slice(&src.port().to_be_bytes());
    put_ip(&mut v, &dst.ip());
    v.extend_from_slice(&dst.port().to_be_bytes());
    v.push(name.len() as u8);
    v.extend_from_slice(name);
    v.extend_from_slice(payload);
    v
}

/// PROTOCOL.md 11.2: IPv4 iff the first 12 bytes are zero and the address is not ::1
fn ref_ip(b: &[u8]) -> IpAddr {
    let mut a = [0u8; 16];
    a.copy_from_slice(b);
    if a[..12].iter().all(|x| *x == 0) && a != Ipv6Addr::LOCALHOST.octets() {
        IpAddr::V4(Ipv4Addr::new(a[12], a[13], a[14], a[15]))
    } else {
        IpAddr::V6(Ipv6Addr::from(a))
    }
}

#[derive(Clone, Debug, PartialEq, Eq)]
pub enum Expect {
    Must(UdpIn),
    /// payload size in the EITHER band: the datagram may be delivered or skipped
    Either(UdpIn),
}

/// Independent 6.3 decoder over a complete stream. A trailing incomplete record yields nothing.
pub fn ref_decode(stream: &[u8]) -> Vec<Expect> {
    let mut out = vec![];
    let mut p = 0usize;
    while stream.len() - p >= 4 {
        let l = u32::from_be_bytes(stream[p..p + 4].try_into().unwrap()) as usize;
        p += 4;
        if stream.len() - p < l {
            break; // incomplete record
        }
        let rec = &stream[p..p + l];
        p += l;
        if l < 37 {
            continue;
        }
        let src = SocketAddr::new(ref_ip(&rec[0..16]), u16::from_be_bytes([rec[16], rec[17]]));
        let dst = SocketAddr::new(ref_ip(&rec[18..34]), u16::from_be_bytes([rec[34], rec[35]]));
        let a = rec[36] as usize;
        if l < 37 + a {
            continue;
        }
        let name = &rec[37..37 + a];
        let payload = &rec[37 + a..];
        if payload.len() > MAX_UDP_PAYLOAD {
            continue;
        }
        let name = match std::str::from_utf8(name) {
            Ok(s) => s.to_string(),
            Err(_) => continue,
        };
        let d = UdpIn {
            source: src,
            destination: dst,
            app_name: Some(name),
            payload: Bytes::copy_from_slice(payload),
        };
        if payload.len() > EITHER_FROM {
            out.push(Expect::Either(d));
        } else {
            out.push(Expect::Must(d));
        }
    }
    out
}

/// Drive the real decoder exactly as `DatagramDecoder::read` does (tail re-queued in front)
pub fn real_decode(chunks: &[&[u8]]) -> Vec<UdpIn> {
    let mut dec = UdpDecoder::new();
    let mut out = vec![];
    for c in chunks {
        if c.is_empty() {
            continue;
        }
        let mut pending = Some(Bytes::copy_from_slice(c));
        while let Some(b) = pending.take() {
            match dec.decode_chunk(b) {
                None => {}
                Some((d, tail)) => {
                    out.push(d);
                    if !tail.is_empty() {
                        pending = Some(tail);
                    }
                }
            }
        }
    }
    out
}

fn norm(d: &UdpIn) -> (SocketAddr, SocketAddr, String, &[u8]) {
    (d.source, d.destination, d.app_name.clone().unwrap_or_default(), &d.payload[..])
}

/// Compare decoded vs expected; returns index of first mismatch, if any.
pub fn compare(decoded: &[UdpIn], expected: &[Expect]) -> Option<usize> {
    let mut i = 0usize;
    for (k, e) in expected.iter().enumerate() {
        match e {
            Expect::Must(d) => {
                if i >= decoded.len() || norm(&decoded[i]) != norm(d) {
                    return Some(k);
                }
                i += 1;
            }
            Expect::Either(d) => {
                if i < decoded.len() && norm(&decoded[i]) == norm(d) {
                    i += 1;
                }
            }
        }
    }
    if i != decoded.len() {
        return Some(expected.len());
    }
    None
}

fn a4(a: u8, b: u8, c: u8, d: u8, p: u16) -> SocketAddr {
    SocketAddr::new(IpAddr::V4(Ipv4Addr::new(a, b, c, d)), p)
}
fn a6(s: &str, p: u16) -> SocketAddr {
    SocketAddr::new(IpAddr::V6(s.parse().unwrap()), p)
}

pub fn pool(rng: &mut Rng, big: bool) -> Vec<Rec> {
    let mut v = vec![];
    let mut tag = 0u8;
    let mut pay = |n: usize| -> Vec<u8> {
        tag = tag.wrapping_add(1);
        (0..n).map(|i| tag.wrapping_mul(31).wrapping_add(i as u8)).collect()
    };
    let s4 = a4(10, 0, 0, 2, 40000);
    let d4 = a4(93, 184, 216, 34, 53);
    let s6 = a6("fd00::2", 40001);
    let d6 = a6("2606:4700::1111", 443);
    v.push(Rec { kind: "valid v4 name4 pay5", bytes: encode_63(s4, d4, b"test", &pay(5), None) });
    v.push(Rec { kind: "valid v6 name1 pay1", bytes: encode_63(s6, d6, b"x", &pay(1), None) });
    v.push(Rec { kind: "valid v4 name0 pay5", bytes: encode_63(s4, d4, b"", &pay(5), None) });
    v.push(Rec { kind: "valid zero-payload", bytes: encode_63(s4, d6, b"ab", &[], None) });
    v.push(Rec { kind: "valid zero-payload zero-name", bytes: encode_63(s6, d4, b"", &[], None) });
    v.push(Rec { kind: "valid utf8 name", bytes: encode_63(s4, d4, "é✓".as_bytes(), &pay(3), None) });
    v.push(Rec { kind: "valid ::1 destination", bytes: encode_63(s6, a6("::1", 5353), b"lo", &pay(4), None) });
    // address forms around the 11.2 rule (IPv4 = 12 zero bytes + 4 address bytes): IPv4-mapped, ::, ::2 and IPv4-compatible forms
    v.push(Rec { kind: "valid v4-mapped destination", bytes: encode_63(s6, a6("::ffff:192.0.2.1", 53), b"m", &pay(3), None) });
    v.push(Rec { kind: "valid v4-mapped source", bytes: encode_63(a6("::ffff:10.0.0.2", 40002), d4, b"", &pay(2), None) });
    v.push(Rec { kind: "valid :: and ::2 endpoints", bytes: encode_63(a6("::", 1), a6("::2", 2), b"z", &pay(1), None) });
    v.push(Rec { kind: "invalid length 0", bytes: 0u32.to_be_bytes().to_vec() });
    v.push(Rec { kind: "invalid length 1", bytes: { let mut b = 1u32.to_be_bytes().to_vec(); b.push(0xee); b } });
    v.push(Rec { kind: "invalid length 36", bytes: { let mut b = 36u32.to_be_bytes().to_vec(); b.extend(pay(36)); b } });
    v.push(Rec { kind: "invalid length shorter than name", bytes: {
        // header says name is 9 bytes but record length covers only 4 of them
        let mut b = encode_63(s4, d4, b"abcdefghi", &[], Some(37 + 4));
        b.truncate(4 + 37 + 4);
        b
    } });
    v.push(Rec { kind: "invalid non-utf8 name", bytes: encode_63(s4, d4, &[0xff, 0xfe, 0x80], &pay(6), None) });
    v.push(Rec { kind: "invalid non-utf8 name zero-payload", bytes: encode_63(s4, d4, &[0xc3], &[], None) });
    if big {
        let n = rng.range(1200, 1500) as usize;
        v.push(Rec { kind: "valid v4 name255 pay1400", bytes: encode_63(s4, d4, &[b'n'; 255], &pay(n), None) });
        v.push(Rec { kind: "invalid oversize payload", bytes: encode_63(s4, d4, b"big", &pay(MAX_UDP_PAYLOAD + 1), None) });
        v.push(Rec { kind: "either-zone payload 65000", bytes: encode_63(s4, d4, b"big", &pay(65000), None) });
        v.push(Rec { kind: "valid payload 60000", bytes: encode_63(s6, d6, b"big", &pay(60000), None) });
    }
    v
}

struct Case<'a> {
    kinds: Vec<&'static str>,
    stream: &'a [u8],
    bounds: Vec<usize>,
    /// sequence index (small pool) or 2^40 + k (seeded large-record sequence k)
    id: u64,
    slot: &'a crate::common::wedge::Slot,
}

fn classify_mismatch(case: &Case, expected: &[Expect], decoded: &[UdpIn], at: usize) -> String {
    // which stream record does the first wrong/missing datagram correspond to, and what precedes it
    let valid_idx: Vec<usize> = case
        .kinds
        .iter()
        .enumerate()
        .filter(|(_, k)| k.starts_with("valid") || k.starts_with("either"))
        .map(|(i, _)| i)
        .collect();
    if at >= expected.len() {
        return format!("decoder produced {} datagrams, reference {}: extra datagram", decoded.len(), expected.len());
    }
    let rec_i = valid_idx.get(at).copied().unwrap_or(0);
    let prev = if rec_i == 0 { "start" } else { case.kinds[rec_i - 1] };
    let missing = decoded.len() <= at;
    let last = rec_i + 1 == case.kinds.len();
    if missing && last && case.kinds[rec_i].contains("zero-payload") {
        return "zero-payload record at end of stream not delivered".into();
    }
    if case.kinds[rec_i].contains("::1") {
        return "record with ::1 endpoint decoded differently from PROTOCOL.md 11.2".into();
    }
    if prev.starts_with("invalid") {
        return format!("datagram following a skipped record ({}) lost or altered", prev);
    }
    format!("datagram of kind '{}' after '{}' lost or altered", case.kinds[rec_i], prev)
}

fn run_case(
    case: &Case,
    cuts: &[usize],
    expected: &[Expect],
    local: &mut Local,
    bad: &mut BTreeMap<String, serde_json::Value>,
) {
    let mut chunks: Vec<&[u8]> = Vec::with_capacity(cuts.len() + 1);
    let mut prev = 0;
    for c in cuts {
        chunks.push(&case.stream[prev..*c]);
        prev = *c;
    }
    chunks.push(&case.stream[prev..]);
    local.evals += 1;
    case.slot.set(
        case.id,
        cuts.len() as u64,
        cuts.first().copied().unwrap_or(0) as u64,
        cuts.get(1).copied().unwrap_or(0) as u64 | ((cuts.get(2).copied().unwrap_or(0) as u64) << 32),
    );
    let decoded = match common::catch(|| real_decode(&chunks)) {
        Ok(d) => d,
        Err(p) => {
            bad.entry(format!("decoder panicked: {}", common::panic_file(&p))).or_insert_with(|| {
                json!({"kind":"udp-decode","records":case.kinds,"stream_hex":short_hex(case.stream),"cuts":cuts,"panic":p})
            });
            return;
        }
    };
    if let Some(at) = compare(&decoded, expected) {
        let sig = classify_mismatch(case, expected, &decoded, at);
        bad.entry(sig).or_insert_with(|| {
            json!({"kind":"udp-decode","records":case.kinds,"stream_hex":short_hex(case.stream),"cuts":cuts,
                   "expected_datagrams":expected.len(),"decoded_datagrams":decoded.len(),"first_mismatch":at})
        });
    }
}

fn short_hex(b: &[u8]) -> String {
    if b.len() <= 400 {
        common::hex(b)
    } else {
        format!("{}..({} bytes)", common::hex(&b[..200]), b.len())
    }
}

fn seq_count(pool_len: usize, max_len: usize) -> u64 {
    (1..=max_len).map(|k| (pool_len as u64).pow(k as u32)).sum()
}

fn nth_seq(mut idx: u64, pool_len: usize, max_len: usize) -> Vec<usize> {
    let mut k = 1;
    loop {
        let c = (pool_len as u64).pow(k as u32);
        if idx < c || k == max_len {
            break;
        }
        idx -= c;
        k += 1;
    }
    let mut v = vec![];
    for _ in 0..k {
        v.push((idx % pool_len as u64) as usize);
        idx /= pool_len as u64;
    }
    v
}

fn build_small(seed: u64, idx: u64, max_len: usize) -> (Vec<&'static str>, Vec<u8>, Vec<usize>) {
    let small = pool(&mut Rng::derive(seed, 0xc06, 1000), false);
    let sel = nth_seq(idx, small.len(), max_len);
    let mut stream = vec![];
    let mut bounds = vec![];
    let mut kinds = vec![];
    for i in &sel {
        kinds.push(small[*i].kind);
        stream.extend_from_slice(&small[*i].bytes);
        bounds.push(stream.len());
    }
    (kinds, stream, bounds)
}

fn sweep(rep: &std::sync::Arc<Reporter>, args: &Args) {
    let thorough = args.thorough();
    let seed = args.seed;
    let n = common::workers();
    let max_len = if thorough { 4 } else { 3 };
    let watch = {
        let rep = rep.clone();
        crate::common::wedge::Watch::start(n, 10, move |_slot, id, ncuts, c0, c12, cpu| {
            let (kinds, stream_hex) = if id < (1 << 40) {
                let (k, s, _) = build_small(seed, id, max_len);
                (k, short_hex(&s))
            } else {
                (vec!["seeded large-record sequence"], format!("large sequence k={}", id - (1 << 40)))
            };
            let cuts: Vec<u64> = if ncuts > 3 { vec![] } else { [c0, c12 & 0xffff_ffff, c12 >> 32].iter().take(ncuts as usize).copied().collect() };
            rep.violation(
                "decoder wedged: one short stream consumed more than 10 CPU-seconds without returning",
                json!({"kind":"udp-decode","records":kinds,"stream_hex":stream_hex,"cuts":cuts,
                       "byte_at_a_time": ncuts > 3, "cpu_seconds": cpu}),
            );
            let code = rep.finish();
            std::process::exit(code);
        })
    };
    let slots = watch.slots.clone();
    let results = common::parallel(n, move |shard, nshards| {
        let slot = slots[shard].clone();
        slot.attach();
        let mut rng = Rng::derive(seed, 0xc06, shard as u64);
        let small = pool(&mut Rng::derive(seed, 0xc06, 1000), false);
        let mut local = Local::default();
        let mut bad: BTreeMap<String, serde_json::Value> = BTreeMap::new();
        let mut samples = vec![];
        let total = seq_count(small.len(), max_len);
        let mut idx = shard as u64;
        while idx < total {
            let sel = nth_seq(idx, small.len(), max_len);
            idx += nshards as u64;
            // thorough 4-sequences: sample 1 in 6 (the space is 13^4)
            if sel.len() == 4 && !rng.chance(1, 6) {
                continue;
            }
            let mut stream = vec![];
            let mut bounds = vec![];
            let mut kinds = vec![];
            for i in &sel {
                kinds.push(small[*i].kind);
                stream.extend_from_slice(&small[*i].bytes);
                bounds.push(stream.len());
            }
            let case = Case { kinds, stream: &stream, bounds, id: idx - nshards as u64, slot: &slot };
            let expected = ref_decode(&stream);
            let len = stream.len();
            local.distinct.push(common::fnv(&stream));
            if samples.len() < 2 && sel.len() >= 2 {
                samples.push(json!({"records": case.kinds, "stream_len": len, "expected_datagrams": expected.len()}));
            }
            // whole, byte-at-a-time
            run_case(&case, &[], &expected, &mut local, &mut bad);
            let all: Vec<usize> = (1..len).collect();
            run_case(&case, &all, &expected, &mut local, &mut bad);
            local.tally("segmentation: byte-at-a-time", 1);
            // every 1-cut
            for a in 1..len {
                run_case(&case, &[a], &expected, &mut local, &mut bad);
            }
            local.tally("segmentation: 1-cut", (len.saturating_sub(1)) as u64);
            // every 2-cut for short streams, field-boundary cuts otherwise
            let two_cut_limit = if thorough { 200 } else { 130 };
            if len <= two_cut_limit {
                for a in 1..len {
                    for b in a + 1..len {
                        run_case(&case, &[a, b], &expected, &mut local, &mut bad);
                    }
                }
                local.tally("segmentation: 2-cut (exhaustive)", ((len - 1) * (len.saturating_sub(2)) / 2) as u64);
            } else {
                let mut pts = vec![];
                for b in &case.bounds {
                    for d in [-1i64, 0, 1, 4, 5, 22, 40, 41, 42] {
                        let x = *b as i64 + d;
                        if x > 0 && (x as usize) < len {
                            pts.push(x as usize);
                        }
                    }
                }
                pts.sort();
                pts.dedup();
                for i in 0..pts.len() {
                    for j in i + 1..pts.len() {
                        run_case(&case, &[pts[i], pts[j]], &expected, &mut local, &mut bad);
                        local.tally("segmentation: 2-cut (field boundaries)", 1);
                    }
                }
            }
            // every 3-cut for very short streams; seeded 3-cuts otherwise
            let three_cut_limit = if thorough { 90 } else { 50 };
            if len <= three_cut_limit {
                for a in 1..len {
                    for b in a + 1..len {
                        for c in b + 1..len {
                            run_case(&case, &[a, b, c], &expected, &mut local, &mut bad);
                            local.tally("segmentation: 3-cut (exhaustive)", 1);
                        }
                    }
                }
            } else if len > 4 {
                for _ in 0..(if thorough { 60 } else { 12 }) {
                    let mut c = [rng.range(1, len as u64 - 1) as usize, rng.range(1, len as u64 - 1) as usize, rng.range(1, len as u64 - 1) as usize];
                    c.sort();
                    if c[0] < c[1] && c[1] < c[2] {
                        run_case(&case, &c, &expected, &mut local, &mut bad);
                        local.tally("segmentation: 3-cut (seeded)", 1);
                    }
                }
            }
        }
        // big records: seeded sequences mixing the large pool, boundary cuts + seeded cuts
        let bigp = pool(&mut Rng::derive(seed, 0xc06, 1000), true);
        let nbig = if thorough { 400 } else { 40 };
        for k in 0..nbig {
            if k % nshards != shard {
                continue;
            }
            let mut r = Rng::derive(seed, 0xc06b, k as u64);
            let cnt = r.range(2, 4) as usize;
            let mut stream = vec![];
            let mut bounds = vec![];
            let mut kinds = vec![];
            for _ in 0..cnt {
                let i = r.below(bigp.len() as u64) as usize;
                kinds.push(bigp[i].kind);
                stream.extend_from_slice(&bigp[i].bytes);
                bounds.push(stream.len());
            }
            let case = Case { kinds, stream: &stream, bounds, id: (1 << 40) + k as u64, slot: &slot };
            let expected = ref_decode(&stream);
            let len = stream.len();
            local.distinct.push(common::fnv(&stream));
            run_case(&case, &[], &expected, &mut local, &mut bad);
            for b in case.bounds.clone() {
                for d in [-1i64, 1, 3, 4, 5, 40, 41] {
                    let x = b as i64 + d;
                    if x > 0 && (x as usize) < len {
                        run_case(&case, &[x as usize], &expected, &mut local, &mut bad);
                    }
                }
            }
            for _ in 0..20 {
                let ncuts = r.range(1, 12) as usize;
                let mut cuts: Vec<usize> = (0..ncuts).map(|_| r.range(1, len as u64 - 1) as usize).collect();
                cuts.sort();
                cuts.dedup();
                run_case(&case, &cuts, &expected, &mut local, &mut bad);
                local.tally("segmentation: seeded multi-cut (large records)", 1);
            }
            // 64 KiB reads as the TCP source delivers them
            let cuts: Vec<usize> = (1..=len / 65536).map(|i| i * 65536).filter(|c| *c < len).collect();
            run_case(&case, &cuts, &expected, &mut local, &mut bad);
        }
        slot.detach();
        (local, bad, samples)
    });
    for (local, bad, samples) in results {
        for (sig, w) in bad {
            rep.violation(&sig, w);
        }
        for s in samples {
            rep.sample(s);
        }
        local.merge_into(rep);
    }
}

fn encoder(rep: &Reporter, args: &Args) {
    let mut rng = Rng::derive(args.seed, 0xc06e, 0);
    let addrs = [
        a4(1, 2, 3, 4, 0),
        a4(255, 255, 255, 255, 65535),
        a4(0, 0, 0, 1, 7),
        a6("::1", 53),
        a6("2001:db8::ff", 1),
        a6("::ffff:1.2.3.4", 9),
        a6("ffff:ffff:ffff:ffff:ffff:ffff:ffff:ffff", 65535),
    ];
    let sizes = [0usize, 1, 2, 255, 256, 1400, 65507];
    let mut n = 0u64;
    for s in &addrs {
        for d in &addrs {
            for sz in sizes {
                let payload = rng.bytes(sz);
                let got = udp_encode(*s, *d, Bytes::from(payload.clone()));
                let mut want = vec![];
                want.extend_from_slice(&((36 + sz) as u32).to_be_bytes());
                put_ip(&mut want, &s.ip());
                want.extend_from_slice(&s.port().to_be_bytes());
                put_ip(&mut want, &d.ip());
                want.extend_from_slice(&d.port().to_be_bytes());
                want.extend_from_slice(&payload);
                n += 1;
                rep.distinct(common::fnv(format!("enc|{}|{}|{}", s, d, sz).as_bytes()));
                match got {
                    Some(g) if g[..] == want[..] => {}
                    other => rep.violation(
                        "encoder output differs from PROTOCOL.md 6.4",
                        json!({"kind":"udp-encode","source":s.to_string(),"destination":d.to_string(),"payload_len":sz,
                               "got_prefix": other.map(|g| common::hex(&g[..g.len().min(44)]))}),
                    ),
                }
            }
        }
    }
    rep.evals(n);
    rep.tally("encoder cases", n);
}

/// What the client finds on the wire: a `_udp2` stream of the real HTTP/2 codec (in-memory session, real tunnel, real
/// direct forwarder, a UDP echo server on loopback) read by a client with a *small* flow-control window that does
/// not read for a while, so that replies arrive while the send window is exhausted or nearly so. Replies may be dropped
/// (datagrams), but whatever is written must be a sequence of whole 6.4 records carrying echoed payloads.
fn wire_part(rep: &std::sync::Arc<Reporter>, args: &Args) {
    use crate::kit::*;
    use std::time::Duration;
    use trusttunnel::verif::tunnel::{Fwd, Policy, Proto};
    let dir = crate::env::work_dir(&args.root, "c06w");
    let rt = crate::env::rt_multi(2);
    rt.block_on(async {
        let echo = tokio::net::UdpSocket::bind("127.0.0.1:0").await.expect("udp bind");
        let echo_addr = echo.local_addr().unwrap();
        tokio::spawn(async move { let mut b = vec![0u8; 65536]; loop { if let Ok((n, from)) = echo.recv_from(&mut b).await { let _ = echo.send_to(&b[..n], from).await; } } });
        let ctx = std::sync::Arc::new(crate::env::make_ctx(&dir, crate::env::CtxOpts { allow_private: true, ..Default::default() }));
        let src: SocketAddr = "10.8.0.2:40123".parse().unwrap();
        let mut id = 60_000u64;
        for round in 0..args.qt(2u64, 12u64) {
            for window in [150u32, 300, 700, 1500, 65_535] {
                id += 1;
                let sess = open_session(&ctx, Proto::H2, How::Tunnel(Fwd::Real, Policy::Default), "main.test", false, id);
                let Ok(Ok((mut send, conn))) = tokio::time::timeout(Duration::from_secs(5), h2::client::Builder::new().initial_window_size(window).handshake::<_, Bytes>(sess.client)).await else { rep.inconclusive("wire: HTTP/2 session not established"); continue };
                let driver = tokio::spawn(async move { let _ = conn.await; });
                let _ = futures::future::poll_fn(|cx| send.poll_ready(cx)).await;
                let Ok((fut, mut tx)) = send.send_request(http::Request::builder().method("CONNECT").uri("_udp2").body(()).unwrap(), false) else { driver.abort(); continue };
                let Ok(Ok(resp)) = tokio::time::timeout(Duration::from_secs(3), fut).await else { rep.inconclusive("wire: _udp2 not accepted"); driver.abort(); continue };
                if resp.status() != 200 { rep.inconclusive("wire: _udp2 not accepted"); driver.abort(); continue; }
                let mut body = resp.into_body();
                // a burst of datagrams whose echoes (140-byte records) meet a window that is not being reopened
                let n = 8 + (round % 3) as usize * 4;
                let mut sent: Vec<Vec<u8>> = vec![];
                for k in 0..n {
                    let mut payload = format!("w{}r{}k{:03}-", window, round, k).into_bytes();
                    payload.resize(100, b'a' + (k % 26) as u8);
                    let rec = encode_63(src, echo_addr, b"app", &payload, None);
                    tx.reserve_capacity(rec.len());
                    let _ = tokio::time::timeout(Duration::from_secs(3), futures::future::poll_fn(|cx| tx.poll_capacity(cx))).await;
                    if tx.send_data(Bytes::from(rec), false).is_err() { break; }
                    sent.push(payload);
                    if k % 3 == 2 { tokio::time::sleep(Duration::from_millis(5)).await; }
                }
                tokio::time::sleep(Duration::from_millis(150)).await;
                // now read what was written, reopening the window as it is consumed
                let mut wire: Vec<u8> = vec![];
                loop {
                    match tokio::time::timeout(Duration::from_millis(400), body.data()).await {
                        Ok(Some(Ok(b))) => { let _ = body.flow_control().release_capacity(b.len()); wire.extend_from_slice(&b); }
                        _ => break,
                    }
                }
                rep.evals(1);
                rep.distinct(common::fnv(format!("wire|{}|{}", window, round).as_bytes()));
                // parse: [len u32 = 36 + payload][src 16+2][dst 16+2][payload]
                let mut pos = 0usize;
                let mut whole = 0usize;
                let mut problem: Option<String> = None;
                let mut seen_payloads: Vec<Vec<u8>> = vec![];
                while pos < wire.len() {
                    if wire.len() - pos < 4 { problem = Some(format!("{} stray byte(s) at the end of the stream", wire.len() - pos)); break; }
                    let len = u32::from_be_bytes([wire[pos], wire[pos + 1], wire[pos + 2], wire[pos + 3]]) as usize;
                    if len < 36 || len > 36 + MAX_UDP_PAYLOAD { problem = Some(format!("record at offset {} declares length {}", pos, len)); break; }
                    if wire.len() - pos - 4 < len { problem = Some(format!("truncated record at offset {}: declared {} bytes, only {} follow", pos, len, wire.len() - pos - 4)); break; }
                    let rec = &wire[pos + 4..pos + 4 + len];
                    let rsrc = SocketAddr::new(ref_ip(&rec[..16]), u16::from_be_bytes([rec[16], rec[17]]));
                    let rdst = SocketAddr::new(ref_ip(&rec[18..34]), u16::from_be_bytes([rec[34], rec[35]]));
                    let payload = rec[36..].to_vec();
                    if rsrc != echo_addr || rdst != src { problem = Some(format!("record at offset {} labelled {} -> {}", pos, rsrc, rdst)); break; }
                    if !sent.contains(&payload) { problem = Some(format!("record at offset {} carries a payload that was never sent", pos)); break; }
                    if seen_payloads.contains(&payload) { problem = Some(format!("record at offset {} repeats a datagram", pos)); break; }
                    seen_payloads.push(payload);
                    whole += 1;
                    pos += 4 + len;
                }
                let w = json!({"kind":"udp-wire","protocol":"h2","client_stream_window":window,"datagrams_sent":sent.len(),"bytes_on_the_wire":wire.len(),"whole_records":whole,"problem":problem});
                if let Some(p) = &problem { rep.violation(&format!("wire: the stream to the client is not a sequence of whole 6.4 records ({})", p.split(" at offset").next().unwrap_or(p).split(':').next().unwrap_or(p)), w); }
                else if whole == 0 { rep.inconclusive("wire: no echo came back at all"); }
                else { rep.tally("wire: stream to a slow HTTP/2 client is a sequence of whole 6.4 records", 1); rep.tally("wire: echoes delivered", whole as u64); rep.tally("wire: echoes dropped (window closed)", (sent.len() - whole) as u64); }
                drop(tx);
                driver.abort();
            }
        }
    });
}

pub fn run(args: &Args) -> i32 {
    let rep = std::sync::Arc::new(Reporter::new(
        args,
        "exploration",
        "case = (record sequence, segmentation); sequences enumerate a pool of 13 small record kinds \
         (valid v4/v6, zero-length name/payload, ::1 endpoint, length 0/1/36, length shorter than name, non-UTF-8 name) \
         to length 3 (quick) / 4 (thorough, sampled 1:6) plus seeded sequences with 60-65 KB records; \
         distinct_nontrivial counts distinct byte streams (every stream has >= 1 record; each is decoded under \
         whole / byte-at-a-time / all 1-cuts / all 2-cuts (short) / 3-cuts).",
    ));
    rep.assume("reference decoder written from PROTOCOL.md 6.3/11.2; payloads in (64000, 65507] are EITHER (accepted or skipped)");
    rep.assume("app name absent and empty are treated as equal");
    if let Some(p) = &args.replay {
        return replay(&rep, p);
    }
    sweep(&rep, args);
    encoder(&rep, args);
    wire_part(&rep, args);
    rep.finish()
}

fn replay(rep: &std::sync::Arc<Reporter>, p: &std::path::Path) -> i32 {
    let v: serde_json::Value = serde_json::from_str(&std::fs::read_to_string(p).unwrap_or_default()).unwrap_or_default();
    let w = &v["witness"];
    let hexs = w["stream_hex"].as_str().unwrap_or("");
    if hexs.contains("..") || w["kind"] != "udp-decode" {
        println!("witness not self-contained; re-running the sweep");
        sweep(rep, &rep.args.clone());
        return rep.finish();
    }
    let stream = common::unhex(hexs);
    let cuts: Vec<usize> = w["cuts"].as_array().map(|a| a.iter().filter_map(|x| x.as_u64().map(|y| y as usize)).collect()).unwrap_or_default();
    let expected = ref_decode(&stream);
    let mut chunks: Vec<&[u8]> = vec![];
    let mut prev = 0;
    for c in &cuts {
        chunks.push(&stream[prev..*c]);
        prev = *c;
    }
    chunks.push(&stream[prev..]);
    rep.evals(1);
    match common::catch(|| real_decode(&chunks)) {
        Ok(decoded) => {
            println!("replay: decoded {} datagrams, reference {}", decoded.len(), expected.len());
            if compare(&decoded, &expected).is_some() {
                rep.violation(v["signature"].as_str().unwrap_or("replay"), w.clone());
            }
        }
        Err(e) => rep.violation(v["signature"].as_str().unwrap_or("replay"), json!({"panic": e})),
    }
    rep.finish()
}
