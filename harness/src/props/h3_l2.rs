//! HTTP/3 (QUIC) loopback scenarios shared by several properties: the real Core::listen with the QUIC listener
//! enabled, a quiche client (crate::h3c), the real DirectForwarder against loopback canaries.

use crate::common::{self, Args, Reporter};
use crate::env;
use crate::h3c::{H3Stream, H3};
use crate::kit::basic;
use crate::l2::*;
use serde_json::json;
use std::net::SocketAddr;
use std::sync::atomic::{AtomicU64, Ordering};
use std::sync::Arc;
use std::time::Duration;
use tokio::io::{AsyncReadExt, AsyncWriteExt};
use tokio::net::TcpListener;

const T: Duration = Duration::from_secs(6);

fn hdr(n: &str, v: &[u8]) -> (String, Vec<u8>) { (n.to_string(), v.to_vec()) }

async fn h3_connect(rep: &Reporter, addr: SocketAddr, sni: &str) -> Option<H3> {
    match H3::connect(addr, sni, &[b"h3"], Duration::from_secs(5), 8000).await {
        Ok(c) => Some(c),
        Err(e) => { rep.inconclusive(&format!("h3: QUIC session could not be established ({})", e.chars().take(50).collect::<String>())); None }
    }
}

/// counting TCP canary: accepts, counts, echoes
async fn canary() -> (SocketAddr, Arc<AtomicU64>) {
    let l = TcpListener::bind("127.0.0.1:0").await.expect("bind");
    let addr = l.local_addr().unwrap();
    let n = Arc::new(AtomicU64::new(0));
    let n2 = n.clone();
    tokio::spawn(async move {
        loop {
            let Ok((mut s, _)) = l.accept().await else { continue };
            n2.fetch_add(1, Ordering::SeqCst);
            tokio::spawn(async move { let mut b = vec![0u8; 65536]; loop { match s.read(&mut b).await { Ok(0) | Err(_) => break, Ok(k) => { if s.write_all(&b[..k]).await.is_err() { break; } } } } });
        }
    });
    (addr, n)
}

fn registry(clients: &[(String, String)]) -> Option<Arc<dyn trusttunnel::authentication::Authenticator>> {
    use trusttunnel::authentication::registry_based::{Client, RegistryBasedAuthenticator};
    Some(Arc::new(RegistryBasedAuthenticator::new(&clients.iter().map(|(u, p)| Client { username: u.clone(), password: p.clone() }).collect::<Vec<_>>())))
}

fn closed_tcp_port() -> u16 { let l = std::net::TcpListener::bind("127.0.0.1:0").unwrap(); l.local_addr().unwrap().port() }

// ------------------------------------------------------------------ C10 over HTTP/3

pub fn c10_h3(rep: &Arc<Reporter>, args: &Args) {
    let debug = args.has_flag("--h3-debug");
    if debug { crate::common::logcap::install(true); }
    let dir = env::work_dir(&args.root, "c10h3");
    let rt = env::rt_multi(4);
    rt.block_on(async {
        let (open, accepted) = canary().await;
        let closed = closed_tcp_port();
        for allow in [true, false] {
            let hosts = Hosts { main: vec![("main.test".into(), vec![])], ..Default::default() };
            let ep = start_endpoint(&dir, "127.0.0.1", &hosts, None, vec![], (true, true, true), move |b| b.allow_private_network_connections(allow)).await;
            let Some(mut c) = h3_connect(rep, ep.addr, "main.test").await else { ep.task.abort(); continue };
            // (method, scheme, authority, path, expected status, expected X-Warning prefix, names host, description)
            let open_s = open.to_string();
            let closed_s = format!("127.0.0.1:{}", closed);
            let mut cases: Vec<(&str, Option<&str>, String, Option<&str>, u16, Option<&str>, bool, &str)> = vec![
                ("CONNECT", None, "_check".into(), None, 200, None, false, "health check"),
                ("GET", Some("https"), "_check".into(), Some("/"), 502, None, false, "GET on a reserved authority"),
                ("CONNECT", None, "_udp2".into(), None, 200, None, false, "udp multiplexer"),
                ("CONNECT", None, "noport.dest.test".into(), None, 502, Some("300"), false, "CONNECT without a port"),
            ];
            if allow {
                cases.push(("CONNECT", None, open_s.clone(), None, 200, None, false, "loopback listener, private allowed"));
                cases.push(("CONNECT", None, closed_s.clone(), None, 502, Some("300"), false, "closed port (ECONNREFUSED)"));
            } else {
                cases.push(("CONNECT", None, open_s.clone(), None, 502, Some("311"), true, "policy refusal loopback"));
                cases.push(("CONNECT", None, "10.1.2.3:80".into(), None, 502, Some("310"), true, "policy refusal private"));
                cases.push(("CONNECT", None, "localhost:1".into(), None, 502, Some("311"), true, "name resolving to loopback"));
            }
            let before = accepted.load(Ordering::SeqCst);
            // all at once on one session (each stream must get its own answer), then one by one
            let mut ids = vec![];
            for (m, s, a, p, ..) in &cases { ids.push(c.request(m, *s, a, *p, &[], *m != "CONNECT").ok()); }
            let want: Vec<u64> = ids.iter().flatten().copied().collect();
            c.run_until(T, |c| want.iter().all(|id| c.streams.get(id).map(|s| s.status().is_some() || s.reset.is_some()).unwrap_or(false))).await;
            for (k, (m, _s, a, _p, status, warn, names_host, what)) in cases.iter().enumerate() {
                rep.evals(1);
                rep.distinct(common::fnv(format!("c10h3|{}|{}|{}", allow, m, what).as_bytes()));
                let st: H3Stream = ids[k].map(|id| c.stream(id)).unwrap_or_default();
                let w = json!({"kind":"h3-tunnel-request","private_allowed":allow,"method":m,"authority":a,"case":what,"response":st.summary(),"x-warning":st.header("x-warning"),"expected_status":status,"expected_warning":warn});
                if k == 0 && rep.want_sample() { rep.sample(w.clone()); }
                if st.final_heads() != 1 { rep.violation(&format!("H3 {}: {} final responses on a stream", if *m == "CONNECT" { "CONNECT" } else { "non-CONNECT" }, st.final_heads()), w); continue; }
                if st.status() != Some(*status) { rep.violation(&format!("H3 '{}': status {:?} instead of {}", what, st.status(), status), w); continue; }
                if let Some(code) = warn { if !st.header("x-warning").map(|v| v.starts_with(code)).unwrap_or(false) { rep.violation(&format!("H3 '{}': X-Warning {:?} instead of {}", what, st.header("x-warning").map(|v| v.split(' ').next().unwrap_or("").to_string()), code), w); continue; } }
                if *names_host && st.header("x-adguard-vpn-error").is_none() { rep.violation("H3 310/311 response does not name the offending host", w); continue; }
                rep.tally(&format!("H3 {} -> {}{}", if *m == "CONNECT" { "CONNECT" } else { "non-CONNECT" }, status, warn.map(|x| format!("/{}", x)).unwrap_or_default()), 1);
            }
            let got = accepted.load(Ordering::SeqCst) - before;
            let want_conn = if allow { 1 } else { 0 };
            if got != want_conn { rep.violation("H3: number of outbound connections to the canary differs from the number of requests that must connect", json!({"kind":"h3-tunnel-request","private_allowed":allow,"connections":got,"expected":want_conn})); }
            c.close().await;
            ep.task.abort();
        }
    });
    if debug { for r in crate::common::logcap::drain() { if r.target.starts_with("trusttunnel") { println!("{} [{}] {}", r.level, r.target, r.message.chars().take(260).collect::<String>()); } } }
    rep.set("h3", json!("HTTP/3 exercised: real Core::listen with the QUIC listener, quiche client, real DirectForwarder on loopback"));
}

// ------------------------------------------------------------------ C18 over HTTP/3

pub fn c18_h3(rep: &Arc<Reporter>, args: &Args) {
    let dir = env::work_dir(&args.root, "c18h3");
    let rt = env::rt_multi(4);
    rt.block_on(async {
        // credentials are configured and never supplied: none of these channels may ask for them
        let hosts = Hosts { main: vec![("main.test".into(), vec![])], ping: vec!["ping.test".into()], speedtest: vec!["speed.test".into()], ..Default::default() };
        let clients = vec![("u-h3".to_string(), "p-h3".to_string())];
        let ep = start_endpoint(&dir, "127.0.0.1", &hosts, registry(&clients), clients, (true, true, true), |b| b.speedtest_enable(true)).await;
        // ping: every method, one QUIC connection per request, request finished with its head (as real clients do)
        for m in ["GET", "HEAD", "POST", "OPTIONS", "GET"] {
            let Some(mut c) = h3_connect(rep, ep.addr, "ping.test").await else { continue };
            let r = c.roundtrip(m, Some("https"), "ping.test", Some("/"), &[], true, true, T).await;
            rep.evals(1);
            rep.distinct(common::fnv(format!("c18h3|ping|{}", m).as_bytes()));
            let st = r.map(|x| x.1).unwrap_or_default();
            let w = json!({"kind":"h3-ping","method":m,"response":st.summary()});
            if st.status() != Some(200) || st.final_heads() != 1 { rep.violation("H3 ping: request not answered with exactly one 200", w); }
            else if st.body_len != 0 { rep.violation("H3 ping: 200 carries a body", w); }
            else { rep.tally("H3 ping: 200, empty, no credentials asked", 1); }
            c.close().await;
        }
        // speedtest: exact download length, bounds by status, small upload
        if let Some(mut c) = h3_connect(rep, ep.addr, "speed.test").await {
            for (path, want_status, want_len) in [("/1mb.bin", 200u16, Some(1u64 << 20)), ("/2mb.bin", 200, Some(2 << 20)), ("/0mb.bin", 400, None), ("/101mb.bin", 400, None), ("/1MB.bin", 400, None), ("/x/1mb.bin", 400, None)] {
                let id = match c.request("GET", Some("https"), "speed.test", Some(path), &[], true) { Ok(id) => id, Err(e) => { rep.inconclusive(&format!("h3: request failed ({})", e)); continue } };
                c.set_count_only(id);
                c.run_until(Duration::from_secs(20), |c| c.streams.get(&id).map(|s| s.finished || s.reset.is_some()).unwrap_or(false)).await;
                let st = c.stream(id);
                rep.evals(1);
                rep.distinct(common::fnv(format!("c18h3|dl|{}", path).as_bytes()));
                let w = json!({"kind":"h3-speedtest-download","path":path,"response":st.summary(),"expected_status":want_status,"expected_body":want_len});
                if st.status() != Some(want_status) || st.final_heads() != 1 { rep.violation("H3 speedtest download: wrong status", w); }
                else if let Some(n) = want_len { if st.body_len != n || !st.finished { rep.violation("H3 speedtest download: body length differs from N MiB", w); } else { rep.tally("H3 download: exact body length", 1); } }
                else { rep.tally("H3 download: out-of-range / malformed path answered 400", 1); }
            }
            c.close().await;
        }
        for (len, declared, want) in [(70_000usize, 70_000u64, 200u16), (0, 120 * (1 << 20) + 1, 400), (10, 10, 200), (0, 121 * (1 << 20) - 1, 400), (1, 1, 200)] {
            let Some(mut c) = h3_connect(rep, ep.addr, "speed.test").await else { continue };
            {
                let id = match c.request("POST", Some("https"), "speed.test", Some("/upload.html"), &[hdr("content-length", declared.to_string().as_bytes())], false) { Ok(id) => id, Err(e) => { rep.inconclusive(&format!("h3: request failed ({})", e)); continue } };
                let body = vec![0x5au8; len];
                let _ = c.send_body(id, &body, true, Duration::from_secs(10)).await;
                c.run_until(T, |c| c.streams.get(&id).map(|s| s.status().is_some() || s.reset.is_some()).unwrap_or(false)).await;
                let st = c.stream(id);
                rep.evals(1);
                rep.distinct(common::fnv(format!("c18h3|ul|{}|{}", len, declared).as_bytes()));
                let w = json!({"kind":"h3-speedtest-upload","content_length":declared,"sent":len,"response":st.summary(),"expected_status":want});
                if st.status() != Some(want) || st.final_heads() != 1 { rep.violation("H3 speedtest upload: wrong status", w); } else { rep.tally(&format!("H3 upload -> {}", want), 1); }
            }
            c.close().await;
        }
        ep.task.abort();
    });
}

/// Reverse proxy over HTTP/3: selected by SNI and by the path mask on the main host; the origin must receive
/// the HTTP/1.1 form of the request with exactly one X-Original-Protocol (the endpoint's), request bodies
/// included, and its response must reach the client unchanged. A path that only contains the mask is not proxied.
pub fn c18_h3_rp(rep: &Arc<Reporter>, args: &Args) {
    const BODY: usize = 300_000;
    /// what the origin saw on one connection
    #[derive(Clone, Default)]
    struct Conn { bytes: Vec<u8>, head_end: usize, body_before_response: Option<usize> }
    let dir = env::work_dir(&args.root, "c18h3rp");
    let rt = env::rt_multi(4);
    rt.block_on(async {
        let origin = TcpListener::bind("127.0.0.1:0").await.expect("bind");
        let origin_addr = origin.local_addr().unwrap();
        let seen: Arc<std::sync::Mutex<Vec<Conn>>> = Default::default();
        {
            let seen = seen.clone();
            tokio::spawn(async move {
                loop {
                    let Ok((mut s, _)) = origin.accept().await else { continue };
                    let seen = seen.clone();
                    tokio::spawn(async move {
                        let mut buf = vec![0u8; 65536];
                        let mut got: Vec<u8> = vec![];
                        let head_end = loop {
                            if let Some(p) = got.windows(4).position(|w| w == b"\r\n\r\n") { break p + 4; }
                            match tokio::time::timeout(Duration::from_secs(10), s.read(&mut buf)).await { Ok(Ok(n)) if n > 0 => got.extend_from_slice(&buf[..n]), _ => { seen.lock().unwrap().push(Conn { bytes: got, ..Default::default() }); return; } }
                        };
                        let slot = { let mut g = seen.lock().unwrap(); g.push(Conn { bytes: got.clone(), head_end, body_before_response: None }); g.len() - 1 };
                        let head = String::from_utf8_lossy(&got[..head_end]).to_lowercase();
                        let want_body: usize = head.lines().find_map(|l| l.strip_prefix("content-length:").and_then(|v| v.trim().parse().ok())).unwrap_or(0);
                        // like any ordinary HTTP server: the whole request first (up to 4 s of patience), then the response
                        let deadline = tokio::time::Instant::now() + Duration::from_secs(4);
                        while got.len() < head_end + want_body {
                            match tokio::time::timeout_at(deadline, s.read(&mut buf)).await { Ok(Ok(n)) if n > 0 => { got.extend_from_slice(&buf[..n]); seen.lock().unwrap()[slot].bytes = got.clone(); } _ => break }
                        }
                        seen.lock().unwrap()[slot].body_before_response = Some(got.len() - head_end);
                        let _ = s.write_all(format!("HTTP/1.1 200 OK\r\nContent-Length: {}\r\nX-Origin: yes\r\n\r\n", BODY).as_bytes()).await;
                        let _ = s.write_all(&common::prng::coded_stream(0xc18, 3, 0, BODY)).await;
                        let _ = s.shutdown().await;
                        let _ = tokio::time::timeout(Duration::from_secs(10), async { loop { match s.read(&mut buf).await { Ok(0) | Err(_) => break, Ok(n) => { got.extend_from_slice(&buf[..n]); seen.lock().unwrap()[slot].bytes = got.clone(); } } } }).await;
                    });
                }
            });
        }
        let hosts = Hosts { main: vec![("main.test".into(), vec![])], reverse_proxy: vec!["rp.test".into()], ..Default::default() };
        let clients = vec![("u-h3".to_string(), "p-h3".to_string())];
        let ep = start_endpoint(&dir, "127.0.0.1", &hosts, registry(&clients), clients, (true, true, true), move |b| {
            b.reverse_proxy(trusttunnel::settings::ReverseProxySettings::builder().server_address(origin_addr).unwrap().path_mask("/rp".into()).build().unwrap())
        }).await;
        let upload = common::prng::coded_stream(0xc18, 4, 0, 5000);
        // (name, sni, method, path, body, proxied?)
        let cases: Vec<(&str, &str, &str, &str, Option<&[u8]>, bool)> = vec![
            ("selected by SNI", "rp.test", "GET", "/chat?x=1", None, true),
            ("selected by the path mask on the main host", "main.test", "GET", "/rp/y?z=2", None, true),
            ("POST with a body, selected by SNI", "rp.test", "POST", "/submit", Some(&upload), true),
            ("path containing the mask elsewhere than at its start", "main.test", "GET", "/app/rp/y", None, false),
        ];
        for (name, sni, method, path, body, proxied) in cases {
            let mut c = match H3::connect(ep.addr, sni, &[b"h3"], Duration::from_secs(5), 30_000).await {
                Ok(c) => c,
                Err(e) => { rep.inconclusive(&format!("h3: QUIC session could not be established ({})", e.chars().take(50).collect::<String>())); continue }
            };
            seen.lock().unwrap().clear();
            let mut headers = vec![hdr("x-client-header", b"abc"), hdr("x-original-protocol", b"HTTP1")];
            if let Some(b) = body { headers.push(hdr("content-length", b.len().to_string().as_bytes())); }
            let id = match c.request(method, Some("https"), "10.9.8.7:81", Some(path), &headers, body.is_none()) { Ok(id) => id, Err(e) => { rep.inconclusive(&format!("h3: request failed ({})", e)); continue } };
            if let Some(b) = body { let _ = c.send_body(id, b, true, Duration::from_secs(10)).await; }
            c.run_until(Duration::from_secs(20), |c| c.streams.get(&id).map(|s| s.finished || s.reset.is_some()).unwrap_or(false) || c.closed.is_some()).await;
            if body.is_some() { c.run_until(Duration::from_millis(500), |_| false).await; }
            let st = c.stream(id);
            rep.evals(1);
            rep.distinct(common::fnv(format!("c18h3|rp|{}", name).as_bytes()));
            let origin_saw = seen.lock().unwrap().clone();
            let first = origin_saw.first().cloned().unwrap_or_default();
            let origin_text = String::from_utf8_lossy(&first.bytes[..if first.head_end > 0 { first.head_end } else { first.bytes.len() }]).to_string();
            let w = json!({"kind":"h3-reverse-proxy","case":name,"sni":sni,"request":format!("{} {}", method, path),"origin_received":origin_text.chars().take(400).collect::<String>(),"response":st.summary(),"x_origin":st.header("x-origin"),"connection_closed":c.closed});
            if !proxied {
                if !origin_saw.is_empty() { rep.violation("H3: a request whose path only contains the reverse-proxy mask (not at its start) was proxied to the origin", w); }
                else { rep.tally("H3 reverse proxy: path containing the mask elsewhere -> not proxied", 1); }
                c.close().await;
                continue;
            }
            if origin_saw.is_empty() || first.head_end == 0 { rep.violation(&format!("H3 reverse-proxy request not delivered to the origin ({})", name), w); c.close().await; continue; }
            let lower = origin_text.to_lowercase();
            let head_only = lower.split("\r\n\r\n").next().unwrap_or("").to_string();
            let xop: Vec<&str> = head_only.lines().filter(|l| l.starts_with("x-original-protocol:")).collect();
            let mut ok = true;
            if !origin_text.starts_with(&format!("{} {} HTTP/1.1\r\n", method, path)) || !head_only.contains("x-client-header: abc") { ok = false; rep.violation("H3: origin did not receive the HTTP/1.1 form of the request", w.clone()); }
            if xop.len() != 1 || xop[0].trim() != "x-original-protocol: http3" { ok = false; let mut w2 = w.clone(); w2["x_original_protocol_lines_at_origin"] = json!(xop); rep.violation("H3: origin did not receive exactly one X-Original-Protocol header with the endpoint's value", w2); }
            if let Some(b) = body {
                let got_body = first.bytes[first.head_end..].to_vec();
                let before = first.body_before_response.unwrap_or(0);
                let mut w2 = w.clone(); w2["body_sent_len"] = json!(b.len()); w2["body_at_origin_before_it_answered"] = json!(before); w2["body_at_origin_in_the_end"] = json!(got_body.len()); w2["origin_patience_secs"] = json!(4);
                if got_body != b { ok = false; rep.violation("H3: request body did not reach the reverse-proxy origin unchanged", w2); }
                else if before < b.len() { ok = false; rep.violation("reverse proxy (HTTP/3): request body withheld from the origin until the origin has answered", w2); }
            }
            let want = common::prng::coded_stream(0xc18, 3, 0, BODY);
            if st.status() != Some(200) || st.final_heads() != 1 || st.header("x-origin") != Some("yes") { ok = false; rep.violation("H3: origin's response head was not relayed to the client", w.clone()); }
            else if st.body != want || !st.finished {
                ok = false;
                let mut w2 = w.clone(); w2["first_differing_offset"] = json!(st.body.iter().zip(want.iter()).position(|(a, b)| a != b)); w2["expected_body_len"] = json!(BODY);
                rep.violation("H3: origin's response body was not relayed unchanged (or the stream was not finished)", w2);
            }
            if ok { rep.tally(&format!("H3 reverse proxy, {}: request (HTTP/1.1 form, X-Original-Protocol: HTTP3) and response relayed", name), 1); }
            c.close().await;
        }
        ep.task.abort();
    });
}

// ------------------------------------------------------------------ C01 over HTTP/3

pub fn c01_h3(rep: &Arc<Reporter>, args: &Args) {
    let dir = env::work_dir(&args.root, "c01h3");
    let rt = env::rt_multi(4);
    rt.block_on(async {
        let (open, accepted) = canary().await;
        let hosts = Hosts { main: vec![("main.test".into(), vec![])], ..Default::default() };
        let clients = vec![("alice".to_string(), "s3cret-h3".to_string()), ("bob".to_string(), "hunter2-h3".to_string())];
        let ep = start_endpoint(&dir, "127.0.0.1", &hosts, registry(&clients), clients, (true, true, true), |b| b.allow_private_network_connections(true)).await;
        let Some(mut c) = h3_connect(rep, ep.addr, "main.test").await else { ep.task.abort(); return };
        let good = format!("Basic {}", basic("alice", "s3cret-h3"));
        let good2 = format!("Basic {}", basic("bob", "hunter2-h3"));
        let auths: Vec<(&str, Option<Vec<u8>>, bool)> = vec![
            ("absent", None, false), ("valid", Some(good.clone().into_bytes()), true), ("valid (second user)", Some(good2.into_bytes()), true),
            ("wrong password", Some(format!("Basic {}", basic("alice", "nope")).into_bytes()), false), ("wrong user", Some(format!("Basic {}", basic("mallory", "s3cret-h3")).into_bytes()), false),
            ("other scheme", Some(b"Bearer abcdef".to_vec()), false), ("malformed base64", Some(b"Basic !!!!".to_vec()), false), ("empty", Some(b"".to_vec()), false),
            ("user of one pair with the password of the other", Some(format!("Basic {}", basic("alice", "hunter2-h3")).into_bytes()), false),
        ];
        // a session-long history: every request is judged on its own, whatever came before it on the session
        let mut order: Vec<usize> = (0..auths.len()).collect();
        let mut r = common::Rng::derive(args.seed, 0xc01f3, 0);
        for _ in 0..args.qt(3, 40) { let k = r.below(auths.len() as u64) as usize; order.push(k); order.push(3); order.push(3); order.push(1); order.push(0); }
        let open_s = open.to_string();
        for (n, k) in order.iter().enumerate() {
            let (name, value, pass) = &auths[*k];
            for (kind, authority) in [("CONNECT host:port", open_s.as_str()), ("_check", "_check"), ("_udp2", "_udp2")] {
                let before = accepted.load(Ordering::SeqCst);
                let headers: Vec<(String, Vec<u8>)> = value.iter().map(|v| hdr("proxy-authorization", v)).collect();
                let st = c.roundtrip("CONNECT", None, authority, None, &headers, false, false, T).await.map(|x| x.1).unwrap_or_default();
                tokio::time::sleep(Duration::from_millis(if *pass { 0 } else { 30 })).await;
                let egress = accepted.load(Ordering::SeqCst) - before;
                rep.evals(1);
                rep.distinct(common::fnv(format!("c01h3|{}|{}|{}", name, kind, n.min(20)).as_bytes()));
                let w = json!({"kind":"h3-auth","credentials":name,"request":kind,"position_in_session":n,"response":st.summary(),"challenge":st.header("proxy-authenticate"),"outbound_connections":egress});
                if n == 1 && kind == "_check" && rep.want_sample() { rep.sample(w.clone()); }
                if *pass {
                    if st.status() != Some(200) { rep.violation("H3: request with valid credentials not accepted", w); }
                    else if kind == "CONNECT host:port" && egress != 1 { rep.violation("H3: accepted CONNECT did not open exactly one outbound connection", w); }
                    else { rep.tally("H3 valid credentials -> 200", 1); }
                } else if st.status() != Some(407) || !st.header("proxy-authenticate").map(|v| v.starts_with("Basic")).unwrap_or(false) {
                    rep.violation("H3: request without valid credentials not answered 407 + Basic challenge", w);
                } else if egress != 0 {
                    rep.violation("H3: outbound connection for a request without valid credentials", w);
                } else { rep.tally("H3 invalid/absent credentials -> 407, no egress", 1); }
            }
        }
        c.close().await;
        ep.task.abort();
    });
}

// ------------------------------------------------------------------ C05 / C04 on QUIC

pub fn c05_h3(rep: &Arc<Reporter>, args: &Args) {
    let dir = env::work_dir(&args.root, "c05h3");
    let rt = env::rt_multi(4);
    rt.block_on(async {
        let hosts = Hosts { main: vec![("main.test".into(), vec!["alt.test".into()])], ping: vec!["ping.test".into()], speedtest: vec!["speed.test".into()], ..Default::default() };
        for quic in [true, false] {
            let ep = start_endpoint(&dir, "127.0.0.1", &hosts, None, vec![], (true, true, quic), |b| b.speedtest_enable(true)).await;
            for (sni, cert_of, probe) in [("main.test", Some("main.test"), "tunnel"), ("alt.test", Some("main.test"), "tunnel"), ("tok-canarysni.main.test", Some("main.test"), "tunnel"),
                                          ("ping.test", Some("ping.test"), "ping"), ("speed.test", Some("speed.test"), "speedtest"), ("nope.test", None, ""), ("xmain.test", None, "")] {
                let r = H3::connect(ep.addr, sni, &[b"h3"], Duration::from_secs(if quic && cert_of.is_some() { 5 } else { 2 }), 4000).await;
                rep.evals(1);
                rep.distinct(common::fnv(format!("c05h3|{}|{}", quic, sni).as_bytes()));
                let w = json!({"kind":"quic-demux","quic_listener":quic,"sni":sni,"session":r.as_ref().map(|_| "established".to_string()).unwrap_or_else(|e| e.clone())});
                match (r, quic, cert_of) {
                    (Ok(c), false, _) => { rep.violation("HTTP/3 session established although the QUIC listener is disabled", w); c.close().await; }
                    (Err(_), false, _) => rep.tally("quic: no session when the QUIC listener is disabled", 1),
                    (Err(_), true, Some(_)) => rep.violation("QUIC: SNI designating a configured host refused", w),
                    (Err(_), true, None) => rep.tally("quic: SNI designating no entry refused", 1),
                    (Ok(c), true, None) => { rep.tally("quic either: SNI designating no entry served", 1); c.close().await; }
                    (Ok(mut c), true, Some(host)) => {
                        if c.alpn != b"h3" { rep.violation("QUIC: negotiated protocol is not h3", w.clone()); }
                        if c.peer_cert.as_deref() != ep.certs.get(host).map(|d| d.as_slice()) { rep.violation("QUIC: connection served with the certificate of another host entry", w.clone()); }
                        // channel behaviour
                        let st = match probe {
                            "ping" => c.roundtrip("GET", Some("https"), sni, Some("/"), &[], true, true, T).await.map(|x| x.1).unwrap_or_default(),
                            "speedtest" => c.roundtrip("GET", Some("https"), sni, Some("/0mb.bin"), &[], true, false, T).await.map(|x| x.1).unwrap_or_default(),
                            _ => c.roundtrip("CONNECT", None, "_check", None, &[], false, false, T).await.map(|x| x.1).unwrap_or_default(),
                        };
                        let want = if probe == "speedtest" { 400 } else { 200 };
                        if st.status() != Some(want) { let mut w2 = w.clone(); w2["probe"] = json!(probe); w2["response"] = json!(st.summary()); rep.violation("QUIC: connection not routed to the channel of the host its SNI designates", w2); }
                        else { rep.tally(&format!("quic: {} host served with its certificate, h3 and channel", probe), 1); }
                        c.close().await;
                    }
                }
            }
            ep.task.abort();
        }
    });
}

pub fn c04_h3(rep: &Arc<Reporter>, args: &Args) {
    use trusttunnel::rules::{Rule, RuleAction, RulesConfig, RulesEngine};
    let dir = env::work_dir(&args.root, "c04h3");
    let rt = env::rt_multi(4);
    rt.block_on(async {
        let hosts = Hosts { main: vec![("main.test".into(), vec![])], ..Default::default() };
        let mk = |rules: &[(Option<&str>, Option<&str>, bool)]| RulesEngine::from_config(RulesConfig { rule: rules.iter().map(|(c, p, allow)| Rule {
            cidr: c.map(String::from), client_random_prefix: p.map(String::from), action: if *allow { RuleAction::Allow } else { RuleAction::Deny } }).collect() });
        for (name, rules, want) in [
            ("no rules", vec![], true), ("deny 127.0.0.0/8", vec![(Some("127.0.0.0/8"), None, false)], false), ("deny 10.0.0.0/8", vec![(Some("10.0.0.0/8"), None, false)], true),
            ("allow 127/8 then deny all", vec![(Some("127.0.0.0/8"), None, true), (None, None, false)], true), ("deny all", vec![(None, None, false)], false),
            ("deny client random 00/00 (every random)", vec![(None, Some("00/00"), false)], false), ("deny client random prefix deadbeefdeadbeef", vec![(None, Some("deadbeefdeadbeef"), false)], true),
        ] {
            let e = mk(&rules);
            let ep = start_endpoint(&dir, "127.0.0.1", &hosts, None, vec![], (true, true, true), move |b| b.rules_engine(e)).await;
            for attempt in 0..2 {
                let r = H3::connect(ep.addr, "main.test", &[b"h3"], Duration::from_secs(if want { 5 } else { 2 }), 3000).await;
                rep.evals(1);
                rep.distinct(common::fnv(format!("c04h3|{}|{}", name, attempt).as_bytes()));
                let (served, detail) = match r {
                    Err(e) => (false, e),
                    Ok(mut c) => { let st = c.roundtrip("CONNECT", None, "_check", None, &[], false, false, Duration::from_secs(if want { 5 } else { 2 })).await.map(|x| x.1).unwrap_or_default(); c.close().await; (st.status().is_some(), st.summary()) }
                };
                let w = json!({"kind":"quic-rules","scenario":name,"request_processed":served,"detail":detail});
                if want && !served { rep.violation(&format!("QUIC: allowed peer got no response: {}", name), w); }
                else if !want && served { rep.violation("QUIC: a request of a denied peer was processed", w); }
                else { rep.tally(&format!("quic rules: {} -> {}", name, if served { "served" } else { "no request processed" }), 1); }
            }
            ep.task.abort();
        }
    });
}

// ------------------------------------------------------------------ C12 over QUIC

/// The client random the QUIC listener hands to the rules is the one of the completed handshake: a rule on one bit
/// of it ("80/80": deny when the top bit of the first byte is set) must give, for every connection, the verdict that
/// the client's *actual* random (read off its own TLS key log) implies - with a ClientHello that fits in one Initial
/// packet and with one that needs two or three (long ALPN list, as a post-quantum key share would).
pub fn c12_h3(rep: &Arc<Reporter>, args: &Args) {
    use trusttunnel::rules::{Rule, RuleAction, RulesConfig, RulesEngine};
    let dir = env::work_dir(&args.root, "c12h3");
    let rt = env::rt_multi(4);
    rt.block_on(async {
        let hosts = Hosts { main: vec![("main.test".into(), vec![])], ..Default::default() };
        let filler: Vec<Vec<u8>> = (0..12).map(|k| format!("x-verif-filler-{:02}-{}", k, "p".repeat(180)).into_bytes()).collect();
        for (rule, deny_when_bit_set) in [("80/80", true), ("00/80", false)] {
            let engine = RulesEngine::from_config(RulesConfig { rule: vec![Rule { cidr: None, client_random_prefix: Some(rule.to_string()), action: RuleAction::Deny }] });
            let ep = start_endpoint(&dir, "127.0.0.1", &hosts, None, vec![], (true, true, true), move |b| b.rules_engine(engine)).await;
            for attempt in 0..args.qt(12u64, 48u64) {
                let big = attempt % 2 == 0;
                let mut alpn: Vec<&[u8]> = vec![b"h3"];
                if big { for f in &filler[..(6 + (attempt as usize / 2) % 6)] { alpn.push(f); } }
                let r = H3::connect(ep.addr, "main.test", &alpn, Duration::from_secs(3), 3000).await;
                rep.evals(1);
                rep.distinct(common::fnv(format!("c12h3|{}|{}", rule, attempt).as_bytes()));
                let (served, random, flight, detail) = match r {
                    // a denied peer gets no handshake at all: its random cannot be learnt from a key log that was never written
                    Err(e) => (false, None, 0, e),
                    Ok(mut c) => {
                        let (random, flight) = (c.client_random.clone(), c.first_flight_datagrams);
                        let st = c.roundtrip("CONNECT", None, "_check", None, &[], false, false, Duration::from_secs(3)).await.map(|x| x.1).unwrap_or_default();
                        c.close().await;
                        (st.status().is_some(), random, flight, st.summary())
                    }
                };
                let w = json!({"kind":"quic-client-random","rule":format!("deny client_random_prefix = {}", rule),"client_hello":if big { "several Initial packets (long ALPN list)" } else { "one Initial packet" },
                    "first_flight_datagrams":flight,"client_random":random.as_ref().map(|r| common::hex(r)),"request_processed":served,"detail":detail});
                if big && served && flight < 2 { rep.inconclusive("c12 h3: the padded ClientHello still fitted in one Initial packet"); }
                match (&random, served) {
                    (Some(rnd), true) => {
                        let bit = rnd[0] & 0x80 != 0;
                        if bit == deny_when_bit_set { rep.violation("QUIC: a connection whose actual client random matches the deny rule was served (the rules saw another value)", w); }
                        else { rep.tally(&format!("quic client random: served, actual random does not match the deny rule ({})", if big { "multi-packet hello" } else { "single-packet hello" }), 1); }
                    }
                    (None, true) => rep.inconclusive("c12 h3: served but the client's key log has no random"),
                    // refused: consistent with the rule only if the (unknown) random matched; over many attempts about half must be served
                    (_, false) => rep.tally(&format!("quic client random: not served ({})", if big { "multi-packet hello" } else { "single-packet hello" }), 1),
                }
            }
            ep.task.abort();
        }
    });
}

// ------------------------------------------------------------------ C02 over HTTP/3

pub fn c02_h3(rep: &Reporter, args: &Args) {
    let dir = env::work_dir(&args.root, "c02h3");
    let rt = env::rt_multi(4);
    rt.block_on(async {
        let (open, _accepted) = canary().await;
        let hosts = Hosts { main: vec![("main.test".into(), vec![])], ..Default::default() };
        let ep = start_endpoint(&dir, "127.0.0.1", &hosts, None, vec![], (true, true, true), |b| b.allow_private_network_connections(true)).await;
        let sizes: Vec<usize> = if args.thorough() { vec![0, 1, 1000, 70_001, 300_000, 1_500_000, 6_000_000] } else { vec![1, 70_001, 300_000, 2_500_000] };
        for (k, len) in sizes.into_iter().enumerate() {
            let Some(mut c) = h3_connect(rep, ep.addr, "main.test").await else { continue };
            let key = common::fnv(format!("c02h3-{}-{}", args.seed, k).as_bytes());
            let data = crate::common::prng::coded_stream(key, 0, 0, len);
            let Ok((id, st)) = c.roundtrip("CONNECT", None, &open.to_string(), None, &[], false, false, T).await else { rep.inconclusive("h3: request failed"); continue };
            rep.evals(1);
            rep.distinct(common::fnv(format!("c02h3|{}", len).as_bytes()));
            if st.status() != Some(200) { rep.inconclusive("h3: CONNECT to the echo peer not accepted"); continue; }
            // upload in pieces while draining the echo; the echo peer returns every byte in order
            let mut sent = 0usize;
            let mut failed = None;
            let chunk = [1usize, 1200, 16_384, 65_536][k % 4].max(1);
            while sent < len {
                let n = chunk.min(len - sent);
                if let Err(e) = c.send_body(id, &data[sent..sent + n], false, Duration::from_secs(30)).await { failed = Some(e); break; }
                sent += n;
                // keep what is in flight (sent and not yet echoed) under 128 KiB: loopback UDP buffers hold about 200 KiB, and a
                // burst of more than 128 lost packets runs into a packet-number encoding limit of the QUIC library itself
                let deadline = std::time::Instant::now() + Duration::from_secs(30);
                while sent - (c.streams.get(&id).map(|s| s.body_len as usize).unwrap_or(0)) > 128 * 1024 && c.closed.is_none() && std::time::Instant::now() < deadline { c.pump_once(Duration::from_millis(10)).await; }
            }
            c.run_until(Duration::from_secs(30), |c| c.streams.get(&id).map(|s| s.body_len as usize >= len || s.reset.is_some()).unwrap_or(false)).await;
            let got = c.stream(id);
            let first_diff = got.body.iter().zip(data.iter()).position(|(a, b)| a != b);
            let w = json!({"kind":"h3-tunnel-transfer","bytes":len,"upload_chunk":chunk,"uploaded":sent,"echoed_back":got.body.len(),"first_difference":first_diff,"send_error":failed,"stream":got.summary()});
            if k == 1 && rep.want_sample() { rep.sample(w.clone()); }
            if first_diff.is_some() || got.body.len() > len { rep.violation("l2 h3: bytes relayed through an HTTP/3 tunnel differ from the bytes sent", w); }
            else if got.body.len() < len || failed.is_some() { rep.violation("l2 h3: HTTP/3 tunnel lost bytes or stalled (echo incomplete after 30 s)", w); }
            else { rep.tally("l2 h3: position-coded stream echoed byte-exactly through an HTTP/3 tunnel", 1); rep.tally("l2 h3 bytes relayed and verified", 2 * len as u64); }
            c.close().await;
        }
        // packet loss: everything the endpoint sends during a 400 ms window near the end of the download is lost (tail loss:
        // the client has nothing in flight and stays silent, so only the endpoint's own loss-detection timer can repair it)
        // a destination that fails: it sends half of what the client expects and then resets the connection. The HTTP/3 client
        // must see an abortive end (stream reset / connection error), never a clean end of a truncated download
        for round in 0..args.qt(2u64, 6u64) {
            let l = TcpListener::bind("127.0.0.1:0").await.expect("bind");
            let dest = l.local_addr().unwrap();
            let total = 200_000usize;
            tokio::spawn(async move {
                if let Ok((mut s, _)) = l.accept().await {
                    let _ = s.write_all(&crate::common::prng::coded_stream(0xdead, round, 0, total / 2)).await;
                    tokio::time::sleep(Duration::from_millis(30)).await;
                    let _ = s.set_linger(Some(Duration::ZERO));
                    drop(s);
                }
            });
            let Some(mut c) = h3_connect(rep, ep.addr, "main.test").await else { continue };
            let Ok((id, st)) = c.roundtrip("CONNECT", None, &dest.to_string(), None, &[], false, false, T).await else { rep.inconclusive("h3: request failed"); continue };
            rep.evals(1);
            rep.distinct(common::fnv(format!("c02h3|reset|{}", round).as_bytes()));
            if st.status() != Some(200) { rep.inconclusive("h3: CONNECT to the resetting peer not accepted"); continue; }
            c.run_until(Duration::from_secs(10), |c| c.streams.get(&id).map(|s| s.finished || s.reset.is_some()).unwrap_or(false) || c.closed.is_some()).await;
            let got = c.stream(id);
            let w = json!({"kind":"h3-tunnel-transfer","case":"destination resets mid-download","expected_by_client":total,"received":got.body.len(),"stream":got.summary(),"connection":c.closed});
            if got.finished && got.reset.is_none() { rep.violation("l2 h3: a reset by the destination reached the HTTP/3 client as a clean end of stream (truncated download looks complete)", w); }
            else if got.reset.is_some() || c.closed.is_some() { rep.tally("l2 h3: destination reset reached the client as an abortive end", 1); }
            else { rep.violation("l2 h3: the client was told nothing within 10 s of the destination's reset", w); }
            c.close().await;
        }
        // a destination that echoes at once, except that it holds the last 30 000 bytes of a 200 000-byte stream back for 300 ms:
        // by then the client's upload is acknowledged and the client has gone silent
        let slow_tail = {
            let l = TcpListener::bind("127.0.0.1:0").await.expect("bind");
            let a = l.local_addr().unwrap();
            tokio::spawn(async move {
                loop {
                    let Ok((mut s, _)) = l.accept().await else { continue };
                    tokio::spawn(async move {
                        let mut b = vec![0u8; 65536];
                        let (mut seen, mut held): (usize, Vec<u8>) = (0, vec![]);
                        loop {
                            match s.read(&mut b).await {
                                Ok(0) | Err(_) => break,
                                Ok(k) => {
                                    let before = seen;
                                    seen += k;
                                    let cut = 170_000usize;
                                    if seen <= cut { if s.write_all(&b[..k]).await.is_err() { break; } }
                                    else {
                                        let now = cut.saturating_sub(before).min(k);
                                        if now > 0 && s.write_all(&b[..now]).await.is_err() { break; }
                                        held.extend_from_slice(&b[now..k]);
                                        if seen >= 200_000 { tokio::time::sleep(Duration::from_millis(300)).await; if s.write_all(&held).await.is_err() { break; } held.clear(); }
                                    }
                                }
                            }
                        }
                    });
                }
            });
            a
        };
        for round in 0..args.qt(4u64, 16u64) {
            let Some(mut c) = h3_connect(rep, ep.addr, "main.test").await else { continue };
            let len = if round % 2 == 1 { 600_000usize } else { 200_000 };
            let key = common::fnv(format!("c02h3-loss-{}-{}", args.seed, round).as_bytes());
            let data = crate::common::prng::coded_stream(key, 0, 0, len);
            let dest = if round % 2 == 1 { open } else { slow_tail };
            let Ok((id, st)) = c.roundtrip("CONNECT", None, &dest.to_string(), None, &[], false, false, T).await else { rep.inconclusive("h3: request failed"); continue };
            rep.evals(1);
            rep.distinct(common::fnv(format!("c02h3|loss|{}", round).as_bytes()));
            if st.status() != Some(200) { rep.inconclusive("h3: CONNECT to the echo peer not accepted"); continue; }
            let mut sent = 0usize;
            let mut failed = None;
            // odd rounds: the loss window opens in the middle of the transfer (data and acknowledgements in flight both ways);
            // even rounds: near the end of the echo (tail loss)
            let mid = round % 2 == 1;
            let mut t0 = std::time::Instant::now();
            while sent < len {
                let n = 16_384.min(len - sent);
                if let Err(e) = c.send_body(id, &data[sent..sent + n], false, Duration::from_secs(30)).await { failed = Some(e); break; }
                sent += n;
                let deadline = std::time::Instant::now() + Duration::from_secs(30);
                while sent - (c.streams.get(&id).map(|s| s.body_len as usize).unwrap_or(0)) > 64 * 1024 && c.closed.is_none() && std::time::Instant::now() < deadline { c.pump_once(Duration::from_millis(10)).await; }
                if mid && c.drop_incoming_until.is_none() && sent >= len / 2 { c.drop_incoming_until = Some(std::time::Instant::now() + Duration::from_millis(400)); t0 = std::time::Instant::now(); }
            }
            if !mid {
                // the upload is complete; the destination holds the last 30 000 bytes of the echo back for 300 ms. Let the rest
                // arrive and the client's own packets be acknowledged (200 ms), then lose everything the endpoint sends for
                // 400 ms: the tail of the echo, with the client silent - only the endpoint's own loss timer can repair it
                c.run_until(Duration::from_millis(200), |_| false).await;
                c.drop_incoming_until = Some(std::time::Instant::now() + Duration::from_millis(400));
                t0 = std::time::Instant::now();
            }
            c.run_until(Duration::from_secs(25), |c| c.streams.get(&id).map(|s| s.body_len as usize >= len || s.reset.is_some()).unwrap_or(false)).await;
            let got = c.stream(id);
            let first_diff = got.body.iter().zip(data.iter()).position(|(a, b)| a != b);
            let w = json!({"kind":"h3-tunnel-transfer","bytes":len,"uploaded":sent,"echoed_back":got.body.len(),"first_difference":first_diff,"send_error":failed,"stream":got.summary(),
                "loss_window_ms":400,"loss_started_when":if mid { "half of the upload was sent" } else { "the upload was complete (tail of the echo lost)" },"datagrams_lost":c.dropped_datagrams,"waited_ms_after_the_loss_began":t0.elapsed().as_millis() as u64,"connection":c.closed});
            if c.dropped_datagrams == 0 { rep.tally("l2 h3 loss: nothing was in flight during the loss window (not judged)", 1); }
            else if first_diff.is_some() || got.body.len() > len { rep.violation("l2 h3: bytes relayed through an HTTP/3 tunnel differ from the bytes sent", w); }
            else if got.body.len() < len { rep.violation("l2 h3: HTTP/3 tunnel stalled after packet loss (lost packets not retransmitted within 25 s)", w); }
            else { rep.tally("l2 h3 loss: download completed after a 400 ms loss window (lost packets retransmitted)", 1); }
            c.close().await;
        }
        ep.task.abort();
    });
}

// ------------------------------------------------------------------ C19 over HTTP/3

pub fn c19_h3(rep: &Arc<Reporter>, args: &Args) {
    let dir = env::work_dir(&args.root, "c19h3");
    let rt = env::rt_multi(4);
    rt.block_on(async {
        let (open, _) = canary().await;
        for round in 0..args.qt(3u64, 20u64) {
            let hosts = Hosts { main: vec![("main.test".into(), vec![])], ..Default::default() };
            let ep = start_endpoint(&dir, "127.0.0.1", &hosts, None, vec![], (true, true, true), |b| b.allow_private_network_connections(true)).await;
            let Some(mut c) = h3_connect(rep, ep.addr, "main.test").await else { ep.task.abort(); continue };
            let with_tunnel = round % 2 == 0;
            if with_tunnel { let _ = c.roundtrip("CONNECT", None, &open.to_string(), None, &[], false, false, T).await; }
            else { let _ = c.roundtrip("CONNECT", None, "_check", None, &[], false, false, T).await; }
            let sd = ep.ctx.shutdown.clone();
            sd.lock().unwrap().submit();
            // the session must be told to go away (GOAWAY) or closed with an application close, not left hanging
            let told = c.run_until(Duration::from_secs(6), |c| c.goaway.is_some() || c.closed.is_some()).await;
            rep.evals(1);
            rep.distinct(common::fnv(format!("c19h3|{}", round).as_bytes()));
            let w = json!({"kind":"h3-shutdown","round":round,"open_tunnel":with_tunnel,"goaway":c.goaway,"closed":c.closed});
            if !told { rep.violation("H3 session was not told to go away after shutdown was submitted", w); }
            else if c.closed.as_deref().map(|x| x.contains("timed_out=true")).unwrap_or(false) && c.goaway.is_none() { rep.violation("H3 session was left to time out after shutdown instead of being told to go away", w); }
            else { rep.tally(if c.goaway.is_some() { "H3 client saw GOAWAY after shutdown" } else { "H3 client saw the connection closed after shutdown" }, 1); }
            c.close().await;
            ep.task.abort();
        }
    });
}

// ------------------------------------------------------------------ C16 over HTTP/3

pub fn c16_h3(rep: &Arc<Reporter>, args: &Args) {
    use trusttunnel::verif::misc::metrics_snapshot;
    let dir = env::work_dir(&args.root, "c16h3");
    let rt = env::rt_multi(4);
    rt.block_on(async {
        let (open, _) = canary().await;
        let hosts = Hosts { main: vec![("main.test".into(), vec![])], ..Default::default() };
        // idle timeout T = 3 s: however the endpoint learns that an HTTP/3 client is gone, by 2T + margin everything must be released
        let ep = start_endpoint(&dir, "127.0.0.1", &hosts, None, vec![], (true, true, true), |b| b.allow_private_network_connections(true).tcp_connections_timeout(Duration::from_secs(3))).await;
        // wait until a predicate over the in-process metrics holds (bounded patience; never a verdict by itself)
        async fn settle(ctx: &trusttunnel::verif::ctx::Ctx, pred: impl Fn(&trusttunnel::verif::misc::MetricsSnapshot) -> bool) -> (trusttunnel::verif::misc::MetricsSnapshot, bool) {
            for _ in 0..400 { let s = metrics_snapshot(ctx); if pred(&s) { return (s, true); } tokio::time::sleep(Duration::from_millis(25)).await; }
            (metrics_snapshot(ctx), false)
        }
        for round in 0..args.qt(3u64, 25u64) {
            let n = [1usize, 70_001, 300_000][(round % 3) as usize];
            let base = metrics_snapshot(&ep.ctx);
            let Some(mut c) = h3_connect(rep, ep.addr, "main.test").await else { continue };
            rep.evals(1);
            rep.distinct(common::fnv(format!("c16h3|{}", round).as_bytes()));
            let (s1, ok1) = settle(&ep.ctx, |s| s.sessions[2] == base.sessions[2] + 1).await;
            let w = |what: &str, s: &trusttunnel::verif::misc::MetricsSnapshot| json!({"kind":"h3-metrics","round":round,"step":what,"in_process":format!("{:?}", s),"before":format!("{:?}", base)});
            if !ok1 { rep.violation("client_sessions{HTTP3} differs from the number of live sessions after 'open-session h3'", w("open session", &s1)); c.close().await; continue; }
            let Ok((id, st)) = c.roundtrip("CONNECT", None, &open.to_string(), None, &[], false, false, T).await else { rep.inconclusive("h3: request failed"); continue };
            if st.status() != Some(200) { rep.inconclusive("h3: CONNECT to the echo peer not accepted"); c.close().await; continue; }
            let (s2, ok2) = settle(&ep.ctx, |s| s.outbound_tcp == base.outbound_tcp + 1).await;
            if !ok2 { rep.violation("outbound_tcp_sockets differs from the number of live outbound connections after 'open-tunnel h3'", w("open tunnel", &s2)); }
            let data = crate::common::prng::coded_stream(round, 0, 0, n);
            let _ = c.send_body(id, &data, false, Duration::from_secs(20)).await;
            c.run_until(Duration::from_secs(20), |c| c.streams.get(&id).map(|s| s.body_len as usize >= n).unwrap_or(false)).await;
            let (s3, ok3) = settle(&ep.ctx, |s| s.traffic[2].0 == base.traffic[2].0 + n as u64 && s.traffic[2].1 == base.traffic[2].1 + n as u64).await;
            if !ok3 { rep.violation("traffic counters differ from the payload bytes relayed (HTTP/3 tunnel)", { let mut v = w("transfer", &s3); v["bytes_each_way"] = json!(n); v }); }
            c.close().await;
            let t_close = std::time::Instant::now();
            let (mut s4, mut ok4) = settle(&ep.ctx, |s| s.sessions[2] == base.sessions[2] && s.outbound_tcp == base.outbound_tcp).await;
            // the endpoint may only notice through its QUIC idle timeout: allow for it (observed and reported, not judged)
            for _ in 0..1 { if ok4 { break; } let r = settle(&ep.ctx, |s| s.sessions[2] == base.sessions[2] && s.outbound_tcp == base.outbound_tcp).await; s4 = r.0; ok4 = r.1; }
            rep.tally(&format!("h3: gauges back after the client closed: within {} s", (t_close.elapsed().as_secs() / 5 + 1) * 5), 1);
            if !ok4 { rep.violation("gauges do not return to their previous values within 20 s (idle timeout 3 s) after the HTTP/3 client closed its connection", w("close session", &s4)); }
            if ok1 && ok2 && ok3 && ok4 { rep.tally("h3: session gauge, outbound socket gauge and byte counters follow an HTTP/3 session", 1); }
        }
        ep.task.abort();
    });
}
