//! C15 — the SOCKS5 upstream dialogue is well-formed and faithful.
//!
//! The real `socks5_client::connect` over an in-memory duplex against a scripted server that
//! parses every client message with an independent RFC 1928/1929/extended-auth parser, answers
//! with chosen method / status / reply bytes in chosen segments (or truncates), plus the real
//! UDP association wrap/unwrap on loopback and reply-code mapping through the real tunnel.

use crate::common::{self, Args, Reporter, Rng};
use crate::env;
use crate::kit::*;
use crate::tun::*;
use serde_json::{json, Value};
use std::net::{IpAddr, SocketAddr};
use std::sync::Arc;
use std::time::Duration;
use tokio::io::{AsyncReadExt, AsyncWriteExt};
use trusttunnel::verif::misc::{socks5_connect, socks5_make_auth, S5Auth, S5Error, S5ExtVal, S5Request, S5Result};
use trusttunnel::verif::tunnel::{AuthView, Fwd, Policy, Proto};

#[derive(Clone, Debug)]
struct ServerScript {
    method: u8,
    auth_status: u8,
    reply_code: u8,
    bound_atyp: u8,
    /// stop after this many reply bytes in total (None = send everything)
    truncate_at: Option<usize>,
    /// cut points over the concatenation of everything the server sends
    cuts: Vec<usize>,
}

#[derive(Debug, Default)]
struct ServerSeen {
    greeting_methods: Option<Vec<u8>>,
    auth_userpass: Option<(Vec<u8>, Vec<u8>)>,
    auth_extended: Option<Vec<(u8, Vec<u8>)>>,
    request: Option<(u8, u8, Vec<u8>, u16)>,
    malformed: Option<String>,
    leftover: usize,
}

async fn read_n(io: &mut (impl AsyncReadExt + Unpin), n: usize) -> Option<Vec<u8>> {
    let mut v = vec![0u8; n];
    match tokio::time::timeout(Duration::from_secs(20), io.read_exact(&mut v)).await {
        Ok(Ok(_)) => Some(v),
        _ => None,
    }
}

/// Server side: parse what the client sends in lock-step and answer per script
/// bytes the scripted server sends right behind a successful reply
const AFTER_REPLY: &[u8] = b"PAYLOAD-BEHIND-THE-REPLY";

async fn server(mut io: tokio::io::DuplexStream, sc: ServerScript) -> ServerSeen {
    let mut seen = ServerSeen::default();
    let mut sent_total = 0usize;
    let mut out_plan: Vec<u8> = vec![];
    // pre-compute the complete byte stream the server would send, to place cuts/truncation
    out_plan.extend_from_slice(&[5, sc.method]);
    let will_auth = sc.method == 2 || sc.method == 0x80;
    if will_auth { out_plan.extend_from_slice(&[1, sc.auth_status]); }
    let reply = {
        let mut r = vec![5, sc.reply_code, 0, sc.bound_atyp];
        match sc.bound_atyp {
            1 => r.extend_from_slice(&[127, 0, 0, 1]),
            4 => r.extend_from_slice(&std::net::Ipv6Addr::LOCALHOST.octets()),
            3 => { r.push(9); r.extend_from_slice(b"bound.dom"); }
            _ => r.extend_from_slice(&[1, 2, 3, 4]),
        }
        r.extend_from_slice(&4321u16.to_be_bytes());
        r
    };
    out_plan.extend_from_slice(&reply);
    let limit = sc.truncate_at.unwrap_or(out_plan.len()).min(out_plan.len());
    // helper: send plan[from..to] honouring cuts and the truncation limit
    async fn send(io: &mut tokio::io::DuplexStream, plan: &[u8], from: usize, to: usize, limit: usize, cuts: &[usize]) -> bool {
        let to = to.min(limit);
        let mut p = from;
        while p < to {
            let next = cuts.iter().copied().find(|c| *c > p && *c < to).unwrap_or(to);
            if io.write_all(&plan[p..next]).await.is_err() { return false; }
            let _ = io.flush().await;
            tokio::time::sleep(Duration::from_millis(1)).await;
            p = next;
        }
        to >= limit && limit < plan.len()
    }
    // 1. greeting
    let Some(h) = read_n(&mut io, 2).await else { seen.malformed = Some("no greeting".into()); return seen; };
    if h[0] != 5 { seen.malformed = Some(format!("greeting version {}", h[0])); return seen; }
    let Some(methods) = read_n(&mut io, h[1] as usize).await else { seen.malformed = Some("greeting shorter than NMETHODS".into()); return seen; };
    if methods.is_empty() { seen.malformed = Some("NMETHODS = 0".into()); }
    seen.greeting_methods = Some(methods);
    if send(&mut io, &out_plan, 0, 2, limit, &sc.cuts).await { drop(io); return seen; }
    sent_total += 2;
    // 2. authentication
    if sc.method == 2 {
        match read_n(&mut io, 2).await {
            Some(v) => {
                if v[0] != 1 { seen.malformed = Some(format!("auth version {}", v[0])); return seen; }
                let Some(u) = read_n(&mut io, v[1] as usize).await else { seen.malformed = Some("auth: user shorter than ULEN".into()); return seen; };
                let Some(pl) = read_n(&mut io, 1).await else { seen.malformed = Some("auth: PLEN missing".into()); return seen; };
                let Some(p) = read_n(&mut io, pl[0] as usize).await else { seen.malformed = Some("auth: password shorter than PLEN".into()); return seen; };
                seen.auth_userpass = Some((u, p));
            }
            None => return seen, // client chose not to authenticate (closed / failed)
        }
    } else if sc.method == 0x80 {
        match read_n(&mut io, 1).await {
            Some(v) => {
                if v[0] != 1 { seen.malformed = Some(format!("extended auth version {}", v[0])); return seen; }
                let mut vals = vec![];
                loop {
                    let Some(t) = read_n(&mut io, 3).await else { seen.malformed = Some("extended auth: TERM missing".into()); return seen; };
                    let len = u16::from_be_bytes([t[1], t[2]]) as usize;
                    if t[0] == 0 {
                        if len != 0 { seen.malformed = Some("extended auth: TERM with non-zero length".into()); }
                        break;
                    }
                    let Some(val) = read_n(&mut io, len).await else { seen.malformed = Some("extended auth: value shorter than LENGTH".into()); return seen; };
                    vals.push((t[0], val));
                    if vals.len() > 16 { seen.malformed = Some("extended auth: too many values".into()); return seen; }
                }
                seen.auth_extended = Some(vals);
            }
            None => return seen,
        }
    }
    if will_auth {
        if send(&mut io, &out_plan, sent_total, sent_total + 2, limit, &sc.cuts).await { drop(io); return seen; }
        sent_total += 2;
    }
    // 3. request
    match read_n(&mut io, 4).await {
        Some(v) => {
            if v[0] != 5 || v[2] != 0 { seen.malformed = Some(format!("request header {:?} (message boundary lost?)", v)); return seen; }
            let addr = match v[3] {
                1 => read_n(&mut io, 4).await,
                4 => read_n(&mut io, 16).await,
                3 => match read_n(&mut io, 1).await { Some(l) => read_n(&mut io, l[0] as usize).await, None => None },
                x => { seen.malformed = Some(format!("request ATYP {}", x)); return seen; }
            };
            let Some(addr) = addr else { seen.malformed = Some("request address truncated".into()); return seen; };
            let Some(port) = read_n(&mut io, 2).await else { seen.malformed = Some("request port missing".into()); return seen; };
            seen.request = Some((v[1], v[3], addr, u16::from_be_bytes([port[0], port[1]])));
        }
        None => return seen,
    }
    // tunnel payload follows a successful reply at once: the client must hand over exactly these bytes. With an uncut
    // server stream the payload is part of the very write that carries the reply (one segment on a real network).
    if limit >= out_plan.len() && sc.reply_code == 0 && sc.cuts.is_empty() {
        let mut v = out_plan[sent_total..].to_vec();
        v.extend_from_slice(AFTER_REPLY);
        let _ = io.write_all(&v).await;
        let _ = io.flush().await;
    } else {
        let _ = send(&mut io, &out_plan, sent_total, out_plan.len(), limit, &sc.cuts).await;
        if limit >= out_plan.len() && sc.reply_code == 0 { let _ = io.write_all(AFTER_REPLY).await; }
    }
    // anything else the client sends before we finish is a framing error
    let mut extra = [0u8; 64];
    if let Ok(Ok(n)) = tokio::time::timeout(Duration::from_millis(5), io.read(&mut extra)).await { seen.leftover = n; }
    if limit < out_plan.len() { drop(io); } else { tokio::time::sleep(Duration::from_secs(2)).await; }
    seen
}

fn result_name<IO>(r: &Result<S5Result<IO>, S5Error>) -> String {
    match r {
        Ok(S5Result::TcpConnection(_)) => "tcp".into(),
        Ok(S5Result::UdpAssociation(_)) => "udp".into(),
        Ok(S5Result::Failure(c)) => format!("failure:{}", c),
        Err(S5Error::Io(e)) => format!("io:{:?}", e.kind()),
        Err(S5Error::Protocol(_)) => "protocol".into(),
        Err(S5Error::Authentication(_)) => "authentication".into(),
    }
}

fn reply_name(code: u8) -> Option<&'static str> {
    Some(match code {
        1 => "GeneralFailure", 2 => "NotAllowed", 3 => "NetworkUnreachable", 4 => "HostUnreachable", 5 => "ConnectionRefused",
        6 => "TtlExpired", 7 => "CommandNotSupported", 8 => "AddressTypeNotSupported", _ => return None,
    })
}

fn dialogue_part(rep: &Arc<Reporter>, args: &Args) {
    let rt = env::rt_paused();
    let mut r = Rng::derive(args.seed, 0xc15, 0);
    let n = args.qt(40_000u64, 3_000_000u64);
    for i in 0..n {
        // --- client side inputs ---
        let ulen = *r.pick(&[0usize, 1, 5, 254, 255, 256, 300, 600]);
        let plen = *r.pick(&[0usize, 1, 8, 255, 256, 511, 600]);
        let mk = |n: usize, r: &mut Rng| -> String { let alphabet = ["a", "Z", "9", ":", "é", "✓", " "]; let mut s = String::new(); while s.len() < n { let c = *r.pick(&alphabet); if s.len() + c.len() <= n { s.push_str(c); } else { s.push('x'); } } s };
        let auth = match r.below(4) {
            0 => None,
            1 | 2 => Some(S5Auth::UsernamePassword(mk(ulen, &mut r).replace(':', "_"), mk(plen, &mut r))),
            _ => Some(S5Auth::Extended(vec![
                S5ExtVal::Domain(mk(*r.pick(&[0usize, 9, 300]), &mut r)),
                S5ExtVal::ClientAddress(if r.chance(1, 2) { "198.51.100.7".parse().unwrap() } else { "2001:db8::7".parse().unwrap() }),
                S5ExtVal::UserAgent(mk(*r.pick(&[0usize, 20, 700]), &mut r)),
                if r.chance(1, 2) { S5ExtVal::SniAuth } else { S5ExtVal::BasicProxyAuth(basic("u", &mk(plen, &mut r))) },
            ])),
        };
        let dlen = *r.pick(&[0usize, 1, 11, 255, 256, 300]);
        let request = match r.below(3) {
            0 => S5Request::ConnectIp("93.184.216.34:443".parse().unwrap()),
            1 => S5Request::ConnectIp("[2606:2800:220:1::1]:8443".parse().unwrap()),
            _ => S5Request::ConnectDomain("d".repeat(dlen), 80),
        };
        // --- server script ---
        let offered: Vec<u8> = match &auth { None => vec![0], Some(S5Auth::UsernamePassword(..)) => vec![2, 0], Some(S5Auth::Extended(_)) => vec![0x80, 0] };
        let method = *r.pick(&[0u8, 0, 2, 2, 0x80, 0x80, 0xff, 1, 3]);
        let auth_status = *r.pick(&[0u8, 0, 0, 1, 0xff]);
        let reply_code = *r.pick(&[0u8, 0, 0, 1, 2, 3, 4, 5, 6, 7, 8, 9, 0xff]);
        let bound_atyp = *r.pick(&[1u8, 1, 4, 3, 9]);
        let plan_len = 2 + if method == 2 || method == 0x80 { 2 } else { 0 } + 4 + match bound_atyp { 1 => 4, 4 => 16, 3 => 10, _ => 4 } + 2;
        let truncate_at = if r.chance(1, 5) { Some(r.below(plan_len as u64) as usize) } else { None };
        let cuts: Vec<usize> = match r.below(4) { 0 => vec![], 1 => vec![r.range(1, plan_len as u64 - 1) as usize], 2 => { let mut c = vec![r.range(1, plan_len as u64 - 1) as usize, r.range(1, plan_len as u64 - 1) as usize]; c.sort(); c.dedup(); c } _ => (1..plan_len).collect() };
        let sc = ServerScript { method, auth_status, reply_code, bound_atyp, truncate_at, cuts };
        let (client_io, server_io) = tokio::io::duplex(8192);
        let auth2 = auth.clone();
        let request2 = request.clone();
        let sc2 = sc.clone();
        let (res, seen) = rt.block_on(async move {
            let srv = tokio::spawn(server(server_io, sc2));
            let res = tokio::time::timeout(Duration::from_secs(60), socks5_connect(client_io, auth2, request2)).await;
            let mut name = match &res { Ok(r) => result_name(r), Err(_) => "hung".to_string() };
            // the stream handed over after a successful CONNECT must start with exactly the bytes that followed the reply
            if let Ok(Ok(S5Result::TcpConnection(mut io))) = res {
                let mut got = vec![0u8; AFTER_REPLY.len()];
                let r = tokio::time::timeout(Duration::from_secs(30), io.read_exact(&mut got)).await;
                if !matches!(r, Ok(Ok(_))) || got != AFTER_REPLY { name = format!("tcp-but-stream-damaged:{}", String::from_utf8_lossy(&got).chars().take(24).collect::<String>()); }
            }
            let seen = tokio::time::timeout(Duration::from_secs(60), srv).await.ok().and_then(|x| x.ok()).unwrap_or_default();
            (name, seen)
        });
        rep.evals(1);
        rep.distinct(common::fnv(format!("{:?}|{:?}|{:?}", auth.as_ref().map(auth_shape), request_shape(&request), (method, auth_status, reply_code, bound_atyp, truncate_at.is_some(), sc.cuts.len().min(3))).as_bytes()));
        let witness = || json!({"kind":"socks5-dialogue","auth":auth.as_ref().map(auth_shape),"request":request_shape(&request),"server":{"method":method,"auth_status":auth_status,"reply_code":reply_code,"bound_atyp":bound_atyp,"truncate_at":truncate_at,"cuts":sc.cuts.len()},
            "result":res,"server_saw":format!("{:?}", seen).chars().take(300).collect::<String>(),"index":i});
        if i % 997 == 3 { rep.sample(witness()); }
        // ---- (1) everything the client wrote must be well-formed ----
        if let Some(m) = &seen.malformed {
            let class = if m.contains("boundary") || m.contains("shorter") || m.contains("PLEN") { format!("malformed client message ({})", if matches!(&auth, Some(S5Auth::UsernamePassword(u, p)) if u.len() > 255 || p.len() > 255) { "user name or password longer than 255 bytes" } else { "framing" }) } else { format!("malformed client message: {}", m) };
            // a server that closed early legitimately leaves the client's message unread; only judge when untruncated
            if truncate_at.is_none() { rep.violation(&class, witness()); continue; }
        }
        if let Some(ms) = &seen.greeting_methods {
            let mut got = ms.clone(); got.sort(); got.dedup();
            let mut want = offered.clone(); want.sort();
            if got != want { rep.violation("offered methods do not reflect credential availability", witness()); }
        }
        if let (Some((u, p)), Some(S5Auth::UsernamePassword(eu, ep))) = (&seen.auth_userpass, &auth) {
            if u != eu.as_bytes() || p != ep.as_bytes() {
                let class = if eu.len() > 255 || ep.len() > 255 { "over-long user name/password truncated on the wire" } else { "user name/password on the wire differ from the credentials" };
                rep.violation(class, witness());
            }
        }
        if let (Some(vals), Some(S5Auth::Extended(ev))) = (&seen.auth_extended, &auth) {
            let want: Vec<(u8, Vec<u8>)> = ev.iter().map(|v| match v {
                S5ExtVal::Domain(x) => (1u8, x.as_bytes().to_vec()),
                S5ExtVal::ClientAddress(IpAddr::V4(x)) => (2, x.octets().to_vec()),
                S5ExtVal::ClientAddress(IpAddr::V6(x)) => (2, x.octets().to_vec()),
                S5ExtVal::UserAgent(x) => (3, x.as_bytes().to_vec()),
                S5ExtVal::BasicProxyAuth(x) => (4, x.as_bytes().to_vec()),
                S5ExtVal::SniAuth => (5, vec![]),
            }).collect();
            if *vals != want { rep.violation("extended authentication message differs from the documented TLV format", witness()); }
        }
        if let Some((cmd, atyp, addr, port)) = &seen.request {
            let ok = match &request {
                S5Request::ConnectIp(a) => *cmd == 1 && *port == a.port() && match a.ip() { IpAddr::V4(x) => *atyp == 1 && addr[..] == x.octets(), IpAddr::V6(x) => *atyp == 4 && addr[..] == x.octets() },
                S5Request::ConnectDomain(d, p) => *cmd == 1 && *atyp == 3 && addr == d.as_bytes() && port == p,
                S5Request::UdpAssociate => *cmd == 3,
            };
            if !ok { rep.violation("request destination on the wire differs (address type / address / port)", witness()); }
        }
        if seen.leftover > 0 { rep.violation("client sent bytes beyond the protocol messages", witness()); }
        // ---- (2) the client's conclusion ----
        let too_long_creds = matches!(&auth, Some(S5Auth::UsernamePassword(u, p)) if u.len() > 255 || p.len() > 255);
        let too_long_domain = matches!(&request, S5Request::ConnectDomain(d, _) if d.len() > 255);
        let method_ok = method == 0 || (offered.contains(&method) && (method == 2 || method == 0x80));
        let expect: &[&str] = if truncate_at.is_some() {
            &["io:UnexpectedEof", "protocol", "authentication", "failure", "tcp"] // depends on where the stream ended; must just terminate without success beyond what was sent
        } else if method == 0xff { &["authentication"] }
        else if method == 1 || method == 3 { &["protocol"] }
        else if !method_ok { &["authentication", "protocol"] }
        else if method != 0 && too_long_creds { &["protocol", "authentication", "io:"] }
        else if method != 0 && auth_status != 0 { &["authentication"] }
        else if too_long_domain { &["protocol"] }
        else if reply_code == 0 && bound_atyp != 9 { &["tcp"] }
        else if bound_atyp == 9 { &["protocol"] }
        else if reply_name(reply_code).is_some() { &["failure"] }
        else { &["protocol"] };
        let matches_expect = expect.iter().any(|e| res.starts_with(e));
        if res.starts_with("tcp-but-stream-damaged") {
            rep.violation("bytes following the server's reply were not handed over intact (reply mis-sized?)", witness());
        } else if res == "hung" {
            rep.violation("client never concluded the dialogue", witness());
        } else if truncate_at.is_some() {
            // success is only acceptable if the complete successful reply was delivered
            if res == "tcp" { rep.violation("client reported success although the server's reply was truncated", witness()); }
            else { rep.tally("truncated server stream -> error", 1); }
        } else if !matches_expect {
            let what = if method != 0 && !method_ok { "proceeded after a non-offered method" } else if method != 0 && auth_status != 0 && method_ok { "proceeded after a non-zero authentication status" } else if reply_code != 0 { "wrong conclusion for a failure reply" } else { "wrong conclusion" };
            rep.violation(&format!("{} (got {}, expected {:?})", what, res.split(':').next().unwrap_or(""), expect), witness());
        } else {
            if let (true, Some(name)) = (res.starts_with("failure:"), reply_name(reply_code)) {
                if res != format!("failure:{}", name) { rep.violation("failure reply code mis-classified", witness()); }
            }
            rep.tally(&format!("dialogue -> {}", res.split(':').next().unwrap_or("")), 1);
        }
        if method != 0 && too_long_creds && method_ok && truncate_at.is_none() && seen.auth_userpass.is_some() && seen.malformed.is_none() {
            rep.tally("over-long credentials: authentication message sent (judged above)", 1);
        }
    }
}

fn auth_shape(a: &S5Auth) -> Value {
    match a {
        S5Auth::UsernamePassword(u, p) => json!({"userpass": [u.len(), p.len()]}),
        S5Auth::Extended(v) => json!({"extended": v.iter().map(|x| match x { S5ExtVal::Domain(d) => format!("domain[{}]", d.len()), S5ExtVal::ClientAddress(a) => format!("addr {}", a), S5ExtVal::UserAgent(u) => format!("ua[{}]", u.len()), S5ExtVal::BasicProxyAuth(b) => format!("basic[{}]", b.len()), S5ExtVal::SniAuth => "sni".into() }).collect::<Vec<_>>()}),
    }
}

fn request_shape(r: &S5Request) -> String {
    match r { S5Request::ConnectIp(a) => format!("ip {}", a), S5Request::ConnectDomain(d, p) => format!("domain[{}]:{}", d.len(), p), S5Request::UdpAssociate => "udp".into() }
}

fn make_auth_part(rep: &Arc<Reporter>) {
    use base64::Engine;
    let b64 = |s: &str| base64::engine::general_purpose::STANDARD.encode(s);
    let cases: Vec<(&str, String, Option<(&str, &str)>)> = vec![
        ("simple", b64("user:pass"), Some(("user", "pass"))),
        ("colons in password", b64("user:p:a:s:s"), Some(("user", "p:a:s:s"))),
        ("empty password", b64("user:"), Some(("user", ""))),
        ("empty user", b64(":pass"), Some(("", "pass"))),
        ("only colon", b64(":"), Some(("", ""))),
        ("unicode", b64("üser:päss✓"), Some(("üser", "päss✓"))),
        ("no colon", b64("userpass"), None),
        ("not base64", "!!!".to_string(), None),
        ("non-utf8", base64::engine::general_purpose::STANDARD.encode([0xffu8, 0xfe, b':', b'x']), None),
    ];
    for (name, token, want) in cases {
        rep.evals(1);
        rep.distinct(common::fnv(format!("make_auth|{}", name).as_bytes()));
        let got = socks5_make_auth(&AuthView::ProxyBasic(token.clone()), None);
        let w = json!({"kind":"socks5-make-auth","case":name,"got":format!("{:?}", got)});
        match (want, got) {
            (Some((u, p)), Ok(S5Auth::UsernamePassword(gu, gp))) if gu == u && gp == p => rep.tally("credentials split at the first colon", 1),
            (None, Err(_)) => rep.tally("unusable credentials rejected before any message", 1),
            _ => rep.violation(&format!("Basic credentials '{}' turned into wrong SOCKS5 credentials", name), w),
        }
        // extended: token passes through verbatim
        match socks5_make_auth(&AuthView::ProxyBasic(token.clone()), Some(("vpn.example.org", "198.51.100.7".parse().unwrap(), Some("ua/1")))) {
            Ok(S5Auth::Extended(v)) if v == vec![S5ExtVal::Domain("vpn.example.org".into()), S5ExtVal::ClientAddress("198.51.100.7".parse().unwrap()), S5ExtVal::UserAgent("ua/1".into()), S5ExtVal::BasicProxyAuth(token.clone())] => {}
            other => rep.violation("extended authentication values differ from the documented set", json!({"case":name,"got":format!("{:?}", other)})),
        }
    }
    match socks5_make_auth(&AuthView::Sni("tok".into()), Some(("tok.vpn.example.org", "2001:db8::1".parse().unwrap(), None))) {
        Ok(S5Auth::Extended(v)) if v == vec![S5ExtVal::Domain("tok.vpn.example.org".into()), S5ExtVal::ClientAddress("2001:db8::1".parse().unwrap()), S5ExtVal::SniAuth] => rep.tally("extended SNI authentication values", 1),
        other => rep.violation("extended authentication values differ from the documented set", json!({"case":"sni","got":format!("{:?}", other)})),
    }
    rep.evals(1);
}

/// RFC 1928 section 7 wrap/unwrap over a real UDP association on loopback (real time)
fn udp_part(rep: &Arc<Reporter>, args: &Args) {
    let rt = env::rt_current();
    let mut r = Rng::derive(args.seed, 0xc15d, 0);
    rt.block_on(async {
        let relay = tokio::net::UdpSocket::bind("127.0.0.1:0").await.unwrap();
        let relay_addr = relay.local_addr().unwrap();
        let (client_io, mut server_io) = tokio::io::duplex(4096);
        let srv = tokio::spawn(async move {
            let mut b = [0u8; 3];
            let _ = server_io.read_exact(&mut b).await; // 05 01|02 ..
            let mut rest = vec![0u8; (b[1] as usize).saturating_sub(1)];
            let _ = server_io.read_exact(&mut rest).await;
            let _ = server_io.write_all(&[5, 0]).await;
            let mut req = [0u8; 10];
            let _ = server_io.read_exact(&mut req).await;
            let mut reply = vec![5, 0, 0, 1];
            if let SocketAddr::V4(a) = relay_addr { reply.extend_from_slice(&a.ip().octets()); }
            reply.extend_from_slice(&relay_addr.port().to_be_bytes());
            let _ = server_io.write_all(&reply).await;
            tokio::time::sleep(Duration::from_secs(30)).await;
            drop(server_io);
            req
        });
        let assoc = match socks5_connect(client_io, None, S5Request::UdpAssociate).await {
            Ok(S5Result::UdpAssociation(a)) => a,
            other => { rep.violation("UDP ASSOCIATE dialogue failed against a conforming server", json!({"got": result_name(&other)})); return; }
        };
        let local = assoc.local_addr().unwrap();
        // wrap
        for _ in 0..args.qt(200, 3000) {
            let dst: SocketAddr = if r.chance(1, 2) { format!("203.0.113.{}:{}", r.below(255), r.range(1, 65535)).parse().unwrap() } else { format!("[2001:db8::{:x}]:{}", r.below(65535), r.range(1, 65535)).parse().unwrap() };
            let dl = *r.pick(&[0usize, 1, 100, 1400]);
            let data = r.bytes(dl);
            rep.evals(1);
            if assoc.send_to(&data, dst).await.is_err() { rep.violation("send_to failed on a live association", json!({})); continue; }
            let mut buf = vec![0u8; 2048];
            let Ok(Ok((n, from))) = tokio::time::timeout(Duration::from_secs(2), relay.recv_from(&mut buf)).await else { rep.inconclusive("relay did not receive the datagram"); continue; };
            let mut want = vec![0, 0, 0];
            match dst.ip() { IpAddr::V4(x) => { want.push(1); want.extend_from_slice(&x.octets()); } IpAddr::V6(x) => { want.push(4); want.extend_from_slice(&x.octets()); } }
            want.extend_from_slice(&dst.port().to_be_bytes());
            want.extend_from_slice(&data);
            rep.distinct(common::fnv(&want));
            if buf[..n] != want[..] || from.port() != local.port() { rep.violation("relayed UDP datagram header differs from RFC 1928 section 7", json!({"destination":dst.to_string(),"got":common::hex(&buf[..n.min(40)]),"want":common::hex(&want[..want.len().min(40)])})); }
            else { rep.tally("udp: wrapped per RFC 1928 section 7", 1); }
        }
        // unwrap, including hostile datagrams
        let good = |src: SocketAddr, data: &[u8]| -> Vec<u8> { let mut v = vec![0, 0, 0]; match src.ip() { IpAddr::V4(x) => { v.push(1); v.extend_from_slice(&x.octets()); } IpAddr::V6(x) => { v.push(4); v.extend_from_slice(&x.octets()); } } v.extend_from_slice(&src.port().to_be_bytes()); v.extend_from_slice(data); v };
        let src4: SocketAddr = "198.51.100.9:53".parse().unwrap();
        let src6: SocketAddr = "[2001:db8::53]:5353".parse().unwrap();
        let mut packets: Vec<(&str, Vec<u8>, Option<(SocketAddr, Vec<u8>)>)> = vec![
            ("v4 payload", good(src4, b"hello"), Some((src4, b"hello".to_vec()))),
            ("v6 payload", good(src6, b"world!"), Some((src6, b"world!".to_vec()))),
            ("v4 empty payload", good(src4, b""), Some((src4, vec![]))),
            ("fragment byte set", { let mut v = good(src4, b"x"); v[2] = 1; v }, None),
            ("reserved non-zero", { let mut v = good(src4, b"x"); v[0] = 9; v }, None),
            ("domain address type", vec![0, 0, 0, 3, 1, b'a', 0, 53, b'x', b'y'], None),
            ("unknown address type", vec![0, 0, 0, 9, 1, 2, 3, 4, 0, 53], None),
            ("too short", vec![0, 0, 0, 1, 1, 2], None),
            ("v6 type with 10 bytes", vec![0, 0, 0, 4, 1, 2, 3, 4, 0, 53], None),
            ("v6 type, address but no port", { let mut v = vec![0, 0, 0, 4]; v.extend_from_slice(&[1; 16]); v }, None),
            ("empty", vec![], None),
        ];
        for _ in 0..args.qt(100, 5000) { let n = r.below(40) as usize; packets.push(("random bytes", r.bytes(n), None)); }
        for (name, pkt, want) in packets {
            rep.evals(1);
            rep.distinct(common::fnv(&pkt));
            let _ = relay.send_to(&pkt, local).await;
            let mut buf = vec![0u8; 1500];
            let got = { use futures::FutureExt; std::panic::AssertUnwindSafe(tokio::time::timeout(Duration::from_secs(2), assoc.recv_from(&mut buf))).catch_unwind().await };
            let got = match got {
                Ok(g) => g,
                Err(_) => {
                    let loc = common::LAST_PANIC_LOCATION.with(|l| l.borrow_mut().take()).unwrap_or_default();
                    rep.violation("the UDP association panicked on a datagram from the relay", json!({"case":name,"packet":common::hex(&pkt),"panic_location":loc}));
                    continue;
                }
            };
            match (got, want) {
                (Ok(Ok((n, from))), Some((ws, wd))) => { if from != ws || n != wd.len() || buf[..n] != wd[..] { rep.violation("relayed UDP datagram unwrapped incorrectly", json!({"case":name})); } else { rep.tally("udp: unwrapped per RFC 1928 section 7", 1); } }
                (Ok(Ok(_)), None) if name == "random bytes" => rep.tally("udp: random datagram happened to parse", 1),
                (Ok(Ok(_)), None) => rep.violation(&format!("malformed relayed datagram accepted ({})", name), json!({"packet":common::hex(&pkt)})),
                (Ok(Err(_)), None) => rep.tally("udp: malformed relayed datagram rejected", 1),
                (Ok(Err(e)), Some(_)) => rep.violation("well-formed relayed datagram rejected", json!({"case":name,"error":e})),
                (Err(_), _) => rep.inconclusive("association did not receive the datagram"),
            }
        }
        srv.abort();
    });
}

/// Reply-code mapping through the real tunnel with forward_protocol = socks5 and a scripted TCP server
fn mapping_part(rep: &Arc<Reporter>, args: &Args) {
    let dir = env::work_dir(&args.root, "c15");
    let rt = env::rt_current();
    rt.block_on(async {
        let listener = tokio::net::TcpListener::bind("127.0.0.1:0").await.unwrap();
        let addr = listener.local_addr().unwrap();
        let code = Arc::new(std::sync::atomic::AtomicU8::new(0));
        {
            let code = code.clone();
            tokio::spawn(async move {
                loop {
                    let Ok((mut s, _)) = listener.accept().await else { continue };
                    let code = code.load(std::sync::atomic::Ordering::SeqCst);
                    tokio::spawn(async move {
                        let mut b = [0u8; 2];
                        if s.read_exact(&mut b).await.is_err() { return; }
                        let mut m = vec![0u8; b[1] as usize];
                        let _ = s.read_exact(&mut m).await;
                        let _ = s.write_all(&[5, 0]).await;
                        let mut h = [0u8; 4];
                        if s.read_exact(&mut h).await.is_err() { return; }
                        let alen = match h[3] { 1 => 4, 4 => 16, _ => { let mut l = [0u8; 1]; let _ = s.read_exact(&mut l).await; l[0] as usize } };
                        let mut rest = vec![0u8; alen + 2];
                        let _ = s.read_exact(&mut rest).await;
                        let _ = s.write_all(&[5, code, 0, 1, 0, 0, 0, 0, 0, 0]).await;
                        let mut buf = [0u8; 1024];
                        loop { match s.read(&mut buf).await { Ok(n) if n > 0 => { let _ = s.write_all(&buf[..n]).await; } _ => break } }
                    });
                }
            });
        }
        let ctx = Arc::new(env::make_ctx(&dir, env::CtxOpts {
            tweak: Some(Box::new(move |b| b.forwarder_settings(trusttunnel::settings::ForwardProtocolSettings::Socks5(
                trusttunnel::settings::Socks5ForwarderSettings::builder().server_address(addr).unwrap().build().unwrap())))),
            ..Default::default()
        }));
        let table: Vec<(u8, u16, Option<&str>)> = vec![(0, 200, None), (1, 502, Some("300")), (2, 502, Some("300")), (3, 502, Some("301")), (4, 502, Some("301")), (5, 502, Some("300")), (6, 502, Some("302")), (7, 502, Some("300")), (8, 502, Some("300"))];
        let mut id = 15000;
        for (c, status, warn) in table {
            for proto in [Proto::H1, Proto::H2] {
                id += 1;
                code.store(c, std::sync::atomic::Ordering::SeqCst);
                let req = Req::connect("dest.example.org:443");
                let how = How::Tunnel(Fwd::Real, Policy::Default);
                let resp = match proto {
                    Proto::H1 => h1_roundtrip(&ctx, how, "main.test", &req, Duration::from_millis(600), id).await,
                    _ => h2_session(&ctx, how, "main.test", std::slice::from_ref(&req), Duration::from_millis(900), id).await.pop().unwrap_or_default(),
                };
                rep.evals(1);
                rep.distinct(common::fnv(format!("map|{}|{:?}", c, proto).as_bytes()));
                let ok = resp.status == Some(status) && match (warn, resp.header("x-warning")) { (None, _) => true, (Some(w), Some(v)) => v.starts_with(w), _ => false };
                if !ok { rep.violation(&format!("SOCKS5 reply code {} mapped to {:?}/{:?} instead of {}/{:?}", c, resp.status, resp.header("x-warning").map(|v| v.split(' ').next().unwrap_or("").to_string()), status, warn), json!({"kind":"socks5-mapping","reply_code":c,"protocol":format!("{:?}", proto),"response":resp.summary()})); }
                else { rep.tally("reply code mapped to the documented tunnel error", 1); }
            }
        }
    });
}

pub fn run(args: &Args) -> i32 {
    let rep = Arc::new(Reporter::new(
        args,
        "fault_enumeration",
        "dialogue: seeded (credentials of length 0..600 incl. multi-byte UTF-8 / extended-auth value sets, destination IPv4/IPv6/domain of 0..300 bytes) \
         x server behaviours (method byte 0/2/0x80/0xff/unknown, auth status, reply codes 0..9/0xff, bound ATYP 1/3/4/9, truncation at a random byte, \
         0/1/2 cuts or byte-at-a-time of the server's byte stream); every client message is parsed by an independent RFC 1928/1929/extended-auth parser. \
         Plus credential splitting, RFC 1928 section 7 wrap/unwrap on a real loopback association (incl. hostile datagrams) and reply-code mapping through \
         the real tunnel with a scripted TCP SOCKS5 server. distinct_nontrivial = distinct (auth shape, request shape, server behaviour) tuples and datagrams.",
    ));
    rep.assume("zero-length user name / password / domain are EITHER (sent or refused)");
    rep.assume("dialogue part under the paused clock over tokio duplex; UDP and mapping parts in real time on loopback");
    dialogue_part(&rep, args);
    make_auth_part(&rep);
    udp_part(&rep, args);
    mapping_part(&rep, args);
    rep.finish()
}
