//! C02 L2: position-coded streams through real HTTP/1.1 and HTTP/2 tunnels over TLS on loopback —
//! the real Core::listen, real codecs (HTTP/2 flow-control credit included: transfers larger than the
//! stream and connection windows stall if credit is under-returned), the real TcpForwarder, a real
//! TCP peer. Random chunking, pauses, slow readers on either side, half-close from either side.

use crate::common::prng::coded_stream;
use crate::common::{self, Args, Reporter, Rng};
use crate::env;
use crate::l2::*;
use bytes::Bytes;
use serde_json::{json, Value};
use std::sync::atomic::{AtomicU64, Ordering};
use std::sync::Arc;
use std::time::{Duration, Instant};
use tokio::io::{AsyncReadExt, AsyncWriteExt};
use tokio::net::TcpListener;

#[derive(Clone, Debug)]
struct Case {
    index: u64,
    id: u64,
    h2: bool,
    up: usize,
    down: usize,
    up_chunk: usize,
    down_chunk: usize,
    client_slow: bool,
    peer_slow: bool,
    /// 0 = client half-closes first (after sending everything), 1 = peer half-closes first,
    /// 2 = nobody closes before it has received everything it expects, 3 = the destination resets mid-download
    close: u8,
    /// 0 = direct forwarder, 1 = through the real Socks5Forwarder and a relaying SOCKS5 proxy, 2 = the same with the
    /// destination's first bytes arriving in the same segment as the proxy's CONNECT reply
    route: u8,
    /// pause after every chunk written by either side (0 = none): a slow, steady transfer
    pace_ms: u64,
}

impl Case {
    fn json(&self) -> Value {
        let route = ["direct forwarder", "SOCKS5 forwarder", "SOCKS5 forwarder, destination's first bytes coalesced with the CONNECT reply", "direct forwarder, client_listener_timeout = 2 s, idle timeout = 1 s"][self.route as usize];
        let order = ["client-first", "peer-first", "after-everything", "destination-resets-mid-download"][self.close as usize];
        json!({"kind":"l2-tunnel","index":self.index,"id":self.id,"protocol":if self.h2 {"h2"} else {"h1"},"up_bytes":self.up,"down_bytes":self.down,"up_chunk":self.up_chunk,"down_chunk":self.down_chunk,
               "client_reads_slowly":self.client_slow,"peer_reads_slowly":self.peer_slow,"close_order":order,"route":route,"pause_after_each_chunk_ms":self.pace_ms})
    }
}

/// Compares an incoming byte stream with the position-coded stream (key, dir)
struct Checker { key: u64, dir: u64, expect: usize, pos: usize, mismatch: Option<usize> }
impl Checker {
    fn new(key: u64, dir: u64, expect: usize) -> Self { Checker { key, dir, expect, pos: 0, mismatch: None } }
    fn feed(&mut self, b: &[u8]) {
        if self.mismatch.is_none() {
            let within = b.len().min(self.expect.saturating_sub(self.pos));
            let want = coded_stream(self.key, self.dir, self.pos as u64, within);
            if let Some(i) = (0..within).find(|i| b[*i] != want[*i]) { self.mismatch = Some(self.pos + i); }
            else if b.len() > within { self.mismatch = Some(self.pos + within); } // bytes beyond the end: duplication
        }
        self.pos += b.len();
    }
}

#[derive(Debug, Default, Clone)]
struct Side { got: usize, mismatch: Option<usize>, eof: bool, error: Option<String>, stalled: bool }

/// a side is stalled when a whole IDLE period passes without a byte of progress in *either* direction
const IDLE: Duration = Duration::from_secs(30);

async fn peer(l: TcpListener, c: Case, progress: Arc<AtomicU64>) -> Side {
    let mut side = Side::default();
    let Ok(Ok((mut s, _))) = tokio::time::timeout(Duration::from_secs(10), l.accept()).await else { side.error = Some("no connection from the endpoint".into()); return side };
    if c.close == 3 {
        // the destination fails: it sends half of what the client expects and then resets the connection
        let half = c.down / 2;
        let _ = s.write_all(&coded_stream(c.id, 1, 0, half)).await;
        tokio::time::sleep(Duration::from_millis(30)).await;
        let _ = s.set_linger(Some(Duration::ZERO));
        drop(s);
        side.error = Some("destination reset the connection (by design of the case)".into());
        return side;
    }
    let (mut rd, mut wr) = s.into_split();
    let (eof_tx, eof_rx) = tokio::sync::oneshot::channel::<()>();
    let (all_tx, all_rx) = tokio::sync::oneshot::channel::<()>();
    let cw = c.clone();
    let writer = tokio::spawn(async move {
        let mut at = 0usize;
        let mut k = 0u64;
        while at < cw.down {
            let n = cw.down_chunk.min(cw.down - at);
            if wr.write_all(&coded_stream(cw.id, 1, at as u64, n)).await.is_err() { return; }
            at += n;
            k += 1;
            if cw.pace_ms > 0 { tokio::time::sleep(Duration::from_millis(cw.pace_ms)).await; }
            if k % 7 == 0 { tokio::time::sleep(Duration::from_millis(1)).await; }
        }
        match cw.close {
            1 => {}
            0 => { let _ = eof_rx.await; }
            _ => { let _ = all_rx.await; }
        }
        let _ = wr.shutdown().await;
        // keep the socket until the reader is done
        let _ = tokio::time::sleep(Duration::from_millis(10)).await;
    });
    let mut ck = Checker::new(c.id, 0, c.up);
    let mut buf = vec![0u8; 64 * 1024];
    let mut all_tx = Some(all_tx);
    let mut since_pause = 0usize;
    let mut seen = 0u64;
    loop {
        if ck.pos >= c.up { if let Some(t) = all_tx.take() { let _ = t.send(()); } }
        match tokio::time::timeout(IDLE, rd.read(&mut buf)).await {
            Ok(Ok(0)) => { side.eof = true; break; }
            Ok(Ok(n)) => {
                ck.feed(&buf[..n]);
                progress.fetch_add(n as u64, Ordering::Relaxed);
                since_pause += n;
                if c.peer_slow && since_pause >= 96 * 1024 { since_pause = 0; tokio::time::sleep(Duration::from_millis(15)).await; }
            }
            Ok(Err(e)) => { side.error = Some(e.to_string()); break; }
            Err(_) => { let p = progress.load(Ordering::Relaxed); if p != seen { seen = p; continue; } side.stalled = true; break; }
        }
    }
    let _ = eof_tx.send(());
    if let Some(t) = all_tx.take() { let _ = t.send(()); }
    let _ = tokio::time::timeout(Duration::from_secs(35), writer).await;
    side.got = ck.pos;
    side.mismatch = ck.mismatch;
    side
}

async fn client_h1(ep_addr: std::net::SocketAddr, target: String, c: Case, progress: Arc<AtomicU64>) -> Result<Side, String> {
    let out = tls_connect(ep_addr, Some("main.test"), &[b"http/1.1"], Duration::from_secs(10)).await;
    let Some(mut st) = out.stream else { return Err(format!("tls: {:?}", out.error)) };
    st.write_all(format!("CONNECT {} HTTP/1.1\r\nHost: {}\r\n\r\n", target, target).as_bytes()).await.map_err(|e| e.to_string())?;
    // response head (payload may follow in the same read)
    let mut head = vec![];
    let mut buf = vec![0u8; 64 * 1024];
    let body_start = loop {
        let n = tokio::time::timeout(Duration::from_secs(10), st.read(&mut buf)).await.map_err(|_| "no response head".to_string())?.map_err(|e| e.to_string())?;
        if n == 0 { return Err("closed before the response head".into()); }
        head.extend_from_slice(&buf[..n]);
        if let Some(i) = head.windows(4).position(|w| w == b"\r\n\r\n") { break i + 4; }
        if head.len() > 8192 { return Err("oversized response head".into()); }
    };
    if !head.starts_with(b"HTTP/1.1 200") { return Err(format!("CONNECT answered {:?}", String::from_utf8_lossy(&head[..head.len().min(40)]))); }
    let mut ck = Checker::new(c.id, 1, c.down);
    ck.feed(&head[body_start..]);
    let (mut rd, mut wr) = tokio::io::split(st);
    let (done_tx, done_rx) = tokio::sync::oneshot::channel::<()>();
    let cw = c.clone();
    let writer = tokio::spawn(async move {
        let mut at = 0usize;
        let mut k = 0u64;
        while at < cw.up {
            let n = cw.up_chunk.min(cw.up - at);
            if wr.write_all(&coded_stream(cw.id, 0, at as u64, n)).await.is_err() { return; }
            at += n;
            k += 1;
            if cw.pace_ms > 0 { let _ = wr.flush().await; tokio::time::sleep(Duration::from_millis(cw.pace_ms)).await; }
            if k % 5 == 0 { let _ = wr.flush().await; tokio::time::sleep(Duration::from_millis(1)).await; }
        }
        let _ = wr.flush().await;
        if cw.close != 0 { let _ = done_rx.await; }
        let _ = wr.shutdown().await;
    });
    let mut side = Side::default();
    let mut since_pause = 0usize;
    let mut done_tx = Some(done_tx);
    let mut seen = 0u64;
    loop {
        // in mode 2 the client closes once it has everything; in mode 1 once the peer's end-of-stream arrived
        if c.close == 2 && ck.pos >= c.down { if let Some(t) = done_tx.take() { let _ = t.send(()); } }
        match tokio::time::timeout(IDLE, rd.read(&mut buf)).await {
            Ok(Ok(0)) => { side.eof = true; break; }
            Ok(Ok(n)) => {
                ck.feed(&buf[..n]);
                progress.fetch_add(n as u64, Ordering::Relaxed);
                since_pause += n;
                if c.client_slow && since_pause >= 96 * 1024 { since_pause = 0; tokio::time::sleep(Duration::from_millis(15)).await; }
            }
            // a TLS stream closed without close_notify is reported as an error by rustls: count it as an (unclean) end
            Ok(Err(e)) => { side.error = Some(e.to_string()); break; }
            Err(_) => { let p = progress.load(Ordering::Relaxed); if p != seen { seen = p; continue; } side.stalled = true; break; }
        }
    }
    if let Some(t) = done_tx.take() { let _ = t.send(()); }
    let _ = tokio::time::timeout(Duration::from_secs(35), writer).await;
    side.got = ck.pos;
    side.mismatch = ck.mismatch;
    Ok(side)
}

async fn client_h2(ep_addr: std::net::SocketAddr, target: String, c: Case, progress: Arc<AtomicU64>) -> Result<Side, String> {
    let out = tls_connect(ep_addr, Some("main.test"), &[b"h2"], Duration::from_secs(10)).await;
    let Some(st) = out.stream else { return Err(format!("tls: {:?}", out.error)) };
    let (mut send, conn) = h2::client::handshake(st).await.map_err(|e| e.to_string())?;
    let conn = tokio::spawn(async move { let _ = conn.await; });
    let req = http::Request::builder().method("CONNECT").uri(target.as_str()).body(()).unwrap();
    futures::future::poll_fn(|cx| send.poll_ready(cx)).await.map_err(|e| e.to_string())?;
    let (fut, mut tx) = send.send_request(req, false).map_err(|e| e.to_string())?;
    let resp = tokio::time::timeout(Duration::from_secs(10), fut).await.map_err(|_| "no response".to_string())?.map_err(|e| e.to_string())?;
    if resp.status() != 200 { return Err(format!("CONNECT answered {}", resp.status())); }
    let mut recv = resp.into_body();
    let (done_tx, done_rx) = tokio::sync::oneshot::channel::<()>();
    let cw = c.clone();
    let writer = tokio::spawn(async move {
        let mut at = 0usize;
        while at < cw.up {
            let n = cw.up_chunk.min(cw.up - at);
            let mut data = Bytes::from(coded_stream(cw.id, 0, at as u64, n));
            while !data.is_empty() {
                tx.reserve_capacity(data.len());
                match tokio::time::timeout(IDLE, futures::future::poll_fn(|cx| tx.poll_capacity(cx))).await {
                    Ok(Some(Ok(cap))) if cap > 0 => { let piece = data.split_to(cap.min(data.len())); if tx.send_data(piece, false).is_err() { return; } }
                    Ok(Some(Ok(_))) => {}
                    _ => return,
                }
            }
            at += n;
            if cw.pace_ms > 0 { tokio::time::sleep(Duration::from_millis(cw.pace_ms)).await; }
        }
        if cw.close != 0 { let _ = done_rx.await; }
        let _ = tx.send_data(Bytes::new(), true);
        // keep the stream handle until the exchange is over
        tokio::time::sleep(Duration::from_millis(20)).await;
    });
    let mut ck = Checker::new(c.id, 1, c.down);
    let mut side = Side::default();
    let mut since_pause = 0usize;
    let mut done_tx = Some(done_tx);
    let mut seen = 0u64;
    loop {
        if c.close == 2 && ck.pos >= c.down { if let Some(t) = done_tx.take() { let _ = t.send(()); } }
        match tokio::time::timeout(IDLE, recv.data()).await {
            Ok(None) => { side.eof = true; break; }
            Ok(Some(Ok(b))) => {
                ck.feed(&b);
                progress.fetch_add(b.len() as u64, Ordering::Relaxed);
                since_pause += b.len();
                if c.client_slow && since_pause >= 96 * 1024 { since_pause = 0; tokio::time::sleep(Duration::from_millis(15)).await; }
                let _ = recv.flow_control().release_capacity(b.len());
            }
            Ok(Some(Err(e))) => { side.error = Some(e.to_string()); break; }
            Err(_) => { let p = progress.load(Ordering::Relaxed); if p != seen { seen = p; continue; } side.stalled = true; break; }
        }
    }
    if let Some(t) = done_tx.take() { let _ = t.send(()); }
    let _ = tokio::time::timeout(Duration::from_secs(35), writer).await;
    conn.abort();
    side.got = ck.pos;
    side.mismatch = ck.mismatch;
    Ok(side)
}

fn judge(rep: &Reporter, c: &Case, client: &Side, peer: &Side, lag_ms: u64) {
    let w = |what: &str| { let mut v = c.json(); v["what"] = json!(what); v["client_side"] = json!(format!("{:?}", client)); v["peer_side"] = json!(format!("{:?}", peer)); v["max_scheduler_lag_ms"] = json!(lag_ms); v };
    // order / duplication / alteration: MUST in every mode
    if let Some(at) = peer.mismatch { rep.violation("l2: bytes delivered to the destination differ from the bytes the client sent", w(&format!("first difference at offset {}", at))); return; }
    if let Some(at) = client.mismatch { rep.violation("l2: bytes delivered to the client differ from the bytes the destination sent", w(&format!("first difference at offset {}", at))); return; }
    if client.stalled || peer.stalled {
        if lag_ms > 2000 { rep.inconclusive("l2: no progress for 30 s on a machine whose scheduler lag exceeded 2 s"); }
        else { rep.violation("l2: tunnel stalled (no byte of progress for 30 s while data was outstanding)", w("stall")); }
        return;
    }
    let up_complete = peer.got == c.up;
    let down_complete = client.got == c.down;
    if c.close == 3 {
        // a failure of the destination must tear the tunnel down: the client may have a prefix, but it must not be told
        // that the stream ended normally (END_STREAM / close_notify)
        if client.got > c.down / 2 { rep.violation("l2: more bytes delivered to the client than the destination sent", w("duplication")); }
        else if client.eof && client.error.is_none() { rep.violation("l2: a reset by the destination reached the client as a clean end of stream (truncated download looks complete)", w("clean end after a destination reset")); }
        else { rep.tally(&format!("l2 {}: destination reset -> client saw an abortive end", if c.h2 { "h2" } else { "h1" }), 1); }
        return;
    }
    match c.close {
        0 => {
            // the client ended its direction after sending everything: the destination must have seen all of it before the end
            // (on HTTP/1.1 the client's end-of-stream ends the whole session - known finding - and what the endpoint had accepted but
            // not yet delivered to a slow destination is discarded with it: its own signature, so that the same symptom on HTTP/2 stays an alarm)
            if !up_complete && !c.h2 { rep.violation("l2: HTTP/1.1 tunnel: upload cut short after the client half-closed its direction", w("upload truncated: bytes accepted from the client were discarded when its end-of-stream ended the session")); return; }
            if !up_complete { rep.violation("l2: end of the client's stream reached the destination before all preceding bytes", w("upload truncated")); return; }
            if !peer.eof { rep.violation("l2: end of the client's stream not passed on to the destination", w("no end-of-stream at the destination")); return; }
            if !down_complete { rep.violation(&format!("l2: HTTP/{} tunnel: download cut short after the client half-closed its direction", if c.h2 { "2" } else { "1.1" }), w("download truncated after the client's end-of-stream")); return; }
            else { rep.tally("l2: client half-closes first: upload complete + end-of-stream at the destination, download complete", 1); }
        }
        1 => {
            // the destination ended its direction after sending everything
            if !down_complete { rep.violation("l2: end of the destination's stream reached the client before all preceding bytes", w("download truncated")); return; }
            if !up_complete { rep.violation(&format!("l2: HTTP/{} tunnel: upload cut short after the destination half-closed its direction", if c.h2 { "2" } else { "1.1" }), w("upload truncated after the destination's end-of-stream")); return; }
            else { rep.tally("l2: destination half-closes first: download complete, upload complete", 1); }
        }
        _ => {
            if !up_complete || !down_complete { rep.violation("l2: tunnel ended before both streams were delivered although neither side had closed", w("truncated")); return; }
            rep.tally("l2: both streams complete before anyone closed", 1);
            if peer.eof { rep.tally("l2: destination saw a clean end", 1); }
        }
    }
    rep.tally(&format!("l2 {} bytes relayed and verified", if c.h2 { "h2" } else { "h1" }), (client.got + peer.got) as u64);
}

/// Connection-level flow-control credit on HTTP/2: many tunnels on ONE session, each uploading a little and ending its
/// side (END_STREAM on the last DATA frame) while its download stays open. The endpoint's connection window is set to
/// 64 KiB and the uploads add up to several windows, so credit withheld for *any* forwarded byte stalls the session.
async fn h2_credit_scenario(rep: &Reporter, dir: &std::path::Path, seed: u64, ntunnels: usize) {
    use trusttunnel::settings::{Http1Settings, Http2Settings, ListenProtocolSettings};
    let hosts = Hosts { main: vec![("main.test".into(), vec![])], ..Default::default() };
    let ep = start_endpoint(dir, "127.0.0.1", &hosts, None, vec![], (true, true, false), |b| {
        b.allow_private_network_connections(true).tcp_connections_timeout(Duration::from_secs(300)).listen_protocols(ListenProtocolSettings {
            http1: Some(Http1Settings::builder().build()),
            http2: Some(Http2Settings::builder().initial_connection_window_size(65_535).initial_stream_window_size(65_535).build()),
            quic: None,
        })
    }).await;
    // destination: records what each connection received; never closes first
    let l = TcpListener::bind("127.0.0.1:0").await.expect("bind");
    let target = l.local_addr().unwrap().to_string();
    let received: Arc<std::sync::Mutex<Vec<Vec<u8>>>> = Default::default();
    {
        let received = received.clone();
        tokio::spawn(async move {
            loop {
                let Ok((mut s, _)) = l.accept().await else { continue };
                let received = received.clone();
                tokio::spawn(async move {
                    let mut got = vec![];
                    let mut buf = vec![0u8; 65536];
                    loop { match s.read(&mut buf).await { Ok(0) | Err(_) => break, Ok(n) => got.extend_from_slice(&buf[..n]) } }
                    received.lock().unwrap().push(got);
                    // keep the download direction open for a while after the client's end-of-stream
                    tokio::time::sleep(Duration::from_secs(20)).await;
                });
            }
        });
    }
    let out = tls_connect(ep.addr, Some("main.test"), &[b"h2"], Duration::from_secs(10)).await;
    let Some(st) = out.stream else { rep.inconclusive("l2 credit: TLS session could not be opened"); ep.task.abort(); return };
    let Ok((mut send, conn)) = h2::client::handshake(st).await else { rep.inconclusive("l2 credit: h2 handshake failed"); ep.task.abort(); return };
    let conn = tokio::spawn(async move { let _ = conn.await; });
    let key = common::fnv(format!("credit-{}", seed).as_bytes());
    let mut keep = vec![];
    let mut uploaded = 0usize;
    let mut stalled_at = None;
    for t in 0..ntunnels {
        let len = [4096usize, 9000, 16_384, 1, 12_345][t % 5];
        let req = http::Request::builder().method("CONNECT").uri(target.as_str()).body(()).unwrap();
        if futures::future::poll_fn(|cx| send.poll_ready(cx)).await.is_err() { stalled_at = Some((t, "session error")); break; }
        let Ok((fut, mut tx)) = send.send_request(req, false) else { stalled_at = Some((t, "send_request failed")); break };
        match tokio::time::timeout(Duration::from_secs(10), fut).await { Ok(Ok(r)) if r.status() == 200 => keep.push(r.into_body()), _ => { stalled_at = Some((t, "CONNECT not answered 200")); break } }
        // the whole upload and END_STREAM in as few frames as the window allows
        let mut data = Bytes::from(coded_stream(key ^ t as u64, 0, 0, len));
        let mut ok = true;
        while !data.is_empty() {
            tx.reserve_capacity(data.len());
            match tokio::time::timeout(Duration::from_secs(15), futures::future::poll_fn(|cx| tx.poll_capacity(cx))).await {
                Ok(Some(Ok(cap))) if cap > 0 => { let piece = data.split_to(cap.min(data.len())); let last = data.is_empty(); if tx.send_data(piece, last).is_err() { ok = false; break; } }
                Ok(Some(Ok(_))) => {}
                _ => { ok = false; break; }
            }
        }
        if !ok { stalled_at = Some((t, "no send capacity within 15 s")); break; }
        uploaded += len;
    }
    tokio::time::sleep(Duration::from_millis(300)).await;
    rep.evals(1);
    rep.distinct(common::fnv(format!("credit|{}|{}", seed, ntunnels).as_bytes()));
    let got = received.lock().unwrap().clone();
    let forwarded: usize = got.iter().map(|g| g.len()).sum();
    let w = json!({"kind":"l2-h2-credit","tunnels":ntunnels,"connection_window":65_535,"uploaded_bytes":uploaded,"bytes_at_destinations":forwarded,"destinations_that_saw_end_of_stream":got.len(),"stalled_at":stalled_at.map(|(t, why)| format!("tunnel #{}: {}", t, why))});
    if rep.want_sample() { rep.sample(w.clone()); }
    if stalled_at.is_some() {
        rep.violation("l2: HTTP/2 session stalled: connection-level credit not returned for bytes that were forwarded", w);
    } else if forwarded != uploaded || got.len() != ntunnels {
        rep.violation("l2: uploads on half-closed HTTP/2 tunnels did not all reach their destinations", w);
    } else {
        rep.tally("l2: h2 session carried several connection windows of uploads over half-closed tunnels without stalling", 1);
        rep.tally("l2 h2 credit: bytes uploaded through a 64 KiB connection window", uploaded as u64);
    }
    drop(keep);
    conn.abort();
    ep.task.abort();
}

pub fn run_l2(rep: &Reporter, args: &Args) {
    let dir = env::work_dir(&args.root, "c02");
    let rt = env::rt_multi(6);
    let seed = args.seed;
    let ncases = args.qt(40u64, 600u64);
    let big = args.qt(9usize << 20, 24usize << 20);
    rt.block_on(async {
        let hosts = Hosts { main: vec![("main.test".into(), vec![])], ..Default::default() };
        let ep = start_endpoint(&dir, "127.0.0.1", &hosts, None, vec![], (true, true, false), |b| {
            b.allow_private_network_connections(true).tcp_connections_timeout(Duration::from_secs(300))
        }).await;
        // the same tunnels through the real Socks5Forwarder: a relaying SOCKS5 proxy on loopback (and a second one that
        // sends the destination's first bytes in the same write as its CONNECT reply)
        let s5a = crate::s5srv::S5Server::start(Default::default()).await;
        let s5b = crate::s5srv::S5Server::start(crate::s5srv::S5Opts { coalesce_first_bytes: true, ..Default::default() }).await;
        let mut s5_eps = vec![];
        for (k, s5) in [&s5a, &s5b].into_iter().enumerate() {
            let d = env::work_dir(&args.root, &format!("c02s5{}", k));
            let a = s5.addr;
            s5_eps.push(start_endpoint(&d, "127.0.0.1", &hosts, None, vec![], (true, true, false), move |b| {
                b.allow_private_network_connections(true).tcp_connections_timeout(Duration::from_secs(300))
                    .forwarder_settings(trusttunnel::settings::ForwardProtocolSettings::Socks5(trusttunnel::settings::Socks5ForwarderSettings::builder().server_address(a).unwrap().build().unwrap()))
            }).await);
        }
        // an endpoint whose client listener timeout (2 s) is much shorter than a steady transfer takes
        let ep_short = {
            let d = env::work_dir(&args.root, "c02short");
            start_endpoint(&d, "127.0.0.1", &hosts, None, vec![], (true, true, false), |b| {
                b.allow_private_network_connections(true).tcp_connections_timeout(Duration::from_secs(1)).client_listener_timeout(Duration::from_secs(2))
            }).await
        };
        let route_addr = [ep.addr, s5_eps[0].addr, s5_eps[1].addr, ep_short.addr];
        // scheduler-lag monitor
        let lag = Arc::new(AtomicU64::new(0));
        let lag2 = lag.clone();
        let hb = tokio::spawn(async move {
            loop {
                let t = Instant::now();
                tokio::time::sleep(Duration::from_millis(50)).await;
                let over = t.elapsed().as_millis() as u64 - 50.min(t.elapsed().as_millis() as u64);
                lag2.fetch_max(over, Ordering::Relaxed);
            }
        });
        let sizes = [0usize, 1, 5, 16_383, 70_001, 300_000, 1_500_000];
        let chunks = [1usize, 7, 1000, 16_384, 65_536, 200_000];
        let mut cases = vec![];
        for i in 0..ncases {
            let mut r = Rng::derive(seed, 0xc02f2, i);
            let mut c = Case {
                index: i, id: common::fnv(format!("c02l2-{}-{}", seed, i).as_bytes()), h2: r.chance(1, 2), up: *r.pick(&sizes), down: *r.pick(&sizes), up_chunk: *r.pick(&chunks), down_chunk: *r.pick(&chunks),
                client_slow: r.chance(1, 4), peer_slow: r.chance(1, 4), close: r.below(3) as u8, route: 0, pace_ms: 0,
            };
            // tiny chunks only for small streams
            if c.up > 100_000 && c.up_chunk < 1000 { c.up_chunk = 16_384; }
            if c.down > 100_000 && c.down_chunk < 1000 { c.down_chunk = 16_384; }
            if c.up > 20_000 && c.up_chunk < 7 { c.up_chunk = 7; }
            if c.down > 20_000 && c.down_chunk < 7 { c.down_chunk = 7; }
            cases.push(c);
        }
        // a share of the seeded cases again through the SOCKS5 forwarder, plus fixed ones in which the destination speaks first
        let n0 = cases.len();
        for i in 0..n0 {
            if i % 3 != 0 { continue; }
            let mut c = cases[i].clone();
            c.index += 3_000_000;
            c.id = common::fnv(format!("c02l2-s5-{}-{}", seed, i).as_bytes());
            c.route = 1 + ((i / 3) % 2) as u8;
            cases.push(c);
        }
        for (k, (h2, up, down, route)) in [(false, 10usize, 700usize, 2u8), (true, 10, 700, 2), (false, 0, 70_001, 2), (true, 0, 70_001, 2), (false, 300_000, 300_000, 1), (true, 300_000, 300_000, 2)].into_iter().enumerate() {
            cases.push(Case { index: 4_000_000 + k as u64, id: common::fnv(format!("c02l2-s5fixed-{}-{}", seed, k).as_bytes()), h2, up, down, up_chunk: 16_384, down_chunk: 1000, client_slow: false, peer_slow: false, close: 2, route, pace_ms: 0 });
        }
        for (k, (h2, route)) in [(true, 1u8), (false, 1), (true, 2), (false, 2)].into_iter().enumerate() {
            cases.push(Case { index: 5_000_000 + k as u64, id: common::fnv(format!("c02l2-s5rst-{}-{}", seed, k).as_bytes()), h2, up: 0, down: 200_000, up_chunk: 16_384, down_chunk: 16_384, client_slow: false, peer_slow: false, close: 3, route, pace_ms: 0 });
        }
        // one-way steady transfers on the same endpoint (idle timeout 1 s): the silent direction's timer fires every second
        // and cancels the copy loop of the busy direction, which must resume without losing or inventing a byte
        for (k, (h2, up, down)) in [(false, 15_000usize, 0usize), (true, 15_000, 0), (false, 0, 15_000), (true, 0, 15_000)].into_iter().enumerate() {
            cases.push(Case { index: 7_000_000 + k as u64, id: common::fnv(format!("c02l2-oneway-{}-{}", seed, k).as_bytes()), h2, up, down, up_chunk: 1000, down_chunk: 1000, client_slow: false, peer_slow: false, close: 2, route: 3, pace_ms: 200 });
        }
        // steady transfers (a 1000-byte chunk every 200 ms each way, 5 s) on a session that gets no other request meanwhile
        for (k, h2) in [false, true].into_iter().enumerate() {
            cases.push(Case { index: 6_000_000 + k as u64, id: common::fnv(format!("c02l2-steady-{}-{}", seed, k).as_bytes()), h2, up: 25_000, down: 25_000, up_chunk: 1000, down_chunk: 1000, client_slow: false, peer_slow: false, close: 2, route: 3, pace_ms: 200 });
        }
        for (k, (h2, down)) in [(true, 200_000usize), (false, 200_000), (true, 3000), (false, 3000), (true, 1_500_000), (false, 1_500_000)].into_iter().enumerate() {
            cases.push(Case { index: 2_000_000 + k as u64, id: common::fnv(format!("c02l2-rst-{}-{}", seed, k).as_bytes()), h2, up: 0, down, up_chunk: 16_384, down_chunk: 16_384, client_slow: false, peer_slow: false, close: 3, route: 0, pace_ms: 0 });
        }
        // transfers larger than the HTTP/2 stream (128 KiB) and connection (8 MiB) windows, either direction, and on HTTP/1.1
        for (k, (h2, up, down)) in [(true, big, 3usize), (true, 3usize, big), (false, big / 2, big / 2), (true, big / 2, big / 2)].into_iter().enumerate() {
            cases.push(Case { index: 1_000_000 + k as u64, id: common::fnv(format!("c02l2-big-{}-{}", seed, k).as_bytes()), h2, up, down, up_chunk: 65_536, down_chunk: 65_536, client_slow: k == 1, peer_slow: k == 0, close: 2, route: 0, pace_ms: 0 });
        }
        // debugging aid: --l2-only <index> runs one case with the library's log
        let only: Option<u64> = args.extra.iter().position(|x| x == "--l2-only").and_then(|i| args.extra.get(i + 1)).and_then(|x| x.parse().ok());
        if let Some(o) = only { cases.retain(|c| c.index == o); crate::common::logcap::install(true); }
        let sem = Arc::new(tokio::sync::Semaphore::new(6));
        let mut js = vec![];
        for c in cases {
            let (sem, lag, addr) = (sem.clone(), lag.clone(), route_addr[c.route as usize]);
            js.push(tokio::spawn(async move {
                let _p = sem.acquire_owned().await.unwrap();
                let l = TcpListener::bind("127.0.0.1:0").await.expect("bind");
                let target = l.local_addr().unwrap().to_string();
                let progress = Arc::new(AtomicU64::new(0));
                let pj = tokio::spawn(peer(l, c.clone(), progress.clone()));
                let cl = if c.h2 { client_h2(addr, target, c.clone(), progress.clone()).await } else { client_h1(addr, target, c.clone(), progress.clone()).await };
                let peer_side = match tokio::time::timeout(Duration::from_secs(80), pj).await { Ok(Ok(s)) => s, _ => Side { stalled: true, ..Default::default() } };
                (c, cl, peer_side, lag.load(Ordering::Relaxed))
            }));
        }
        for j in js {
            let Ok((c, cl, peer_side, lag_ms)) = j.await else { rep.inconclusive("l2: case task failed"); continue };
            rep.evals(1);
            rep.distinct(common::fnv(format!("{:?}", (c.h2, c.up, c.down, c.up_chunk, c.down_chunk, c.client_slow, c.peer_slow, c.close, c.route)).as_bytes()));
            if c.route > 0 { rep.tally("l2: tunnels through the real SOCKS5 forwarder judged", 1); }
            match cl {
                Err(e) => { rep.inconclusive(&format!("l2: tunnel could not be opened ({})", e.chars().take(60).collect::<String>())); }
                Ok(client_side) => {
                    if rep.want_sample() { let mut v = c.json(); v["client_received"] = json!(client_side.got); v["destination_received"] = json!(peer_side.got); rep.sample(v); }
                    judge(rep, &c, &client_side, &peer_side, lag_ms);
                }
            }
        }
        if only.is_some() { for rec in crate::common::logcap::drain() { println!("{} [{}] {}", rec.level, rec.target, rec.message.chars().take(300).collect::<String>()); } }
        hb.abort();
        ep.task.abort();
        for e in &s5_eps { e.task.abort(); }
        ep_short.task.abort();
        rep.set("l2_socks5", json!({"connect_requests_seen_by_the_proxies": [s5a.events().len(), s5b.events().len()]}));
        h2_credit_scenario(rep, &dir, seed, args.qt(40usize, 400usize)).await;
    });
    crate::props::h3_l2::c02_h3(rep, args);
    rep.set("l2", json!({"what": "position-coded streams through real HTTP/1.1 and HTTP/2 tunnels over TLS on loopback (real Core::listen, codecs, TcpForwarder)",
        "largest_transfer_bytes": big, "http2_windows": {"stream": 128 * 1024, "connection": 8 * 1024 * 1024}}));
}
