//! C05 — SNI/ALPN demultiplexing selects the right host, channel and protocol.

use crate::common::report::Local;
use crate::common::{self, Args, Reporter, Rng};
use crate::env;
use serde_json::{json, Value};
use std::collections::{BTreeMap, HashMap};
use std::sync::Arc;
use trusttunnel::settings::{ReverseProxySettings, Settings, TlsHostInfo, TlsHostsSettings};
use trusttunnel::verif::misc::{tls_select, Demux, MetaView};
use trusttunnel::verif::tunnel::{Chan, Proto};

fn names() -> Vec<String> {
    let labels = ["a", "b"];
    let mut v = vec![];
    for x in labels { v.push(x.to_string()); }
    for x in labels { for y in labels { v.push(format!("{}.{}", x, y)); } }
    for x in labels { for y in labels { for z in labels { v.push(format!("{}.{}.{}", x, y, z)); } } }
    v
}

#[derive(Clone, Debug)]
pub struct Config {
    pub main: Vec<(String, Vec<String>)>,
    pub ping: Vec<String>,
    pub speed: Vec<String>,
    pub rp: Vec<String>,
    pub rp_enabled: bool,
    pub h1: bool,
    pub h2: bool,
    pub quic: bool,
}

#[derive(Clone, Debug, PartialEq, Eq)]
pub enum Want {
    Refuse,
    /// channel, host whose certificate is served, credentials (None = must be absent, Some(None) = not pinned), protocol
    Select { chan: Chan, host: String, creds: Option<Option<String>>, proto: Proto },
    /// outcome not pinned by the statement
    Either,
}

pub fn reference(cfg: &Config, sni: &str, alpn: &[Vec<u8>]) -> Want {
    // ---- which entry does the SNI designate ----
    let exact_main = cfg.main.iter().find(|(h, _)| h == sni);
    let exact: Option<(Chan, String)> = if let Some((h, _)) = exact_main { Some((Chan::Tunnel, h.clone())) }
        else if cfg.rp_enabled && cfg.rp.iter().any(|h| h == sni) { Some((Chan::ReverseProxy, sni.to_string())) }
        else if cfg.ping.iter().any(|h| h == sni) { Some((Chan::Ping, sni.to_string())) }
        else if cfg.speed.iter().any(|h| h == sni) { Some((Chan::Speedtest, sni.to_string())) }
        else { None };
    let alt = cfg.main.iter().find(|(_, alts)| alts.iter().any(|a| a == sni)).map(|(h, _)| h.clone());
    let label = sni.split_once('.').and_then(|(l, rest)| cfg.main.iter().find(|(h, _)| h == rest).map(|(h, _)| (l.to_string(), h.clone())));
    let (chan, host, creds): (Chan, String, Option<Option<String>>) = match (exact, alt, label) {
        (Some((c, h)), _, _) => (c, h, Some(None)),
        (None, Some(h), None) => (Chan::Tunnel, h, Some(None)),
        (None, None, Some((l, h))) => (Chan::Tunnel, h, Some(Some(l))),
        // both an alternative SNI and of the <label>.<main> form: host and credentials not pinned
        (None, Some(_), Some(_)) => return Want::Either,
        (None, None, None) => return Want::Refuse,
    };
    // ---- protocol ----
    let parsed: Vec<Proto> = alpn.iter().filter_map(|a| match a.as_slice() { b"h3" => Some(Proto::H3), b"h2" => Some(Proto::H2), b"http/1.1" => Some(Proto::H1), _ => None }).collect();
    if !alpn.is_empty() && parsed.is_empty() { return Want::Refuse; }
    let enabled = |p: Proto| match p { Proto::H1 => cfg.h1, Proto::H2 => cfg.h2, Proto::H3 => cfg.quic };
    let permitted = |p: Proto| chan != Chan::ReverseProxy || p != Proto::H2;
    let best = parsed.iter().copied().filter(|p| enabled(*p) && permitted(*p)).max();
    let proto = match best {
        Some(p) => p,
        None if alpn.is_empty() && enabled(Proto::H1) => Proto::H1,
        None => return Want::Refuse,
    };
    // credentials: `creds = Some(None)` means "must carry none" here; translate
    let creds = match creds { Some(None) => Some(None), other => other };
    Want::Select { chan, host, creds, proto }
}

static SAMPLES: std::sync::Mutex<Vec<Value>> = std::sync::Mutex::new(Vec::new());

struct Certs {
    infos: HashMap<String, (String, String, Vec<u8>)>,
}

fn make_certs(dir: &std::path::Path, suffix: &str) -> Certs {
    let mut infos = HashMap::new();
    for n in names() {
        let file_host = format!("{}{}", n, suffix);
        let (c, k, der) = env::make_cert(dir, &file_host, &[]);
        infos.insert(n, (c, k, der));
    }
    Certs { infos }
}

fn host(certs: &Certs, name: &str, alts: Vec<String>) -> TlsHostInfo {
    let (c, k, _) = &certs.infos[name];
    TlsHostInfo { hostname: name.to_string(), cert_chain_path: c.clone(), private_key_path: k.clone(), allowed_sni: alts }
}

fn build(cfg: &Config, certs: &Certs) -> Result<(Settings, TlsHostsSettings), String> {
    let mut b = Settings::builder().listen_address("127.0.0.1:1443").map_err(|e| e.to_string())?.listen_protocols(env::listen_protocols(cfg.h1, cfg.h2, cfg.quic));
    if cfg.rp_enabled {
        b = b.reverse_proxy(ReverseProxySettings::builder().server_address("127.0.0.1:8080").unwrap().path_mask("/rp".into()).build().map_err(|e| format!("{:?}", e))?);
    }
    let settings = b.build().map_err(|e| format!("{:?}", e))?;
    let hosts = TlsHostsSettings::builder()
        .main_hosts(cfg.main.iter().map(|(h, a)| host(certs, h, a.clone())).collect())
        .ping_hosts(cfg.ping.iter().map(|h| host(certs, h, vec![])).collect())
        .speedtest_hosts(cfg.speed.iter().map(|h| host(certs, h, vec![])).collect())
        .reverse_proxy_hosts(cfg.rp.iter().map(|h| host(certs, h, vec![])).collect())
        .build()
        .map_err(|e| format!("{:?}", e))?;
    Ok((settings, hosts))
}

pub fn gen_config(r: &mut Rng) -> Config {
    let mut pool = names();
    // shuffle
    for i in (1..pool.len()).rev() { let j = r.below(i as u64 + 1) as usize; pool.swap(i, j); }
    let mut take = |n: usize| -> Vec<String> { (0..n).filter_map(|_| pool.pop()).collect() };
    let nmain = r.range(1, 2) as usize;
    let main: Vec<(String, Vec<String>)> = take(nmain).into_iter().map(|h| h).collect::<Vec<_>>().into_iter().map(|h| (h, vec![])).collect();
    let mut main = main;
    if r.chance(1, 2) { let alts = take(r.range(1, 2) as usize); main[0].1 = alts; }
    let ping = take(r.below(2) as usize);
    let speed = take(r.below(2) as usize);
    let rp = take(r.below(2) as usize);
    let protos = r.range(1, 7);
    Config { main, ping, speed, rp, rp_enabled: r.chance(2, 3), h1: protos & 1 != 0, h2: protos & 2 != 0, quic: protos & 4 != 0 }
}

fn alpn_lists(max_len: usize) -> Vec<Vec<Vec<u8>>> {
    let toks: Vec<Vec<u8>> = vec![b"h3".to_vec(), b"h2".to_vec(), b"http/1.1".to_vec(), b"spdy".to_vec(), vec![0xff, 0xfe]];
    let mut out: Vec<Vec<Vec<u8>>> = vec![vec![]];
    let mut frontier: Vec<Vec<Vec<u8>>> = vec![vec![]];
    for _ in 0..max_len {
        let mut next = vec![];
        for f in &frontier { for t in &toks { let mut x = f.clone(); x.push(t.clone()); next.push(x); } }
        out.extend(next.iter().cloned());
        frontier = next;
    }
    out
}

fn describe_alpn(a: &[Vec<u8>]) -> Vec<String> {
    a.iter().map(|x| String::from_utf8(x.clone()).unwrap_or_else(|_| common::hex(x))).collect()
}

fn judge(cfg: &Config, certs: &Certs, sni: &str, alpn: &[Vec<u8>], got: &Result<MetaView, String>, local: &mut Local, bad: &mut BTreeMap<String, Value>) {
    let want = reference(cfg, sni, alpn);
    let witness = || json!({"kind":"tls-select","config":{"main":cfg.main,"ping":cfg.ping,"speedtest":cfg.speed,"reverse_proxy_hosts":cfg.rp,"reverse_proxy_enabled":cfg.rp_enabled,"http1":cfg.h1,"http2":cfg.h2,"quic":cfg.quic},
        "sni":sni,"alpn":describe_alpn(alpn),"selected":got.as_ref().map(|m| json!({"channel":format!("{:?}", m.channel),"protocol":format!("{:?}", m.protocol),"creds":m.sni_auth_creds,"cert_host":certs.infos.iter().find(|(_, v)| Some(&v.2) == m.cert_chain_der.first()).map(|(k, _)| k.clone())})).map_err(|e| e.clone()),"expected":format!("{:?}", want)});
    match (&want, got) {
        (Want::Either, _) => local.tally("select: either zone (alt SNI that is also <label>.<main>)", 1),
        (Want::Refuse, Err(_)) => local.tally("select: refused as expected", 1),
        (Want::Refuse, Ok(m)) => {
            let why = if alpn.iter().all(|a| !matches!(a.as_slice(), b"h3" | b"h2" | b"http/1.1")) && !alpn.is_empty() { "only unknown ALPNs offered".to_string() }
                else if reference(cfg, sni, &[]) == Want::Refuse && reference(cfg, sni, &[b"http/1.1".to_vec()]) == Want::Refuse && reference(cfg, sni, &[b"h2".to_vec()]) == Want::Refuse && reference(cfg, sni, &[b"h3".to_vec()]) == Want::Refuse { "SNI designates no entry".to_string() }
                else { format!("no protocol is offered, enabled and permitted for the {:?} channel (selected {:?})", m.channel, m.protocol) };
            bad.entry(format!("selection accepted although it must be refused: {}", why)).or_insert_with(witness);
        }
        (Want::Select { .. }, Err(_)) => { bad.entry("selection refused although an entry and a protocol match".to_string()).or_insert_with(witness); }
        (Want::Select { chan, host, creds, proto }, Ok(m)) => {
            let cert_ok = m.cert_chain_der.first() == Some(&certs.infos[host].2);
            if m.channel != *chan { bad.entry(format!("wrong channel {:?} instead of {:?}", m.channel, chan)).or_insert_with(witness); }
            else if !cert_ok { bad.entry("certificate of another host served".to_string()).or_insert_with(witness); }
            else if m.protocol != *proto { bad.entry(format!("wrong protocol for the {:?} channel: {:?} instead of {:?}", chan, m.protocol, proto)).or_insert_with(witness); }
            else if let Some(c) = creds { if m.sni_auth_creds != *c { bad.entry("wrong SNI credentials label".to_string()).or_insert_with(witness); } else { local.tally(&format!("select: {:?}/{:?} as expected", chan, proto), 1); if local.evals % 20011 == 3 { local.tallies.insert("__sample__".into(), 0); SAMPLES.lock().unwrap().push(witness()); } } }
        }
    }
}

fn l0(rep: &Arc<Reporter>, args: &Args) {
    let dir = env::work_dir(&args.root, "c05");
    let certs = Arc::new(make_certs(&dir, ""));
    let n = common::workers();
    let seed = args.seed;
    let nconf = args.qt(1500u64, 40_000u64);
    let alpns = Arc::new(alpn_lists(args.qt(2, 3)));
    let results = common::parallel(n, { let certs = certs.clone(); let alpns = alpns.clone(); move |shard, nshards| {
        let mut local = Local::default();
        let mut bad: BTreeMap<String, Value> = BTreeMap::new();
        let mut snis = names();
        snis.push(String::new());
        snis.push("c".into());
        snis.push("a.b.a.b".into());
        let mut k = shard as u64;
        while k < nconf {
            let mut r = Rng::derive(seed, 0xc05, k);
            let cfg = gen_config(&mut r);
            k += nshards as u64;
            let demux = match build(&cfg, &certs).and_then(|(s, h)| Demux::new(&s, &h)) {
                Ok(d) => d,
                Err(e) => { bad.entry("valid host configuration rejected".to_string()).or_insert(json!({"config":format!("{:?}", cfg),"error":e})); continue; }
            };
            local.distinct.push(common::fnv(format!("{:?}", cfg).as_bytes()));
            for sni in &snis {
                for alpn in alpns.iter() {
                    local.evals += 1;
                    let got = match common::catch(|| demux.select(alpn, sni)) {
                        Ok(g) => g,
                        Err(p) => { bad.entry(format!("select panicked: {}", common::panic_file(&p))).or_insert(json!({"config":format!("{:?}", cfg),"sni":sni,"panic":p})); continue; }
                    };
                    judge(&cfg, &certs, sni, alpn, &got, &mut local, &mut bad);
                }
            }
        }
        (local, bad)
    }});
    for (mut l, b) in results { for (s, d) in b { rep.violation(&s, d); } l.tallies.remove("__sample__"); l.merge_into(rep); }
    for s in SAMPLES.lock().unwrap().drain(..).take(4) { rep.sample(s); }
    // validation: duplicates across classes and unloadable files must be rejected
    let c = &certs;
    let dup = TlsHostsSettings::builder().main_hosts(vec![host(c, "a", vec![])]).ping_hosts(vec![host(c, "a", vec![])]).build();
    rep.evals(1);
    if dup.is_ok() { rep.violation("duplicate host name across classes accepted", json!({})); } else { rep.tally("validate: duplicate host rejected", 1); }
    let dup2 = TlsHostsSettings::builder().main_hosts(vec![host(c, "a", vec![]), host(c, "a", vec![])]).build();
    if dup2.is_ok() { rep.violation("duplicate main host accepted", json!({})); } else { rep.tally("validate: duplicate host rejected", 1); }
    let missing = TlsHostsSettings::builder().main_hosts(vec![TlsHostInfo { hostname: "a".into(), cert_chain_path: "/nonexistent.pem".into(), private_key_path: "/nonexistent.key".into(), allowed_sni: vec![] }]).build();
    if missing.is_ok() { rep.violation("host with unloadable certificate accepted", json!({})); } else { rep.tally("validate: unloadable certificate rejected", 1); }
    let garbage = dir.join("garbage.pem");
    std::fs::write(&garbage, "-----BEGIN CERTIFICATE-----\nnot base64\n-----END CERTIFICATE-----\n").unwrap();
    let g = TlsHostsSettings::builder().main_hosts(vec![TlsHostInfo { hostname: "a".into(), cert_chain_path: garbage.to_string_lossy().into(), private_key_path: garbage.to_string_lossy().into(), allowed_sni: vec![] }]).build();
    if g.is_ok() { rep.violation("host with garbage certificate accepted", json!({})); } else { rep.tally("validate: garbage certificate rejected", 1); }
    let none = TlsHostsSettings::builder().build();
    if none.is_ok() { rep.violation("host settings without a main host accepted", json!({})); } else { rep.tally("validate: no main host rejected", 1); }
}

/// hot reload: selections concurrent with reloads must match configuration A or B as a whole
fn reload(rep: &Arc<Reporter>, args: &Args) {
    let dir = env::work_dir(&args.root, "c05");
    let certs_a = make_certs(&dir, "");
    let certs_b = make_certs(&dir, "-b");
    let cfg_a = Config { main: vec![("a".into(), vec!["b.b".into()])], ping: vec!["b".into()], speed: vec![], rp: vec![], rp_enabled: false, h1: true, h2: true, quic: false };
    let cfg_b = Config { main: vec![("b".into(), vec![])], ping: vec![], speed: vec!["a".into()], rp: vec![], rp_enabled: false, h1: true, h2: true, quic: false };
    let (settings, hosts_a) = build(&cfg_a, &certs_a).unwrap();
    let ctx = Arc::new(trusttunnel::verif::ctx::Ctx::new(settings, None, hosts_a).unwrap());
    let stop = Arc::new(std::sync::atomic::AtomicBool::new(false));
    let snis = ["a", "b", "x.a", "x.b", "b.b", "a.a"];
    let alpn = vec![b"h2".to_vec(), b"http/1.1".to_vec()];
    let expect = |cfg: &Config, certs: &Certs, sni: &str| -> Option<(Chan, Vec<u8>, Option<String>)> {
        match reference(cfg, sni, &alpn) { Want::Select { chan, host, creds, .. } => Some((chan, certs.infos[&host].2.clone(), creds.flatten())), _ => None }
    };
    let table: Vec<(Option<(Chan, Vec<u8>, Option<String>)>, Option<(Chan, Vec<u8>, Option<String>)>)> = snis.iter().map(|s| (expect(&cfg_a, &certs_a, s), expect(&cfg_b, &certs_b, s))).collect();
    let table = Arc::new(table);
    let mut handles = vec![];
    for t in 0..8 {
        let ctx = ctx.clone(); let stop = stop.clone(); let table = table.clone(); let alpn = alpn.clone();
        handles.push(std::thread::spawn(move || {
            let (mut a, mut b, mut ambiguous, mut neither) = (0u64, 0u64, 0u64, vec![]);
            let mut i = t;
            while !stop.load(std::sync::atomic::Ordering::Relaxed) {
                let k = i % snis.len(); i += 1;
                let got = tls_select(&ctx, &alpn, snis[k]).ok().map(|m| (m.channel, m.cert_chain_der.first().cloned().unwrap_or_default(), m.sni_auth_creds));
                let (ea, eb) = &table[k];
                match (got == *ea, got == *eb) { (true, true) => ambiguous += 1, (true, false) => a += 1, (false, true) => b += 1, (false, false) => neither.push(format!("sni={} got={:?}", snis[k], got.map(|g| (g.0, g.2)))) }
            }
            (a, b, ambiguous, neither)
        }));
    }
    let rounds = args.qt(400, 6000);
    let mut failed_reload_kept = 0u64;
    for i in 0..rounds {
        let (cfg, certs) = if i % 2 == 0 { (&cfg_b, &certs_b) } else { (&cfg_a, &certs_a) };
        let (_, hosts) = build(cfg, certs).unwrap();
        if let Err(e) = ctx.core.reload_tls_hosts_settings(hosts) { rep.violation("valid reload refused", json!({"error":e.to_string()})); }
        if i % 5 == 0 {
            // a reload that must fail: the previous configuration stays in force
            let before: Vec<_> = snis.iter().map(|s| tls_select(&ctx, &alpn, s).ok().map(|m| (m.channel, m.cert_chain_der))).collect();
            let bad_hosts = TlsHostsSettings::builder().main_hosts(vec![host(&certs_a, "a", vec![])]).build().unwrap();
            let moved = dir.join("moved-away.pem");
            let orig = certs_a.infos["a"].0.clone();
            let _ = std::fs::rename(&orig, &moved);
            let r = ctx.core.reload_tls_hosts_settings(bad_hosts);
            let _ = std::fs::rename(&moved, &orig);
            let after: Vec<_> = snis.iter().map(|s| tls_select(&ctx, &alpn, s).ok().map(|m| (m.channel, m.cert_chain_der))).collect();
            if r.is_ok() { rep.violation("reload with an unloadable certificate reported success", json!({})); }
            else if before != after { rep.violation("failed reload changed the configuration in force", json!({})); }
            else { failed_reload_kept += 1; }
            // the same from a hosts *file* (what the endpoint reloads on SIGHUP: not built by the builder, so the reload has
            // to validate it): certificates load, but the settings are structurally invalid
            let (ca, ka, _) = &certs_a.infos["a"];
            let entry = |class: &str, name: &str| format!("[[{}]]\nhostname = \"{}\"\ncert_chain_path = \"{}\"\nprivate_key_path = \"{}\"\n", class, name, ca, ka);
            for (what, text) in [
                ("a host name shared by two host classes", format!("{}{}{}", entry("main_hosts", "zz.reload.test"), entry("ping_hosts", "dup.reload.test"), entry("speedtest_hosts", "dup.reload.test"))),
                ("no main host", entry("ping_hosts", "only-ping.reload.test")),
                ("the same main host twice", format!("{}{}", entry("main_hosts", "zz.reload.test"), entry("main_hosts", "zz.reload.test"))),
            ] {
                let Ok(file_hosts) = toml::from_str::<TlsHostsSettings>(&text) else { rep.tally("reload: invalid hosts file rejected by the parser already", 1); continue };
                let before: Vec<_> = snis.iter().map(|s| tls_select(&ctx, &alpn, s).ok().map(|m| (m.channel, m.cert_chain_der))).collect();
                let r = ctx.core.reload_tls_hosts_settings(file_hosts);
                let after: Vec<_> = snis.iter().map(|s| tls_select(&ctx, &alpn, s).ok().map(|m| (m.channel, m.cert_chain_der))).collect();
                if r.is_ok() { rep.violation(&format!("reload of invalid host settings reported success: {}", what), json!({"hosts_file": text})); let (_, hosts) = build(cfg, certs).unwrap(); let _ = ctx.core.reload_tls_hosts_settings(hosts); }
                else if before != after { rep.violation("failed reload changed the configuration in force", json!({"invalid_because": what, "hosts_file": text})); let (_, hosts) = build(cfg, certs).unwrap(); let _ = ctx.core.reload_tls_hosts_settings(hosts); }
                else { failed_reload_kept += 1; }
            }
        }
        std::thread::sleep(std::time::Duration::from_micros(200));
    }
    stop.store(true, std::sync::atomic::Ordering::Relaxed);
    let (mut a, mut b, mut amb) = (0, 0, 0);
    for h in handles {
        let (x, y, z, neither) = h.join().unwrap();
        a += x; b += y; amb += z;
        if let Some(n) = neither.first() { rep.violation("selection during reload consistent with neither the old nor the new configuration", json!({"observation":n,"count":neither.len()})); }
    }
    rep.evals(a + b + amb);
    rep.tally("reload: selections consistent with configuration A only", a);
    rep.tally("reload: selections consistent with configuration B only", b);
    rep.tally("reload: selections consistent with both", amb);
    rep.tally("reload: failed reload left the configuration in force", failed_reload_kept);
    if a == 0 || b == 0 { rep.inconclusive("reload stress did not observe both configurations"); }
}

pub fn run(args: &Args) -> i32 {
    let rep = Arc::new(Reporter::new(
        args,
        "exploration",
        "L0: seeded host configurations over the names {a,b}^(1..3 labels) (so dot-suffix overlaps between host classes, alternative SNIs and \
         <credentials>.<main> occur), every non-empty subset of listen protocols, reverse proxy on/off x every name (+ empty, foreign, 4-label) as SNI x \
         every ALPN sequence of length <= 2 (quick) / 3 (thorough) over {h3,h2,http/1.1,spdy,non-UTF-8} + absent, against a reference router; validation \
         of duplicate/unloadable hosts; 8 threads selecting through the live RwLock during alternating reloads A/B/invalid. L2: see coverage.l2. \
         distinct_nontrivial = distinct configurations.",
    ));
    rep.assume("an SNI that is both a configured alternative SNI and of the <label>.<main> form is EITHER");
    rep.assume("at select level HTTP/3 may be chosen when QUIC is enabled (the QUIC listener uses the same function); 'never on TCP' is checked in L2");
    l0(&rep, args);
    reload(&rep, args);
    crate::props::c05_l2::run_l2(&rep, args);
    crate::props::h3_l2::c05_h3(&rep, args);
    rep.finish()
}
