//! C07 — UDP flows: correct routing, isolation, expiry and bounded sockets.
//!
//! The real `udp_pipe::DuplexPipe` over the real direct-forwarder multiplexer, real loopback UDP
//! servers, real time with a small flow timeout. Every datagram carries a unique id, so delivery,
//! loss, duplication and mis-labelling are read off the logs.

use crate::common::{self, Args, Reporter, Rng};
use crate::env;
use async_trait::async_trait;
use bytes::Bytes;
use serde_json::{json, Value};
use std::collections::{BTreeMap, HashMap, HashSet};
use std::net::SocketAddr;
use std::sync::atomic::{AtomicBool, Ordering};
use std::sync::{Arc, Mutex};
use std::time::{Duration, Instant};
use tokio::net::UdpSocket;
use trusttunnel::verif::misc::{metrics_snapshot, run_udp_pipe, UdpOut, VUdpSink, VUdpSource};
use trusttunnel::verif::pure::UdpIn;

struct ChanSource(tokio::sync::mpsc::UnboundedReceiver<UdpIn>);
#[async_trait]
impl VUdpSource for ChanSource {
    async fn read(&mut self) -> std::io::Result<UdpIn> {
        self.0.recv().await.ok_or_else(|| std::io::Error::from(std::io::ErrorKind::UnexpectedEof))
    }
}

struct RecSink(Arc<Mutex<Vec<(Instant, UdpOut)>>>);
#[async_trait]
impl VUdpSink for RecSink {
    async fn write(&mut self, d: UdpOut) -> std::io::Result<bool> {
        self.0.lock().unwrap().push((Instant::now(), d));
        Ok(true)
    }
}

/// UDP sockets of this process, from /proc
fn udp_socket_count() -> usize {
    let mut inodes: HashSet<String> = HashSet::new();
    for f in ["/proc/net/udp", "/proc/net/udp6"] {
        if let Ok(s) = std::fs::read_to_string(f) {
            for l in s.lines().skip(1) {
                if let Some(i) = l.split_whitespace().nth(9) { inodes.insert(i.to_string()); }
            }
        }
    }
    let mut n = 0;
    if let Ok(rd) = std::fs::read_dir("/proc/self/fd") {
        for e in rd.flatten() {
            if let Ok(t) = std::fs::read_link(e.path()) {
                let t = t.to_string_lossy().to_string();
                if let Some(i) = t.strip_prefix("socket:[").and_then(|x| x.strip_suffix(']')) {
                    if inodes.contains(i) { n += 1; }
                }
            }
        }
    }
    n
}

#[derive(Clone, Debug)]
enum Op {
    Send(usize),
    Burst(usize, usize),
    ExtraReply(usize),
    Wait(u64),
    Unconnectable,
    ClosedPort,
    Dns,
    /// the flow's peer goes away (ECONNREFUSED latched on the flow's socket), comes back on the same
    /// port and sends to the flow's old socket: the error surfaces on the *receive* path
    PeerRestart,
    /// 2-3 queries on one port-53 flow before the first answer: every answer must come back, then the socket is released
    DnsBurst,
    /// one client datagram, then only the peer talks: a datagram every T/3 for more than 2T - traffic in either direction keeps a flow alive
    ReplyStream(usize),
}

struct Server {
    addr: SocketAddr,
    received: Arc<Mutex<Vec<(Vec<u8>, SocketAddr)>>>,
    sock: Arc<UdpSocket>,
}

async fn start_server_delayed(bind: &str, echo: bool, delay_ms: u64) -> Server {
    let sock = Arc::new(UdpSocket::bind(bind).await.expect("udp bind"));
    let addr = sock.local_addr().unwrap();
    let received: Arc<Mutex<Vec<(Vec<u8>, SocketAddr)>>> = Default::default();
    {
        let (sock, received) = (sock.clone(), received.clone());
        tokio::spawn(async move {
            let mut buf = vec![0u8; 65536];
            loop {
                let Ok((n, from)) = sock.recv_from(&mut buf).await else { continue };
                received.lock().unwrap().push((buf[..n].to_vec(), from));
                if echo {
                    let mut r = b"R:".to_vec();
                    r.extend_from_slice(&buf[..n]);
                    if delay_ms == 0 { let _ = sock.send_to(&r, from).await; }
                    else { let sock = sock.clone(); tokio::spawn(async move { tokio::time::sleep(Duration::from_millis(delay_ms)).await; let _ = sock.send_to(&r, from).await; }); }
                }
            }
        });
    }
    Server { addr, received, sock }
}

async fn start_server(bind: &str, echo: bool) -> Server { start_server_delayed(bind, echo, 0).await }

struct HistoryResult {
    bad: Vec<(String, Value)>,
    tallies: BTreeMap<String, u64>,
    inconclusive: Vec<String>,
    ops: usize,
    sample: Value,
}

async fn run_history(root: std::path::PathBuf, seed: u64, h: u64, t_ms: u64, count_fds: bool) -> HistoryResult {
    let mut res = HistoryResult { bad: vec![], tallies: BTreeMap::new(), inconclusive: vec![], ops: 0, sample: json!(null) };
    let mut r = Rng::derive(seed, 0xc07, h);
    let dir = env::work_dir(&root, "c07");
    let ctx = Arc::new(env::make_ctx(&dir, env::CtxOpts { allow_private: true, ..Default::default() }));
    // servers: 3 echo servers, a silent one, a DNS-port echo server
    let mut servers = vec![];
    for _ in 0..3 { servers.push(start_server("127.0.0.1:0", true).await); }
    let silent = start_server("127.0.0.1:0", false).await;
    // every history has its own loopback addresses for its port-53 servers (histories run in parallel)
    let dns_ip = |last: u8| format!("127.{}.{}.{}:53", 10 + h % 100, (h / 100) % 250, last);
    let dns = match UdpSocket::bind(dns_ip(9)).await {
        Ok(s) => { drop(s); Some(start_server(&dns_ip(9), true).await) }
        Err(_) => None,
    };
    // a port-53 server that answers after 120 ms, so that several queries of one flow are outstanding at once
    let dns_slow = match UdpSocket::bind(dns_ip(10)).await {
        Ok(s) => { drop(s); Some(start_server_delayed(&dns_ip(10), true, 120).await) }
        Err(_) => None,
    };
    let closed_port = { let s = std::net::UdpSocket::bind("127.0.0.1:0").unwrap(); s.local_addr().unwrap().port() };
    let harness_udp = if count_fds { udp_socket_count() } else { 0 };
    // flows: (client source address, destination)
    let client = |i: usize| -> SocketAddr { format!("10.8.0.{}:{}", 2 + i % 3, 40000 + i).parse().unwrap() };
    let mut flows: Vec<(SocketAddr, SocketAddr)> = vec![
        (client(0), servers[0].addr), (client(1), servers[1].addr), (client(2), servers[0].addr), (client(0), servers[2].addr), (client(3), silent.addr),
    ];
    if let Some(d) = &dns_slow { flows.push((client(6), d.addr)); }
    let slow_flow = if dns_slow.is_some() { Some(flows.len() - 1) } else { None };
    if let Some(d) = &dns { flows.push((client(4), d.addr)); }
    let nflows_plain = 5;
    let (tx, rx) = tokio::sync::mpsc::unbounded_channel();
    let delivered: Arc<Mutex<Vec<(Instant, UdpOut)>>> = Default::default();
    let finished = Arc::new(AtomicBool::new(false));
    let pipe = {
        let (ctx, delivered, finished) = (ctx.clone(), delivered.clone(), finished.clone());
        tokio::spawn(async move {
            let r = run_udp_pipe(&ctx, (Box::new(ChanSource(rx)), Box::new(RecSink(delivered))), Duration::from_millis(t_ms), None, |_, _| {}).await;
            finished.store(true, Ordering::SeqCst);
            r
        })
    };
    // history
    let nops = r.range(10, 26) as usize;
    let mut ops = vec![];
    for _ in 0..nops {
        ops.push(match r.below(16) {
            0..=5 => Op::Send(r.below(nflows_plain as u64) as usize),
            6 => Op::Burst(r.below(3) as usize, r.range(2, 6) as usize),
            7 => Op::ExtraReply(r.below(3) as usize),
            8 => Op::Wait(t_ms / 4),
            9 => Op::Wait(t_ms / 2),
            10 => Op::Wait(2 * t_ms + 300),
            11 => Op::Unconnectable,
            12 => Op::ClosedPort,
            13 => Op::PeerRestart,
            14 => Op::DnsBurst,
            _ => if r.chance(1, 3) { Op::ReplyStream(r.below(3) as usize) } else { Op::Dns },
        });
    }
    if h % 3 == 0 { let at = r.below(ops.len() as u64 + 1) as usize; ops.insert(at, Op::PeerRestart); }
    if h % 3 == 1 { let at = r.below(ops.len() as u64 + 1) as usize; ops.insert(at, Op::DnsBurst); }
    if h % 3 == 2 { let at = r.below(ops.len() as u64 + 1) as usize; ops.insert(at, Op::ReplyStream((h % 2) as usize)); }
    ops.push(Op::Send(0));
    ops.push(Op::Send(1));
    let mut seq = 0u64;
    // model: last activity per flow, ids sent per flow
    let mut last_activity: HashMap<usize, Instant> = HashMap::new();
    let mut sent: Vec<(usize, Vec<u8>, Instant)> = vec![];
    let mut faults_done = 0;
    let mk_payload = |flow: usize, seq: u64| -> Vec<u8> { format!("h{}f{}s{}", h, flow, seq).into_bytes() };
    let send = |flow: usize, payload: &[u8]| {
        let _ = tx.send(UdpIn { source: flows[flow].0, destination: flows[flow].1, app_name: Some("verif".into()), payload: Bytes::copy_from_slice(payload) });
    };
    for op in &ops {
        res.ops += 1;
        match op {
            Op::Send(f) => { seq += 1; let p = mk_payload(*f, seq); send(*f, &p); sent.push((*f, p, Instant::now())); last_activity.insert(*f, Instant::now()); tokio::time::sleep(Duration::from_millis(r.below(8))).await; }
            Op::Burst(f, n) => { for _ in 0..*n { seq += 1; let p = mk_payload(*f, seq); send(*f, &p); sent.push((*f, p, Instant::now())); } last_activity.insert(*f, Instant::now()); }
            Op::ExtraReply(f) => {
                // the echo server of flow f sends an unsolicited datagram to the endpoint's socket for that flow
                // (let earlier operations settle first: the pipe processes them asynchronously)
                tokio::time::sleep(Duration::from_millis(40)).await;
                let srv = servers.iter().find(|s| s.addr == flows[*f].1).unwrap();
                let last_sent = sent.iter().rev().find(|(fl, _, _)| fl == f).map(|(_, p, _)| p.clone());
                let peer = match &last_sent {
                    // only if the server has seen the flow's latest datagram do we know the flow's current socket
                    Some(ls) => srv.received.lock().unwrap().iter().rev().find(|(p, _)| p == ls).map(|(_, a)| *a),
                    None => None,
                };
                if let Some(peer) = peer {
                    if last_activity.get(f).map(|t| t.elapsed() < Duration::from_millis(t_ms / 3)).unwrap_or(false) {
                        seq += 1;
                        let p = format!("X:h{}f{}s{}", h, f, seq).into_bytes();
                        let _ = srv.sock.send_to(&p, peer).await;
                        sent.push((100 + *f, p, Instant::now()));
                        last_activity.insert(*f, Instant::now());
                    }
                }
            }
            Op::ReplyStream(f) => {
                seq += 1;
                let p0 = mk_payload(*f, seq);
                send(*f, &p0);
                sent.push((*f, p0.clone(), Instant::now()));
                last_activity.insert(*f, Instant::now());
                tokio::time::sleep(Duration::from_millis(40)).await;
                let srv = servers.iter().find(|s| s.addr == flows[*f].1).unwrap();
                let peer = srv.received.lock().unwrap().iter().rev().find(|(p, _)| *p == p0).map(|(_, a)| *a);
                if let Some(peer) = peer {
                    let mut on_time = true;
                    for _ in 0..8 {
                        let before = Instant::now();
                        tokio::time::sleep(Duration::from_millis(t_ms / 3)).await;
                        if before.elapsed().as_millis() as u64 > t_ms / 3 + t_ms / 4 { on_time = false; break; }
                        seq += 1;
                        let p = format!("X:h{}f{}s{}", h, f, seq).into_bytes();
                        let _ = srv.sock.send_to(&p, peer).await;
                        sent.push((100 + *f, p, Instant::now()));
                        last_activity.insert(*f, Instant::now());
                    }
                    if !on_time { res.inconclusive.push("reply stream: sleep overshoot".into()); }
                    else { *res.tallies.entry("reply stream: 8 peer datagrams at T/3 intervals on a flow the client keeps silent".into()).or_insert(0) += 1; }
                    tokio::time::sleep(Duration::from_millis(40)).await;
                }
            }
            Op::Wait(ms) => {
                let before = Instant::now();
                tokio::time::sleep(Duration::from_millis(*ms)).await;
                let over = before.elapsed().as_millis() as u64 - ms;
                if over > 150 { res.inconclusive.push(format!("sleep overshoot {} ms", over)); }
                if *ms >= 2 * t_ms {
                    // quiescent point: every flow idle for > 2T must have released its socket
                    let live_must: usize = 0;
                    let all_idle = last_activity.values().all(|t| t.elapsed() >= Duration::from_millis(2 * t_ms + 250));
                    if all_idle {
                        let g = metrics_snapshot(&ctx).outbound_udp;
                        if g != live_must as i64 {
                            res.bad.push(("outbound_udp_sockets gauge does not return to the number of live flows after every flow expired".into(), json!({"kind":"udp-flows","gauge":g,"expected":live_must,"history":h,"T_ms":t_ms})));
                        } else { *res.tallies.entry("quiescent: gauge == 0 after all flows expired".into()).or_insert(0) += 1; }
                        if count_fds {
                            let n = udp_socket_count();
                            if n != harness_udp { res.bad.push(("UDP sockets stay open after their flows expired".into(), json!({"kind":"udp-flows","open_udp_sockets":n,"harness_own":harness_udp,"history":h}))); }
                            else { *res.tallies.entry("quiescent: no endpoint UDP socket left open (/proc)".into()).or_insert(0) += 1; }
                        }
                    }
                }
            }
            Op::Unconnectable => { faults_done += 1; for _ in 0..2 { seq += 1; let _ = tx.send(UdpIn { source: client(7), destination: "255.255.255.255:9".parse().unwrap(), app_name: None, payload: Bytes::from(mk_payload(90, seq)) }); tokio::time::sleep(Duration::from_millis(5)).await; } }
            Op::ClosedPort => { faults_done += 1; for _ in 0..3 { seq += 1; let _ = tx.send(UdpIn { source: client(8), destination: format!("127.0.0.1:{}", closed_port).parse().unwrap(), app_name: None, payload: Bytes::from(mk_payload(91, seq)) }); tokio::time::sleep(Duration::from_millis(15)).await; } }
            Op::PeerRestart => {
                faults_done += 1;
                let src = client(5);
                let tag = |t: &str, seq: u64| format!("P:h{}{}s{}", h, t, seq).into_bytes();
                let mut buf = vec![0u8; 2048];
                let p = UdpSocket::bind("127.0.0.1:0").await.expect("udp bind");
                let paddr = p.local_addr().unwrap();
                let tx_send = |payload: &[u8]| { let _ = tx.send(UdpIn { source: src, destination: paddr, app_name: None, payload: Bytes::copy_from_slice(payload) }); };
                seq += 1;
                let a1 = tag("a1", seq);
                tx_send(&a1);
                let old_sock = match tokio::time::timeout(Duration::from_millis(800), p.recv_from(&mut buf)).await {
                    Ok(Ok((n, from))) if buf[..n] == a1[..] => from,
                    _ => {
                        if !finished.load(Ordering::SeqCst) { res.bad.push(("client datagram on a live or fresh flow was not sent to its destination".into(), json!({"kind":"udp-flows","history":h,"payload":String::from_utf8_lossy(&a1),"flow":"peer-restart a1","T_ms":t_ms}))); }
                        continue;
                    }
                };
                drop(p);
                tokio::time::sleep(Duration::from_millis(15)).await;
                seq += 1;
                tx_send(&tag("a2", seq)); // bounces: ICMP port unreachable, error latched on the flow's socket
                tokio::time::sleep(Duration::from_millis(40)).await;
                let Ok(p2) = UdpSocket::bind(paddr).await else { res.inconclusive.push("could not rebind the restarted peer's port".into()); continue };
                seq += 1;
                let _ = p2.send_to(&tag("r2", seq), old_sock).await; // makes the flow's socket readable: recv reports the error
                tokio::time::sleep(Duration::from_millis(60)).await;
                seq += 1;
                let a3 = tag("a3", seq);
                tx_send(&a3);
                let mut fresh = None;
                let deadline = Instant::now() + Duration::from_millis(800);
                while Instant::now() < deadline {
                    match tokio::time::timeout(Duration::from_millis(100), p2.recv_from(&mut buf)).await {
                        Ok(Ok((n, from))) if buf[..n] == a3[..] => { fresh = Some(from); break; }
                        _ => {}
                    }
                }
                last_activity.insert(200 + res.ops, Instant::now());
                match fresh {
                    None => {
                        if !finished.load(Ordering::SeqCst) { res.bad.push(("datagram on a pair whose previous socket reported an error was not sent to its destination (no fresh flow)".into(), json!({"kind":"udp-flows","history":h,"payload":String::from_utf8_lossy(&a3),"T_ms":t_ms}))); }
                    }
                    Some(from) => {
                        *res.tallies.entry(if from != old_sock { "peer restart: next datagram on the pair went out from a fresh socket" } else { "peer restart: next datagram on the pair went out from the same socket (error not surfaced)" }.into()).or_insert(0) += 1;
                        seq += 1;
                        let r3 = tag("r3", seq);
                        let _ = p2.send_to(&r3, from).await;
                        tokio::time::sleep(Duration::from_millis(80)).await;
                        let hits: Vec<UdpOut> = delivered.lock().unwrap().iter().map(|d| d.1.clone()).filter(|d| d.payload[..] == r3[..]).collect();
                        if hits.len() != 1 || hits[0].source != paddr || hits[0].destination != src {
                            if !finished.load(Ordering::SeqCst) { res.bad.push(("datagram from the peer not returned on its own flow with the right labels".into(), json!({"kind":"udp-flows","history":h,"payload":String::from_utf8_lossy(&r3),"delivered":hits.len(),"after":"peer restart"}))); }
                        } else { *res.tallies.entry("peer restart: reply on the fresh flow labelled correctly".into()).or_insert(0) += 1; }
                    }
                }
            }
            Op::DnsBurst => {
                if let Some(f) = slow_flow {
                    tokio::time::sleep(Duration::from_millis(60)).await;
                    let before = metrics_snapshot(&ctx).outbound_udp;
                    let k = r.range(2, 3);
                    for _ in 0..k { seq += 1; let p = mk_payload(f, seq); send(f, &p); sent.push((f, p, Instant::now())); }
                    // all answers arrive 120 ms after their queries; afterwards the flow has nothing outstanding
                    tokio::time::sleep(Duration::from_millis(120 + 200)).await;
                    let after = metrics_snapshot(&ctx).outbound_udp;
                    if after > before { res.bad.push(("port-53 flow keeps its socket after all of its queries were answered".into(), json!({"kind":"udp-flows","gauge_before":before,"gauge_after":after,"history":h,"queries":k}))); }
                    else { *res.tallies.entry("dns burst: socket released once every outstanding query was answered".into()).or_insert(0) += 1; }
                }
            }
            Op::Dns => {
                if dns.is_some() {
                    let f = flows.len() - 1;
                    seq += 1;
                    let p = mk_payload(f, seq);
                    // let earlier operations settle first: the pipe processes them asynchronously
                    tokio::time::sleep(Duration::from_millis(60)).await;
                    let before = metrics_snapshot(&ctx).outbound_udp;
                    send(f, &p);
                    sent.push((f, p, Instant::now()));
                    tokio::time::sleep(Duration::from_millis(120)).await;
                    let after = metrics_snapshot(&ctx).outbound_udp;
                    if after > before { res.bad.push(("port-53 flow keeps its socket after its only query was answered".into(), json!({"kind":"udp-flows","gauge_before":before,"gauge_after":after,"history":h}))); }
                    else { *res.tallies.entry("dns: socket released once the query was answered".into()).or_insert(0) += 1; }
                }
            }
        }
        if finished.load(Ordering::SeqCst) {
            res.bad.push((format!("multiplexer terminated while the client stream is open (after a {} fault)", match op { Op::Unconnectable => "destination-cannot-be-connected", Op::ClosedPort => "send-to-closed-port", Op::PeerRestart => "socket-error-on-receive (peer restart)", _ => if faults_done > 0 { "per-flow" } else { "no" } }),
                json!({"kind":"udp-flows","history":h,"op":format!("{:?}", op),"ops_done":res.ops,"result":"exchange returned"})));
            break;
        }
    }
    tokio::time::sleep(Duration::from_millis(250)).await;
    // ---- judge deliveries ----
    let delivered = delivered.lock().unwrap().clone();
    let died = finished.load(Ordering::SeqCst);
    for (flow, payload, _at) in &sent {
        if *flow >= 100 {
            // unsolicited reply: must reach the client labelled with the flow's (dst -> src)
            let f = flow - 100;
            let hit: Vec<&UdpOut> = delivered.iter().map(|d| &d.1).filter(|d| d.payload[..] == payload[..]).collect();
            if hit.len() != 1 || hit[0].source != flows[f].1 || hit[0].destination != flows[f].0 {
                if !died { res.bad.push(("datagram from the peer not returned on its own flow with the right labels".into(), json!({"kind":"udp-flows","history":h,"payload":String::from_utf8_lossy(payload),"delivered":hit.len()}))); }
            } else { *res.tallies.entry("reply labelled (src = flow destination, dst = flow source)".into()).or_insert(0) += 1; }
            continue;
        }
        let dst = flows[*flow].1;
        // where did it arrive
        let mut arrived_at = vec![];
        for s in servers.iter().chain(std::iter::once(&silent)).chain(dns.iter()).chain(dns_slow.iter()) {
            if s.received.lock().unwrap().iter().any(|(p, _)| p == payload) { arrived_at.push(s.addr); }
        }
        if arrived_at.iter().any(|a| *a != dst) {
            res.bad.push(("client datagram delivered to a server other than its destination".into(), json!({"kind":"udp-flows","history":h,"payload":String::from_utf8_lossy(payload),"arrived_at":arrived_at.iter().map(|a| a.to_string()).collect::<Vec<_>>(),"destination":dst.to_string()})));
        } else if arrived_at.is_empty() {
            if !died { res.bad.push(("client datagram on a live or fresh flow was not sent to its destination".into(), json!({"kind":"udp-flows","history":h,"payload":String::from_utf8_lossy(payload),"flow":flow,"T_ms":t_ms}))); }
        } else {
            *res.tallies.entry("datagram reached exactly its destination".into()).or_insert(0) += 1;
            if dst != silent.addr {
                let mut want = b"R:".to_vec();
                want.extend_from_slice(payload);
                let hits: Vec<&UdpOut> = delivered.iter().map(|d| &d.1).filter(|d| d.payload[..] == want[..]).collect();
                if hits.is_empty() { if !died { res.bad.push(("reply from the destination not returned to the client".into(), json!({"kind":"udp-flows","history":h,"payload":String::from_utf8_lossy(payload)}))); } }
                else if hits.iter().any(|d| d.source != dst || d.destination != flows[*flow].0) { res.bad.push(("reply delivered with wrong source/destination labels (another flow)".into(), json!({"kind":"udp-flows","history":h,"payload":String::from_utf8_lossy(payload)}))); }
                else if hits.len() > 1 { res.bad.push(("reply delivered more than once".into(), json!({"kind":"udp-flows","history":h}))); }
                else { *res.tallies.entry("echo returned once with the flow's labels".into()).or_insert(0) += 1; }
            }
        }
    }
    res.sample = json!({"history": h, "T_ms": t_ms, "ops": ops.iter().map(|o| format!("{:?}", o)).collect::<Vec<_>>(), "client_datagrams": sent.len(), "delivered_to_client": delivered.len()});
    // closing the client stream ends the multiplexer
    drop(tx);
    match tokio::time::timeout(Duration::from_secs(3), pipe).await {
        Ok(_) => { *res.tallies.entry("multiplexer ended when the client stream closed".into()).or_insert(0) += 1; }
        Err(_) => res.bad.push(("multiplexer keeps running after the client stream closed".into(), json!({"kind":"udp-flows","history":h}))),
    }
    tokio::time::sleep(Duration::from_millis(30)).await;
    let g = metrics_snapshot(&ctx).outbound_udp;
    if g != 0 { res.bad.push(("outbound_udp_sockets gauge not zero after the multiplexer ended".into(), json!({"kind":"udp-flows","gauge":g,"history":h}))); }
    res
}

pub fn run(args: &Args) -> i32 {
    let rep = Arc::new(Reporter::new(
        args,
        "exploration",
        "history = 12-28 operations over 5-6 flows (two clients sharing a destination, one client with two destinations, a silent peer, a port-53 flow): \
         client datagram, burst, unsolicited peer datagram, waits of T/4, T/2 and 2T+300 ms, datagrams to a destination that cannot be connected \
         (255.255.255.255, EACCES) and to a closed port (ECONNREFUSED), a peer that restarts (socket error surfacing on the receive path, then a datagram on the same pair), DNS query, 2-3 DNS queries outstanding at once on one port-53 flow (slow resolver); through the real udp_pipe::DuplexPipe + udp_forwarder multiplexer against \
         real loopback UDP servers in real time with T in {300, 400} ms. Every datagram carries a unique id. distinct_nontrivial = distinct histories.",
    ));
    rep.assume("expiry is only asserted after 2T + 250 ms without activity on every flow; waits whose overshoot exceeds 150 ms make the history inconclusive");
    rep.assume("loopback UDP does not lose datagrams at these rates; the SOCKS5 forwarder's multiplexer is driven by seeded histories of its own (props/c07_s5.rs) against a relaying SOCKS5 proxy");
    let seed = args.seed;
    if args.has_flag("--only-s5") { crate::props::c07_s5::run_part(&rep, args); return rep.finish(); }
    if let Some(i) = args.extra.iter().position(|x| x == "--history") {
        // debugging aid: one history with the library's log
        let h: u64 = args.extra.get(i + 1).and_then(|x| x.parse().ok()).unwrap_or(0);
        crate::common::logcap::install(true);
        let rt = env::rt_multi(2);
        let r = rt.block_on(run_history(args.root.clone(), seed, h, if h >= 1_000_000 || h % 2 == 0 { 400 } else { 300 }, h >= 1_000_000));
        for rec in crate::common::logcap::drain() { if rec.target.contains("udp") || rec.target.contains("pipe") { println!("{} {}", rec.level, rec.message); } }
        println!("{}", serde_json::to_string_pretty(&r.sample).unwrap());
        for (s, d) in &r.bad { println!("BAD {} {}", s, d); }
        return 0;
    }
    let total = args.qt(48u64, 1200u64);
    let root = args.root.clone();
    // serial phase with /proc socket counting
    {
        let rt = env::rt_multi(2);
        for h in 0..args.qt(3u64, 30u64) {
            let r = rt.block_on(run_history(root.clone(), seed, 1_000_000 + h, 400, true));
            merge(&rep, r);
        }
    }
    // parallel phase
    let n = common::workers();
    let results = common::parallel(n, move |shard, nshards| {
        let rt = env::rt_multi(2);
        let mut out = vec![];
        let mut h = shard as u64;
        while h < total {
            out.push(rt.block_on(run_history(root.clone(), seed, h, if h % 2 == 0 { 400 } else { 300 }, false)));
            h += nshards as u64;
        }
        out
    });
    for rs in results { for r in rs { merge(&rep, r); } }
    // the same clauses through the real SOCKS5 forwarder and a relaying proxy
    crate::props::c07_s5::run_part(&rep, args);
    rep.finish()
}

fn merge(rep: &Reporter, r: HistoryResult) {
    rep.evals(1);
    rep.distinct(common::fnv(r.sample.to_string().as_bytes()));
    rep.tally("operations driven", r.ops as u64);
    if rep.want_sample() { rep.sample(r.sample.clone()); }
    if !r.inconclusive.is_empty() {
        rep.inconclusive("history with a late timer (machine too slow to tell)");
        // expiry verdicts of a slow history are not used; routing/labelling verdicts are time-free
        for (s, d) in r.bad { if !s.contains("gauge") && !s.contains("stay open") && !s.contains("not sent to its destination") { rep.violation(&s, d); } }
    } else {
        for (s, d) in r.bad { rep.violation(&s, d); }
    }
    rep.tally_map(&r.tallies);
}
