//! C14 — idle and establishment timeouts fire when, and only when, they should.
//!
//! Part A (this file): the real `pipe::DuplexPipe::exchange` under the paused clock with activity
//! patterns laid out relative to the idle timeout T. Virtual time only; no wall-clock verdicts.
//! Part B: connection-establishment timeout through the real Tunnel with a never-completing
//! connector (see `tunnel_kit`), Part C: TLS handshake timeout on loopback (real time, bands).

use crate::common::report::Local;
use crate::common::{self, Args, Reporter, Rng};
use crate::env;
use crate::props::c02::{self, case_from_json, case_json, run_case, Case, Outcome};
use crate::script::*;
use serde_json::{json, Value};
use std::collections::BTreeMap;
use std::sync::Arc;

const EPS_US: u64 = 2_000; // clock granularity under the paused clock is 1 ms

fn gen_pattern(seed: u64, idx: u64, max_events: u64) -> Case {
    let mut r = Rng::derive(seed, 0xc14, idx);
    let t_us = *r.pick(&[1_000_370u64, 2_000_370, 5_000_370, 8_000_370]);
    let unit = t_us / 8;
    let mut mk_src = |r: &mut Rng, style: u64| -> SrcScript {
        let n = r.range(0, max_events);
        let mut steps = vec![];
        for k in 0..n {
            let gap_units = match style {
                0 => r.range(0, 7),                       // always within T
                1 => *r.pick(&[7u64, 8, 8, 9]),           // around the deadline
                2 => *r.pick(&[1u64, 2, 12, 15, 16, 17]), // bursts and long silences
                3 => if k == 0 { 0 } else { 8 },          // exactly at the deadline
                _ => r.range(0, 20),
            };
            let jitter = if r.chance(1, 2) { r.below(900) } else { 0 };
            steps.push(SrcStep::Delay(gap_units * unit + jitter));
            steps.push(SrcStep::Chunk(r.range(1, 3) as usize));
        }
        match r.below(4) {
            0 => steps.push(SrcStep::Eof),
            1 => {
                steps.push(SrcStep::Delay(r.range(1, 18) * unit));
                steps.push(SrcStep::Eof);
            }
            _ => {} // silent forever
        }
        SrcScript { steps, consume_fault: None }
    };
    let style0 = r.below(5);
    let style1 = r.below(5);
    let s0 = mk_src(&mut r, style0);
    let s1 = if r.chance(1, 4) { SrcScript { steps: vec![], consume_fault: None } } else { mk_src(&mut r, style1) };
    let mut mk_snk = |r: &mut Rng| -> SinkScript {
        if r.chance(2, 3) {
            return SinkScript::default();
        }
        // a back-pressure stall: the k-th write accepts nothing, then the sink stays unwritable for a while
        let k = r.below(3) as usize;
        let mut quotas = vec![usize::MAX; k];
        quotas.push(0);
        let stall = *r.pick(&[4u64, 7, 9, 12, 17, 24]) * unit;
        SinkScript { quotas, writable_delays: vec![stall], flush_delay: 0, fault: None }
    };
    let k0 = mk_snk(&mut r);
    let k1 = mk_snk(&mut r);
    Case { key: r.next(), src: [s0, s1], snk: [k0, k1], timeout_us: t_us }
}

/// data-transfer times (µs); with `lenient` also EOF/flush events
fn times(o: &Outcome, lenient: bool) -> Vec<u64> {
    c02::activity_times(o, lenient)
}

fn direction_finished(o: &Outcome, d: usize) -> Option<u64> {
    let l = o.snk_logs[d].lock().unwrap();
    if l.flush_after_eof > 0 {
        l.events.iter().rev().find(|(_, e)| matches!(e, Ev::Flush)).map(|(t, _)| t.as_micros() as u64)
    } else {
        None
    }
}

fn judge(case: &Case, o: &Outcome, tallies: &mut BTreeMap<String, u64>) -> Vec<(String, Value)> {
    let mut bad = vec![];
    let mut t = |k: &str| *tallies.entry(k.to_string()).or_insert(0) += 1;
    let tmo = case.timeout_us;
    let end = o.finished_at.as_micros() as u64;
    let result_s = match &o.result {
        Ok(()) => "Ok".to_string(),
        Err(k) => format!("Err({:?})", k),
    };
    let detail = |what: String| -> Value {
        json!({"kind": "idle-timeout", "what": what, "case": case_json(case), "result": result_s,
               "stalled": o.stalled, "finished_at_us": end, "T_us": tmo})
    };
    let data_times = times(o, false);
    let lenient_times = times(o, true);
    // R2: never idle (not even EOF/flush events) for more than 2T while still running
    let mut prev = 0u64;
    let mut worst = 0u64;
    for x in lenient_times.iter().filter(|x| **x <= end).chain(std::iter::once(&end)) {
        worst = worst.max(x.saturating_sub(prev));
        prev = *x;
    }
    if o.stalled {
        bad.push(("idle tunnel never closed by the idle timer".into(), detail(format!("last activity at {} us", lenient_times.last().copied().unwrap_or(0)))));
    } else if worst > 2 * tmo + EPS_US {
        bad.push(("tunnel stayed open longer than 2T without any transfer".into(), detail(format!("idle_for_us={}", worst))));
    } else if worst > tmo + EPS_US {
        t("either: idle between T and 2T before close / next transfer");
    }
    match &o.result {
        Err(std::io::ErrorKind::TimedOut) => {
            t("closed by idle timer");
            // R1: closed although data moved less than T ago
            let last = data_times.iter().filter(|x| **x <= end).last().copied().unwrap_or(0);
            let idle = end - last;
            if idle + EPS_US < tmo {
                let half_closed = (0..2).any(|d| direction_finished(o, d).map(|f| f <= end).unwrap_or(false));
                if half_closed {
                    // which direction is still open, and when did *it* last move data?
                    let open_last = (0..2).filter(|d| !direction_finished(o, *d).map(|f| f <= end).unwrap_or(false)).flat_map(|d| {
                        let mut v = vec![];
                        for l in [&o.src_logs[d], &o.snk_logs[d]] {
                            for (at, e) in &l.lock().unwrap().events {
                                let at = at.as_micros() as u64;
                                if at <= end && (matches!(e, Ev::ReadChunk(_)) || matches!(e, Ev::Write { accepted, .. } if *accepted > 0)) { v.push(at); }
                            }
                        }
                        v
                    }).max();
                    match open_last {
                        // the open direction itself was active less than T ago: no timer of any direction had a reason to fire
                        Some(x) if end - x + EPS_US < tmo => bad.push(("half-closed tunnel closed although its open direction transferred data less than T ago".into(),
                              detail(format!("open_direction_idle_us={} last_data_us={}", end - x, last)))),
                        _ => bad.push(("half-closed tunnel closed by the remaining direction's timer less than T after the last data transfer".into(),
                              detail(format!("idle_us={} last_data_us={}", idle, last)))),
                    }
                } else {
                    bad.push(("idle timer closed the tunnel less than T after the last data transfer".into(),
                              detail(format!("idle_us={} last_data_us={}", idle, last))));
                }
            } else if idle <= tmo + EPS_US {
                t("closed exactly at the deadline");
            }
            for d in 0..2 {
                if !o.src_logs[d].lock().unwrap().dropped || !o.snk_logs[d].lock().unwrap().dropped {
                    bad.push(("endpoint not released after idle timeout".into(), detail(String::new())));
                }
            }
        }
        Ok(()) => t("ended cleanly before any timeout"),
        Err(k) => {
            bad.push((format!("unexpected error {:?} in a fault-free timeout scenario", k), detail(String::new())));
        }
    }
    // survived at least one gap in (T/2, T): the timer was armed and did not fire early
    let mut p = 0u64;
    for x in data_times.iter().filter(|x| **x <= end) {
        let g = x - p;
        if g > tmo / 2 && g + EPS_US < tmo {
            t("survived a gap between T/2 and T");
            break;
        }
        p = *x;
    }
    bad
}

pub fn run(args: &Args) -> i32 {
    let rep = Arc::new(Reporter::new(
        args,
        "exploration",
        "Part A: case = activity pattern of both directions on a T/8 grid with sub-millisecond jitter (styles: within T, around the \
         deadline, bursts + long silences, exactly at the deadline, uniform), optional back-pressure stalls of 0.5T..3T, endings \
         (EOF / delayed EOF / silent), T in {1,2,5,8} s + 370 us, under the paused clock; distinct_nontrivial = distinct case \
         descriptors with at least one transfer or stall. Parts B/C: see coverage.parts.",
    ));
    rep.assume("virtual time: tokio paused clock, T has a 370 us fraction so that timer ticks land after the deadline as in real time");
    rep.assume("R1 (no early close) counts data transfers only; R2 (close by 2T) also counts EOF/flush events as activity (lenient in both directions); gaps in (T, 2T] are EITHER");
    if let Some(p) = &args.replay {
        let v: Value = serde_json::from_str(&std::fs::read_to_string(p).unwrap_or_default()).unwrap_or_default();
        let Some(case) = case_from_json(&v["witness"]["case"]) else {
            println!("cannot parse witness");
            return 2;
        };
        let rt = env::rt_paused();
        let o = rt.block_on(run_case(&case));
        let mut tl = BTreeMap::new();
        rep.evals(1);
        for (sig, d) in judge(&case, &o, &mut tl) {
            rep.violation(&sig, d);
        }
        return rep.finish();
    }
    let n = common::workers();
    let seed = args.seed;
    let total = args.qt(400_000u64, 20_000_000u64);
    let max_events = args.qt(6u64, 40u64);
    let results = common::parallel(n, move |shard, nshards| {
        let rt = env::rt_paused();
        let mut local = Local::default();
        let mut bad: BTreeMap<String, Value> = BTreeMap::new();
        let mut samples = vec![];
        let mut idx = shard as u64;
        while idx < total {
            let case = gen_pattern(seed, idx, if idx % 5 == 0 { max_events } else { 6 });
            let o = rt.block_on(run_case(&case));
            local.evals += 1;
            if case.src[0].total_bytes() + case.src[1].total_bytes() > 0 || !case.snk[0].quotas.is_empty() || !case.snk[1].quotas.is_empty() {
                local.distinct.push(common::hash_of(&case));
            }
            for (sig, d) in judge(&case, &o, &mut local.tallies) {
                bad.entry(sig).or_insert(d);
            }
            if samples.is_empty() && idx > 50 {
                samples.push(json!({"case": case_json(&case), "result": format!("{:?}", o.result), "closed_at_us": o.finished_at.as_micros() as u64}));
            }
            idx += nshards as u64;
        }
        (local, bad, samples)
    });
    for (local, bad, samples) in results {
        for (sig, d) in bad {
            rep.violation(&sig, d);
        }
        for s in samples {
            rep.sample(s);
        }
        local.merge_into(&rep);
    }
    // calibration: a known-idle tunnel must be closed within [T, 2T]
    {
        let rt = env::rt_paused();
        let case = Case {
            key: 1,
            src: [SrcScript::default(), SrcScript::default()],
            snk: [SinkScript::default(), SinkScript::default()],
            timeout_us: 2_000_370,
        };
        let o = rt.block_on(run_case(&case));
        rep.evals(1);
        let end = o.finished_at.as_micros() as u64;
        if o.result != Err(std::io::ErrorKind::TimedOut) || end < 2_000_370 || end > 2 * 2_000_370 + EPS_US {
            rep.violation("idle tunnel never closed by the idle timer", json!({"kind":"idle-timeout","what":"calibration: known-idle tunnel","case":case_json(&case),"closed_at_us":end,"result":format!("{:?}", o.result)}));
        } else {
            rep.tally("calibration: known-idle tunnel closed within [T, 2T]", 1);
        }
    }
    crate::props::c14_extra::run_parts(&rep, args);
    rep.finish()
}
