//! C01 — authentication gate: no egress without valid credentials, decided per request.

use crate::common::{self, Args, Reporter, Rng};
use crate::env;
use crate::kit::*;
use crate::tun::*;
use serde_json::{json, Value};
use std::sync::atomic::{AtomicU64, Ordering};
use std::sync::Arc;
use std::time::Duration;
use trusttunnel::authentication::{Authenticator, Source, Status};
use trusttunnel::verif::ctx::Ctx;
use trusttunnel::verif::net as vnet;
use trusttunnel::verif::tunnel::{Fwd, MuxChoice, Policy, Proto};

pub const USERS: &[(&str, &str)] = &[("alice-CANARYU1", "pw-CANARYP1"), ("bob", "x:y:z-CANARYP2"), ("carol", "päss wörd")];

#[derive(Clone, Debug, PartialEq, Eq)]
pub enum Verdict {
    MustPass,
    MustReject,
    /// pass or 407, nothing else
    Either,
}

#[derive(Clone, Debug)]
pub struct Cred {
    pub name: &'static str,
    /// header values (0, 1 or 2 Proxy-Authorization headers)
    pub values: Vec<Vec<u8>>,
    pub verdict: Verdict,
}

pub fn creds() -> Vec<Cred> {
    let ok1 = format!("Basic {}", basic(USERS[0].0, USERS[0].1)).into_bytes();
    let ok2 = format!("Basic {}", basic(USERS[1].0, USERS[1].1)).into_bytes();
    let ok3 = format!("Basic {}", basic(USERS[2].0, USERS[2].1)).into_bytes();
    let c = |name: &'static str, values: Vec<Vec<u8>>, verdict: Verdict| Cred { name, values, verdict };
    use Verdict::*;
    vec![
        c("absent", vec![], MustReject),
        c("valid user 1", vec![ok1.clone()], MustPass),
        c("valid user 2 (colons in password)", vec![ok2.clone()], MustPass),
        c("valid user 3 (non-ASCII)", vec![ok3.clone()], MustPass),
        c("wrong user", vec![format!("Basic {}", basic("mallory", USERS[0].1)).into_bytes()], MustReject),
        c("wrong password", vec![format!("Basic {}", basic(USERS[0].0, "nope")).into_bytes()], MustReject),
        c("user 1 with user 2's password", vec![format!("Basic {}", basic(USERS[0].0, USERS[1].1)).into_bytes()], MustReject),
        c("password prefix", vec![format!("Basic {}", basic(USERS[0].0, &USERS[0].1[..4])).into_bytes()], MustReject),
        c("valid + trailing space", vec![[ok1.clone(), b" ".to_vec()].concat()], Either),
        c("valid + leading spaces", vec![[b"  ".to_vec(), ok1.clone()].concat()], Either),
        c("lower-case scheme", vec![format!("basic {}", basic(USERS[0].0, USERS[0].1)).into_bytes()], Either),
        c("two spaces after scheme", vec![format!("Basic  {}", basic(USERS[0].0, USERS[0].1)).into_bytes()], Either),
        c("Bearer scheme", vec![b"Bearer abcdef".to_vec()], MustReject),
        c("Digest scheme", vec![b"Digest username=\"alice-CANARYU1\"".to_vec()], MustReject),
        c("scheme only", vec![b"Basic".to_vec()], MustReject),
        c("scheme + space only", vec![b"Basic ".to_vec()], MustReject),
        c("malformed base64", vec![b"Basic !!!not-base64!!!".to_vec()], MustReject),
        c("base64 without colon", vec![{ use base64::Engine; format!("Basic {}", base64::engine::general_purpose::STANDARD.encode(USERS[0].0)).into_bytes() }], MustReject),
        c("valid token + extra token", vec![[ok1.clone(), b" extra".to_vec()].concat()], MustReject),
        c("non-UTF-8 bytes", vec![vec![b'B', b'a', b's', b'i', b'c', b' ', 0xff, 0xfe, 0x80]], MustReject),
        c("empty value", vec![b"".to_vec()], MustReject),
        c("two headers valid,invalid", vec![ok1.clone(), b"Basic bm9wZTpub3Bl".to_vec()], Either),
        c("two headers invalid,valid", vec![b"Basic bm9wZTpub3Bl".to_vec(), ok1.clone()], Either),
        c("valid token truncated by one base64 group", vec![{ let mut v = ok1.clone(); while v.last() == Some(&b'=') { v.pop(); } v.truncate(v.len() - 4); v }], MustReject),
        c("valid token with appended characters", vec![[ok1.clone(), b"QUJD".to_vec()].concat()], MustReject),
        c("valid token in different case", vec![{ let mut v = ok1.clone(); for b in v[6..].iter_mut() { if b.is_ascii_lowercase() { *b = b.to_ascii_uppercase(); } } v }], MustReject),
        // a registered token that is not presented as Basic credentials
        c("valid token without any scheme", vec![ok1[6..].to_vec()], MustReject),
        c("valid token behind a repeated scheme", vec![[b"Basic ".to_vec(), ok1.clone()].concat()], MustReject),
        c("valid token behind another scheme", vec![[b"Bearer ".to_vec(), ok1[6..].to_vec()].concat()], MustReject),
        c("valid token glued to the scheme", vec![[b"Basic".to_vec(), ok1[6..].to_vec()].concat()], MustReject),
        c("valid token behind scheme and colon", vec![[b"Basic:".to_vec(), ok1[6..].to_vec()].concat()], MustReject),
        c("valid token without padding", vec![{ let mut v = ok2.clone(); while v.last() == Some(&b'=') { v.pop(); } v }], Either),
    ]
}

#[derive(Clone, Debug)]
pub struct Kind {
    pub name: &'static str,
    pub method: &'static str,
    /// `{}` is replaced by a per-request unique label
    pub target: &'static str,
    pub egress: &'static str, // "connect" | "udp" | "icmp" | "none"
}

pub const KINDS: &[Kind] = &[
    Kind { name: "CONNECT host:port", method: "CONNECT", target: "r{}.dest.test:443", egress: "connect" },
    Kind { name: "CONNECT ip:port", method: "CONNECT", target: "93.184.216.34:80", egress: "connect" },
    Kind { name: "_check", method: "CONNECT", target: "_check", egress: "none" },
    Kind { name: "_udp2", method: "CONNECT", target: "_udp2", egress: "udp" },
    Kind { name: "_icmp", method: "CONNECT", target: "_icmp", egress: "icmp" },
    Kind { name: "GET absolute-URI", method: "GET", target: "http://r{}.dest.test/x", egress: "connect" },
    Kind { name: "POST absolute-URI", method: "POST", target: "http://r{}.dest.test/submit", egress: "connect" },
];

fn build_req(kind: &Kind, cred: &Cred, label: u64) -> Req {
    let mut r = Req::new(kind.method, &kind.target.replace("{}", &label.to_string()));
    if kind.method == "CONNECT" { r.end_stream = false; }
    if kind.method == "POST" { r = r.header("content-length", b"0"); }
    r = r.header("user-agent", b"verif/1 test");
    for v in &cred.values { r = r.header("proxy-authorization", v); }
    r
}

struct Judged {
    egress_events: usize,
}

fn judge(rep: &Reporter, cfg: &str, proto: Proto, kind: &Kind, cred: &Cred, resp: &Resp, events: &[FwdEvent], position: &str) -> Judged {
    let witness = || json!({"kind":"auth-gate","config":cfg,"protocol":format!("{:?}", proto),"request_kind":kind.name,"credential_case":cred.name,
        "position_in_session":position,"response":resp.summary(),"forwarder_events":events.iter().map(|e| format!("{:?}", e).chars().take(160).collect::<String>()).collect::<Vec<_>>()});
    let is_407 = resp.status == Some(407);
    let challenge = resp.header("proxy-authenticate").map(|v| v.starts_with("Basic")).unwrap_or(false);
    let passed = matches!(resp.status, Some(s) if s != 407 && (200..300).contains(&s));
    let egress = events.len();
    match cred.verdict {
        Verdict::MustReject => {
            if egress > 0 {
                rep.violation(&format!("egress for a request without valid credentials ({}; {})", cred.name, kind.egress), witness());
            }
            if passed {
                rep.violation(&format!("request without valid credentials accepted ({})", cred.name), witness());
            } else if !is_407 {
                rep.violation(&format!("rejected request answered {:?} instead of 407 ({})", resp.status, cred.name), witness());
            } else if !challenge {
                rep.violation("407 without a Basic challenge", witness());
            } else {
                rep.tally("rejected with 407 + challenge, zero egress", 1);
            }
        }
        Verdict::MustPass => {
            if is_407 || resp.status.is_none() {
                rep.violation(&format!("valid credentials refused ({:?}; {})", resp.status, cred.name), witness());
            } else {
                rep.tally("valid credentials accepted", 1);
                let want = match kind.egress { "none" => 0, _ => 1 };
                let got = events.iter().filter(|e| match (kind.egress, e) { ("connect", FwdEvent::Connect(_)) => true, ("udp", FwdEvent::UdpMux(_)) => true, ("icmp", FwdEvent::IcmpMux) => true, _ => false }).count();
                if got != want {
                    rep.violation(&format!("accepted {} request produced {} egress action(s), expected {}", kind.egress, got, want), witness());
                }
            }
        }
        Verdict::Either => {
            if is_407 {
                if egress > 0 { rep.violation(&format!("egress for a request answered 407 ({})", cred.name), witness()); }
                rep.tally(&format!("either: '{}' -> 407", cred.name), 1);
            } else if passed || resp.status == Some(502) && egress > 0 {
                rep.tally(&format!("either: '{}' -> accepted", cred.name), 1);
            } else {
                rep.violation(&format!("request answered {:?}: neither accepted nor 407 ({})", resp.status, cred.name), witness());
            }
        }
    }
    Judged { egress_events: egress }
}

fn rec_fwd() -> Arc<RecFwd> {
    Arc::new(RecFwd {
        log: Default::default(),
        decide: Box::new(|m| match &m.destination { _ if m.user_agent.is_some() => Outcome::Canned(b"HTTP/1.1 200 OK\r\nContent-Length: 0\r\n\r\n".to_vec()), _ => Outcome::Canned(vec![]) }),
        udp: MuxChoice::Real,
        icmp: MuxChoice::Real,
        check_auth_err: None,
        received: Default::default(),
        abandoned: Default::default(),
    })
}

fn table(rep: &Arc<Reporter>, ctx: &Arc<Ctx>) {
    let rt = env::rt_paused();
    let mut label = 0u64;
    for proto in [Proto::H1, Proto::H2] {
        for kind in KINDS {
            for cred in creds() {
                label += 1;
                let fwd = rec_fwd();
                let req = build_req(kind, &cred, label);
                let how = How::Tunnel(Fwd::Scripted(fwd.clone()), Policy::Default);
                let resp = rt.block_on(async {
                    match proto {
                        Proto::H1 => h1_roundtrip(ctx, how, "main.test", &req, Duration::from_secs(20), label).await,
                        _ => h2_session(ctx, how, "main.test", std::slice::from_ref(&req), Duration::from_secs(20), label).await.pop().unwrap_or_default(),
                    }
                });
                rep.evals(1);
                rep.distinct(common::fnv(format!("{:?}|{}|{}", proto, kind.name, cred.name).as_bytes()));
                if label % 53 == 7 { rep.sample(json!({"protocol":format!("{:?}", proto),"request":req.describe(),"credential_case":cred.name,"response":resp.summary(),"egress_events":fwd.egress_count()})); }
                judge(rep, "registry authenticator", proto, kind, &cred, &resp, &fwd.events(), "only request");
            }
        }
    }
}

/// HTTP/2 histories: several streams with mixed credentials on one session, judged independently
fn histories(rep: &Arc<Reporter>, args: &Args, ctx: &Arc<Ctx>) {
    let rt = env::rt_paused();
    let all = creds();
    let n = args.qt(4000u64, 300_000u64);
    for h in 0..n {
        let mut r = Rng::derive(args.seed, 0xc01, h);
        let len = r.range(2, 6) as usize;
        let fwd = rec_fwd();
        let mut reqs = vec![];
        let mut meta = vec![];
        // bias: a valid request first, then requests without credentials (a pass must not authorise later ones)
        for i in 0..len {
            let cred = if i == 0 && r.chance(1, 2) { all[1].clone() } else { r.pick(&all).clone() };
            let kind = r.pick(KINDS).clone();
            let label = 1_000_000 + h * 10 + i as u64;
            reqs.push(build_req(&kind, &cred, label));
            meta.push((kind, cred, label));
        }
        let how = How::Tunnel(Fwd::Scripted(fwd.clone()), Policy::Default);
        let resps = rt.block_on(h2_session(ctx, how, "main.test", &reqs, Duration::from_secs(20), 777_000 + h));
        rep.evals(1);
        rep.distinct(common::fnv(format!("hist|{:?}", meta.iter().map(|m| (m.0.name, m.1.name)).collect::<Vec<_>>()).as_bytes()));
        let events = fwd.events();
        for (i, ((kind, cred, label), resp)) in meta.iter().zip(resps.iter()).enumerate() {
            // attribute egress: connects by unique destination label; mux creation cannot be attributed to a stream,
            // so for udp/icmp kinds count them only when no other stream of that kind passed
            let mine: Vec<FwdEvent> = events.iter().filter(|e| match e {
                FwdEvent::Connect(m) => format!("{:?}", m.destination).contains(&format!("r{}.", label)) || (kind.name == "CONNECT ip:port" && format!("{:?}", m.destination).contains("93.184.216.34") && meta.iter().filter(|x| x.0.name == "CONNECT ip:port").count() == 1),
                FwdEvent::UdpMux(_) => kind.egress == "udp" && meta.iter().filter(|x| x.0.egress == "udp").count() == 1,
                FwdEvent::IcmpMux => kind.egress == "icmp" && meta.iter().filter(|x| x.0.egress == "icmp").count() == 1,
                FwdEvent::CheckAuth(_) => false,
            }).cloned().collect();
            let ambiguous = (kind.egress == "udp" || kind.egress == "icmp" || kind.name == "CONNECT ip:port") && meta.iter().filter(|x| x.0.name == kind.name).count() > 1;
            if ambiguous {
                // only the response is judged for streams whose egress cannot be attributed
                if cred.verdict == Verdict::MustReject && resp.status != Some(407) {
                    rep.violation(&format!("rejected request answered {:?} instead of 407 ({})", resp.status, cred.name), json!({"kind":"auth-gate","history":h,"stream":i,"response":resp.summary()}));
                }
                continue;
            }
            let pos = format!("stream {} of {} (previous verdicts: {:?})", i + 1, len, meta[..i].iter().map(|m| format!("{:?}", m.1.verdict)).collect::<Vec<_>>());
            judge(rep, "registry authenticator, multiplexed", Proto::H2, kind, cred, resp, &mine, &pos);
            if i > 0 && meta[..i].iter().any(|m| m.1.verdict == Verdict::MustPass) && cred.verdict == Verdict::MustReject {
                rep.tally("history: unauthenticated request after an accepted one on the same session", 1);
            }
        }
        // global: egress events must not outnumber streams that may pass
        let may_pass = meta.iter().filter(|m| m.1.verdict != Verdict::MustReject).count();
        let egress = events.iter().filter(|e| !matches!(e, FwdEvent::CheckAuth(_))).count();
        if egress > may_pass {
            rep.violation("more egress actions on a session than requests that may be accepted", json!({"kind":"auth-gate","history":h,"egress":egress,"may_pass":may_pass,
                "streams":meta.iter().map(|m| format!("{} / {}", m.0.name, m.1.name)).collect::<Vec<_>>()}));
        }
    }
}

struct SniAuth {
    accepted_tokens: Vec<String>,
    accepted_basic: Vec<String>,
    calls: AtomicU64,
}

impl Authenticator for SniAuth {
    fn authenticate(&self, source: &Source<'_>, _log_id: &trusttunnel::log_utils::IdChain<u64>) -> Status {
        self.calls.fetch_add(1, Ordering::Relaxed);
        let ok = match source {
            Source::Sni(x) => self.accepted_tokens.iter().any(|t| t == x.as_ref()),
            Source::ProxyBasic(x) => self.accepted_basic.iter().any(|t| t == x.as_ref()),
        };
        if ok { Status::Pass } else { Status::Reject }
    }
}

/// SNI-credential configurations through the real Core::on_tunnel_request and the real DirectForwarder
fn sni_matrix(rep: &Arc<Reporter>, args: &Args) {
    let dir = env::work_dir(&args.root, "c01");
    let rt = env::rt_current();
    rt.block_on(async {
        let canary = tokio::net::TcpListener::bind("127.0.0.1:0").await.unwrap();
        let port = canary.local_addr().unwrap().port();
        let accepts = Arc::new(AtomicU64::new(0));
        {
            let accepts = accepts.clone();
            tokio::spawn(async move { loop { if canary.accept().await.is_ok() { accepts.fetch_add(1, Ordering::SeqCst); } } });
        }
        let auth = Arc::new(SniAuth { accepted_tokens: vec!["tokA-CANARYSNI".into()], accepted_basic: vec![basic(USERS[0].0, USERS[0].1)], calls: Default::default() });
        let ctx = Arc::new(env::make_ctx(&dir, env::CtxOpts { allow_private: true, authenticator: Some(auth.clone()), clients: vec![(USERS[0].0.into(), USERS[0].1.into())], ..Default::default() }));
        let all = creds();
        let picks = [0usize, 1, 5, 12, 16];
        let mut id = 9000u64;
        for (sni_name, sni) in [("accepted SNI credentials", Some("tokA-CANARYSNI")), ("rejected SNI credentials", Some("tokBad-CANARYSNI")), ("no SNI credentials", None)] {
            for ci in picks {
                let cred = &all[ci];
                for (kname, target) in [("CONNECT loopback canary", format!("127.0.0.1:{}", port)), ("_check", "_check".to_string())] {
                    for proto in [Proto::H1, Proto::H2] {
                        id += 1;
                        let mut req = Req::connect(&target);
                        for v in &cred.values { req = req.header("proxy-authorization", v); }
                        vnet::take_connects();
                        let before = accepts.load(Ordering::SeqCst);
                        let how = How::TunnelRequest(sni.map(String::from));
                        let sni_host = match sni { Some(t) => format!("{}.main.test", t), None => "main.test".to_string() };
                        let resp = match proto {
                            Proto::H1 => h1_roundtrip(&ctx, how, &sni_host, &req, Duration::from_millis(400), id).await,
                            _ => h2_session(&ctx, how, &sni_host, std::slice::from_ref(&req), Duration::from_millis(800), id).await.pop().unwrap_or_default(),
                        };
                        tokio::time::sleep(Duration::from_millis(20)).await;
                        let egress = (accepts.load(Ordering::SeqCst) - before) as usize + vnet::take_connects().len();
                        rep.evals(1);
                        rep.distinct(common::fnv(format!("sni|{}|{}|{}|{:?}", sni_name, cred.name, kname, proto).as_bytes()));
                        let w = json!({"kind":"auth-gate-sni","sni":sni_name,"credential_case":cred.name,"request_kind":kname,"protocol":format!("{:?}", proto),"response":resp.summary(),"egress_observed":egress});
                        let passed = matches!(resp.status, Some(s) if (200..300).contains(&s));
                        // A = valid Proxy-Authorization, B = connection's SNI credentials accepted
                        let a = cred.verdict == Verdict::MustPass;
                        let a_maybe = cred.verdict == Verdict::Either;
                        let b = sni == Some("tokA-CANARYSNI");
                        let header_present = !cred.values.is_empty();
                        if sni == Some("tokBad-CANARYSNI") {
                            // the connection is refused before any request is read: no egress, no success; response not pinned
                            if egress > 0 || passed { rep.violation("egress/acceptance on a connection whose SNI credentials were rejected", w); }
                            else { rep.tally("sni: rejected connection served nothing", 1); }
                        } else if a || (b && !header_present) {
                            if !passed { rep.violation(&format!("authorised request refused ({}; header {})", sni_name, cred.name), w); }
                            else { rep.tally("sni: authorised request accepted", 1); }
                        } else if b || a_maybe {
                            // SNI-authenticated connection with an invalid header, or an EITHER header: pass or 407
                            if !(passed || resp.status == Some(407)) { rep.violation("request answered neither accepted nor 407", w); }
                            else if resp.status == Some(407) && egress > 0 { rep.violation("egress for a request answered 407", w); }
                            else { rep.tally("sni: either zone", 1); }
                        } else {
                            if egress > 0 || passed { rep.violation(&format!("egress/acceptance without valid credentials ({}; header {})", sni_name, cred.name), w); }
                            else if resp.status != Some(407) { rep.violation(&format!("rejected request answered {:?} instead of 407 ({})", resp.status, cred.name), w); }
                            else { rep.tally("sni: rejected with 407, zero egress", 1); }
                        }
                    }
                }
            }
        }
        if auth.calls.load(Ordering::Relaxed) == 0 {
            rep.inconclusive("SNI authenticator never consulted");
        }
    });
}

pub fn scenarios(rep: &Arc<Reporter>, args: &Args) {
    let dir = env::work_dir(&args.root, "c01");
    let ctx = Arc::new(env::make_ctx(&dir, env::CtxOpts {
        clients: USERS.iter().map(|(u, p)| (u.to_string(), p.to_string())).collect(),
        registry_authenticator: true,
        tweak: Some(Box::new(|b| b.icmp(trusttunnel::settings::IcmpSettings::builder().interface_name("lo").build().unwrap()))),
        ..Default::default()
    }));
    table(rep, &ctx);
    histories(rep, args, &ctx);
    sni_matrix(rep, args);
}

pub fn run(args: &Args) -> i32 {
    let rep = Arc::new(Reporter::new(
        args,
        "exploration",
        "table: 32 Proxy-Authorization cases (absent, valid x3, wrong user/password, whitespace, other schemes, a registered token without / behind a repeated / behind another scheme, malformed base64, non-UTF-8, \
         empty, duplicates) x 7 request kinds x {HTTP/1.1, HTTP/2} through the real Tunnel with a recording forwarder (every request has its own \
         destination so egress is attributed per request); histories: seeded HTTP/2 sessions of 2-6 interleaved streams with mixed credentials, \
         each stream judged independently; SNI matrix through the real Core::on_tunnel_request + real DirectForwarder against a loopback canary. \
         distinct_nontrivial = distinct (protocol, kind, credential case) tuples / history shapes.",
    ));
    rep.assume("whitespace around the value, scheme case, duplicate headers and unpadded base64 are EITHER (accepted or 407, never anything else)");
    rep.assume("a connection whose SNI credentials are rejected is dropped before any request is read: judged for zero egress only");
    rep.assume("HTTP/3: credential table x {CONNECT host:port, _check, _udp2} as one long session over real QUIC on loopback (real Core::listen + registry authenticator + DirectForwarder against a counting canary)");
    scenarios(&rep, args);
    crate::props::h3_l2::c01_h3(&rep, args);
    rep.finish()
}
