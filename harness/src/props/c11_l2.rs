//! C11 L2: raw ICMP on the loopback interface through the real IcmpForwarder (filled in later).

use crate::common::{Args, Reporter};
use serde_json::json;

pub fn run_l2(rep: &Reporter, _args: &Args) {
    rep.set("l2", json!("not exercised yet"));
}
