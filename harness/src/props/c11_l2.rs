//! C11 L2: raw ICMP on the loopback interface through the real IcmpForwarder (needs CAP_NET_RAW).
//!
//! The real Core::listen with icmp.interface_name = "lo"; HTTP/2 clients each open an `_icmp`
//! stream and send 7.3 records; a harness raw socket sniffs the echoes the endpoint emits (id, seq,
//! size, TTL, checksum) and injects forged replies; clients must receive exactly their own replies.

use crate::common::{self, Args, Reporter, Rng};
use crate::env;
use crate::l2::*;
use crate::props::c11::ones_sum;
use bytes::Bytes;
use serde_json::json;
use socket2::{Domain, Protocol, Socket, Type};
use std::mem::MaybeUninit;
use std::net::{IpAddr, SocketAddr};
use std::sync::{Arc, Mutex};
use std::time::Duration;
use trusttunnel::verif::misc::icmp_table_sizes;

fn rec73(id: u16, dst: IpAddr, seq: u16, ttl: u8, size: u16) -> Vec<u8> {
    let mut v = id.to_be_bytes().to_vec();
    match dst { IpAddr::V4(x) => { v.extend_from_slice(&[0; 12]); v.extend_from_slice(&x.octets()); } IpAddr::V6(x) => v.extend_from_slice(&x.octets()) }
    v.extend_from_slice(&seq.to_be_bytes());
    v.push(ttl);
    v.extend_from_slice(&size.to_be_bytes());
    v
}

#[derive(Clone, Debug)]
struct Sniffed { ttl: u8, icmp: Vec<u8> }

fn sniffer(stop: Arc<std::sync::atomic::AtomicBool>, out: Arc<Mutex<Vec<Sniffed>>>) -> Option<std::thread::JoinHandle<()>> {
    let s = Socket::new(Domain::IPV4, Type::from(libc::SOCK_RAW), Some(Protocol::ICMPV4)).ok()?;
    s.set_read_timeout(Some(Duration::from_millis(100))).ok()?;
    Some(std::thread::spawn(move || {
        let mut buf = [MaybeUninit::<u8>::uninit(); 4096];
        while !stop.load(std::sync::atomic::Ordering::Relaxed) {
            if let Ok((n, _)) = s.recv_from(&mut buf) {
                let b: Vec<u8> = buf[..n].iter().map(|x| unsafe { x.assume_init() }).collect();
                if b.len() < 28 { continue; }
                let ihl = ((b[0] & 0x0f) as usize) * 4;
                if b.len() < ihl + 8 { continue; }
                out.lock().unwrap().push(Sniffed { ttl: b[8], icmp: b[ihl..].to_vec() });
            }
        }
    }))
}

pub fn run_l2(rep: &Reporter, args: &Args) {
    // capability probe
    if Socket::new(Domain::IPV4, Type::from(libc::SOCK_RAW), Some(Protocol::ICMPV4)).is_err() {
        rep.inconclusive("raw ICMP sockets are not permitted in this environment");
        rep.set("l2", json!("not exercised: raw sockets not permitted"));
        return;
    }
    let dir = env::work_dir(&args.root, "c11");
    let rt = env::rt_multi(4);
    let sniffed: Arc<Mutex<Vec<Sniffed>>> = Default::default();
    let stop = Arc::new(std::sync::atomic::AtomicBool::new(false));
    let sn = sniffer(stop.clone(), sniffed.clone());
    rt.block_on(async {
        let hosts = Hosts { main: vec![("main.test".into(), vec![])], ..Default::default() };
        let ep = start_endpoint(&dir, "127.0.0.1", &hosts, None, vec![], (true, true, false), |b| {
            b.icmp(trusttunnel::settings::IcmpSettings::builder().interface_name("lo").request_timeout(Duration::from_millis(900)).build().unwrap())
        }).await;
        tokio::time::sleep(Duration::from_millis(100)).await;
        let mut r = Rng::derive(args.seed, 0xc11e, 0);
        let nclients = 3usize;
        let per_client = args.qt(6, 40) as usize;
        let base_id: u16 = 0x4000 | (r.next() as u16 & 0x0fff);
        let mut js = vec![];
        let all_requests: Arc<Mutex<Vec<(usize, u16, u16, u8, u16, IpAddr)>>> = Default::default();
        // two more clients take strict turns with fixed TTL patterns (A x, B y, A x again ...): whatever one client's
        // request does to the shared raw socket must not leak into the other's
        let turn = Arc::new(std::sync::atomic::AtomicUsize::new(0));
        for c in 0..nclients + 2 {
            let addr = ep.addr;
            let reqs = all_requests.clone();
            let turn = turn.clone();
            let mut rr = Rng::derive(args.seed, 0xc11f, c as u64);
            js.push(tokio::spawn(async move {
                let o = tls_connect(addr, Some("main.test"), &[b"h2"], Duration::from_secs(3)).await;
                let Some(stream) = o.stream else { return Err("tls".to_string()) };
                let (mut send, conn) = h2::client::handshake(stream).await.map_err(|e| e.to_string())?;
                let cj = tokio::spawn(async move { let _ = conn.await; });
                let _ = futures::future::poll_fn(|cx| send.poll_ready(cx)).await;
                let (fut, mut tx) = send.send_request(http::Request::builder().method("CONNECT").uri("_icmp").body(()).unwrap(), false).map_err(|e| e.to_string())?;
                let resp = tokio::time::timeout(Duration::from_secs(3), fut).await.map_err(|_| "no response".to_string())?.map_err(|e| e.to_string())?;
                if resp.status() != 200 { return Err(format!("_icmp answered {}", resp.status())); }
                let mut body = resp.into_body();
                let mut mine = vec![];
                let taking_turns = c >= nclients;
                let pattern: [u8; 8] = if c == nclients { [64, 64, 64, 7, 7, 64, 64, 64] } else { [7, 7, 255, 255, 7, 7, 1, 1] };
                for k in 0..(if taking_turns { pattern.len() } else { per_client }) {
                    let id = base_id + c as u16;
                    let seq = (c * 1000 + k) as u16;
                    let mut ttl = *rr.pick(&[1u8, 7, 64, 255]);
                    let mut size = *rr.pick(&[0u16, 8, 56, 600]);
                    let mut dst: IpAddr = if k % 5 == 4 { "::1".parse().unwrap() } else { "127.0.0.1".parse().unwrap() };
                    if taking_turns {
                        ttl = pattern[k];
                        size = 8;
                        dst = "127.0.0.1".parse().unwrap();
                        // wait for my turn (bounded: the other client may have failed to connect)
                        let mine_is = 2 * k + (c - nclients);
                        for _ in 0..400 { if turn.load(std::sync::atomic::Ordering::SeqCst) >= mine_is { break; } tokio::time::sleep(Duration::from_millis(5)).await; }
                    }
                    let rec = rec73(id, dst, seq, ttl, size);
                    // records are sometimes split across DATA frames
                    let cut = if k % 3 == 0 { rr.range(1, rec.len() as u64 - 1) as usize } else { rec.len() };
                    tx.reserve_capacity(rec.len());
                    let _ = futures::future::poll_fn(|cx| tx.poll_capacity(cx)).await;
                    let _ = tx.send_data(Bytes::copy_from_slice(&rec[..cut]), false);
                    if cut < rec.len() { tokio::time::sleep(Duration::from_millis(3)).await; let _ = tx.send_data(Bytes::copy_from_slice(&rec[cut..]), false); }
                    mine.push((c, id, seq, ttl, size, dst));
                    if taking_turns { tokio::time::sleep(Duration::from_millis(25)).await; turn.fetch_add(1, std::sync::atomic::Ordering::SeqCst); }
                    tokio::time::sleep(Duration::from_millis(rr.below(15))).await;
                }
                reqs.lock().unwrap().extend(mine.clone());
                // collect 7.4 records for a while
                let mut got = vec![];
                loop {
                    match tokio::time::timeout(Duration::from_millis(1600), body.data()).await {
                        Ok(Some(Ok(b))) => { let _ = body.flow_control().release_capacity(b.len()); got.extend_from_slice(&b); }
                        _ => break,
                    }
                }
                drop(tx);
                cj.abort();
                Ok((c, got))
            }));
        }
        // meanwhile: forged replies that must not be reported (wrong id / wrong seq)
        let forger = Socket::new(Domain::IPV4, Type::from(libc::SOCK_RAW), Some(Protocol::ICMPV4)).ok();
        if let Some(f) = &forger {
            tokio::time::sleep(Duration::from_millis(60)).await;
            for k in 0..20u16 {
                for (id, seq) in [(base_id + 7, k), (base_id, 60000 + k)] {
                    let mut p = vec![0u8, 0, 0, 0];
                    p.extend_from_slice(&id.to_be_bytes());
                    p.extend_from_slice(&seq.to_be_bytes());
                    p.extend_from_slice(b"forged!!");
                    let c = !ones_sum(&p);
                    p[2..4].copy_from_slice(&c.to_be_bytes());
                    let to: SocketAddr = "127.0.0.1:0".parse().unwrap();
                    let _ = f.send_to(&p, &to.into());
                }
                tokio::time::sleep(Duration::from_millis(5)).await;
            }
        }
        let mut per_client_records: Vec<(usize, Vec<u8>)> = vec![];
        for j in js {
            match j.await { Ok(Ok(x)) => per_client_records.push(x), Ok(Err(e)) => { rep.inconclusive(&format!("icmp client could not be driven: {}", e)); } Err(_) => {} }
        }
        // late genuine-looking reply after the timeout: must not be reported (no stream to report on either); table must be empty
        tokio::time::sleep(Duration::from_millis(1200)).await;
        let sizes = icmp_table_sizes(&ep.ctx);
        rep.evals(1);
        match sizes {
            Some((0, 0)) => rep.tally("l2: waiter and deadline tables empty after the request timeout", 1),
            Some((w, d)) => rep.violation("pending echo requests not forgotten after the request timeout (waiter table not empty)", json!({"kind":"icmp-l2","waiters":w,"deadlines":d})),
            None => rep.inconclusive("icmp forwarder missing"),
        }
        let requests = all_requests.lock().unwrap().clone();
        let sn_copy = sniffed.lock().unwrap().clone();
        // ---- what went out on the wire (IPv4) ----
        for (c, id, seq, ttl, size, dst) in &requests {
            if !dst.is_ipv4() { continue; }
            rep.evals(1);
            rep.distinct(common::fnv(format!("wire|{}|{}", id, seq).as_bytes()));
            let hits: Vec<&Sniffed> = sn_copy.iter().filter(|s| s.icmp[0] == 8 && s.icmp[4..6] == id.to_be_bytes() && s.icmp[6..8] == seq.to_be_bytes()).collect();
            let w = json!({"kind":"icmp-l2-wire","client":c,"id":id,"seq":seq,"ttl":ttl,"size":size,"echoes_on_wire":hits.len(),"first":hits.first().map(|h| json!({"ttl":h.ttl,"len":h.icmp.len(),"sum":format!("{:#06x}", ones_sum(&h.icmp))}))});
            if hits.len() != 1 { rep.violation(&format!("{} echo request(s) on the wire for one requested echo", if hits.is_empty() { "no" } else { "several" }), w); continue; }
            let h = hits[0];
            if h.ttl != *ttl { rep.violation("echo sent with a TTL different from the requested one", w.clone()); }
            if h.icmp.len() != 8 + *size as usize { rep.violation("echo sent with a data size different from the requested one", w.clone()); }
            if ones_sum(&h.icmp) != 0xffff { rep.violation("echo on the wire has an invalid Internet checksum", w.clone()); }
            if h.ttl == *ttl && h.icmp.len() == 8 + *size as usize && ones_sum(&h.icmp) == 0xffff { rep.tally("l2 wire: one echo per request with requested id/seq/TTL/size and valid checksum", 1); }
        }
        // ---- what each client was told ----
        for (c, bytes) in &per_client_records {
            rep.evals(1);
            if bytes.len() % 22 != 0 { rep.violation("reply stream is not a sequence of 22-byte 7.4 records", json!({"client":c,"len":bytes.len()})); continue; }
            let mut seen: Vec<(u16, u16, u8, u8, IpAddr)> = vec![];
            for rec in bytes.chunks(22) {
                let id = u16::from_be_bytes([rec[0], rec[1]]);
                let mut a = [0u8; 16]; a.copy_from_slice(&rec[2..18]);
                let addr: IpAddr = if a[..12].iter().all(|x| *x == 0) && a != std::net::Ipv6Addr::LOCALHOST.octets() { IpAddr::from([a[12], a[13], a[14], a[15]]) } else { IpAddr::from(a) };
                seen.push((id, u16::from_be_bytes([rec[20], rec[21]]), rec[18], rec[19], addr));
            }
            let mine: Vec<&(usize, u16, u16, u8, u16, IpAddr)> = requests.iter().filter(|r| r.0 == *c).collect();
            for (id, seq, t, code, addr) in &seen {
                let w = json!({"kind":"icmp-l2-report","client":c,"id":id,"seq":seq,"type":t,"code":code,"from":addr.to_string()});
                match mine.iter().find(|r| r.1 == *id && r.2 == *seq) {
                    None => rep.violation("client was told about a reply to a request it never sent (another client's, forged or unrelated)", w),
                    Some(r) => {
                        // ttl 1 to loopback still arrives; replies come from the destination itself
                        let ok_type = (*t == 0 && r.5.is_ipv4()) || (*t == 129 && r.5.is_ipv6()) || *t == 3 || *t == 11 || *t == 1;
                        if !ok_type || (*t == 0 || *t == 129) && *addr != r.5 { rep.violation("reply reported with wrong type or responder address", w); }
                        else { rep.tally("l2 report: reply matched to its own client in 7.4 format", 1); }
                    }
                }
            }
            // every IPv4 loopback request is answered by the kernel: it must be reported (at least once)
            for r in &mine {
                if r.5.is_ipv4() && !seen.iter().any(|s| s.0 == r.1 && s.1 == r.2) {
                    rep.violation("echo reply received on the wire was not reported to the requesting client", json!({"kind":"icmp-l2-report","client":c,"id":r.1,"seq":r.2}));
                }
            }
            let dups = seen.len() - { let mut s = seen.iter().map(|x| (x.0, x.1)).collect::<Vec<_>>(); s.sort(); s.dedup(); s.len() };
            if dups > 0 { rep.tally("l2 report: duplicate reports of one reply (either)", dups as u64); }
        }
        rep.set("l2", json!(format!("exercised: {} HTTP/2 clients x {} echo requests over raw ICMP on lo, sniffer + forged replies", per_client_records.len(), per_client)));
        ep.task.abort();
    });
    stop.store(true, std::sync::atomic::Ordering::Relaxed);
    if let Some(h) = sn { let _ = h.join(); }
}

// ------------------------------------------------------------------ errors quoting a pending request (private netns)

/// Parent side: re-executes this binary inside a private network namespace in which the kernel does not answer echo
/// requests (icmp_echo_ignore_all = 1), so that requests stay pending and the harness decides what comes back.
pub fn run_errors(rep: &Reporter, args: &Args) {
    let exe = match std::env::current_exe() { Ok(e) => e, Err(_) => { rep.inconclusive("l2 errors: cannot find own executable"); return; } };
    let script = format!("ip link set lo up && echo 1 > /proc/sys/net/ipv4/icmp_echo_ignore_all && exec {} C11 --tier {} --l2-errors-child", exe.display(), if args.thorough() { "thorough" } else { "quick" });
    let out = std::process::Command::new("unshare").args(["-n", "sh", "-c", &script]).env("VERIF_ROOT", &args.root).env("VERIF_SEED", args.seed.to_string()).output();
    let Ok(out) = out else { rep.inconclusive("l2 errors: unshare not available"); return; };
    let text = String::from_utf8_lossy(&out.stdout).to_string();
    let mut seen_any = false;
    for line in text.lines() {
        if let Some(rest) = line.strip_prefix("CHILD-OK ") { seen_any = true; rep.evals(1); rep.tally(&format!("l2 errors: {}", rest), 1); rep.distinct(common::fnv(line.as_bytes())); }
        else if let Some(rest) = line.strip_prefix("CHILD-BAD ") {
            seen_any = true; rep.evals(1);
            let (sig, w) = rest.split_once(" || ").unwrap_or((rest, "{}"));
            rep.violation(sig, serde_json::from_str(w).unwrap_or(json!({"raw": w})));
        } else if let Some(rest) = line.strip_prefix("CHILD-INCONCLUSIVE ") { seen_any = true; rep.inconclusive(&format!("l2 errors: {}", rest)); }
    }
    if !seen_any { rep.inconclusive(&format!("l2 errors: the namespace child produced no verdict (exit {:?})", out.status.code())); }
}

/// Child side (inside the namespace). Prints CHILD-OK / CHILD-BAD / CHILD-INCONCLUSIVE lines.
pub fn errors_child(args: &Args) -> i32 {
    let dir = env::work_dir(&args.root, "c11ns");
    let rt = env::rt_multi(4);
    let sniffed: Arc<Mutex<Vec<Sniffed>>> = Default::default();
    let stop = Arc::new(std::sync::atomic::AtomicBool::new(false));
    let sn = sniffer(stop.clone(), sniffed.clone());
    if sn.is_none() { println!("CHILD-INCONCLUSIVE raw ICMP sockets are not permitted"); return 0; }
    rt.block_on(async {
        let hosts = Hosts { main: vec![("main.test".into(), vec![])], ..Default::default() };
        let ep = start_endpoint(&dir, "127.0.0.1", &hosts, None, vec![], (true, true, false), |b| {
            b.icmp(trusttunnel::settings::IcmpSettings::builder().interface_name("lo").request_timeout(Duration::from_millis(2500)).build().unwrap())
        }).await;
        tokio::time::sleep(Duration::from_millis(100)).await;
        let o = tls_connect(ep.addr, Some("main.test"), &[b"h2"], Duration::from_secs(3)).await;
        let Some(stream) = o.stream else { println!("CHILD-INCONCLUSIVE tls session could not be opened"); return; };
        let Ok((mut send, conn)) = h2::client::handshake(stream).await else { println!("CHILD-INCONCLUSIVE h2 handshake failed"); return; };
        let cj = tokio::spawn(async move { let _ = conn.await; });
        let _ = futures::future::poll_fn(|cx| send.poll_ready(cx)).await;
        let Ok((fut, mut tx)) = send.send_request(http::Request::builder().method("CONNECT").uri("_icmp").body(()).unwrap(), false) else { println!("CHILD-INCONCLUSIVE request failed"); return; };
        let Ok(Ok(resp)) = tokio::time::timeout(Duration::from_secs(3), fut).await else { println!("CHILD-INCONCLUSIVE _icmp not answered"); return; };
        if resp.status() != 200 { println!("CHILD-INCONCLUSIVE _icmp answered {}", resp.status()); return; }
        let mut body = resp.into_body();
        let forger = match Socket::new(Domain::IPV4, Type::from(libc::SOCK_RAW), Some(Protocol::ICMPV4)) { Ok(f) => f, Err(_) => { println!("CHILD-INCONCLUSIVE no raw socket"); return; } };
        // (what comes back, ICMP type, code, how much of the request is quoted: None = whole)
        let kinds: Vec<(&str, u8, u8, Option<usize>)> = vec![
            ("echo reply", 0, 0, None), ("time exceeded quoting 8 bytes of the request", 11, 0, Some(8)), ("time exceeded quoting the whole request", 11, 0, None),
            ("host unreachable quoting 8 bytes of the request", 3, 1, Some(8)), ("port unreachable quoting 12 bytes of the request", 3, 3, Some(12)), ("nothing (request times out)", 255, 0, None),
        ];
        let id: u16 = 0x5a00;
        let mut seq: u16 = 100;
        let mut expected: Vec<(u16, &str, u8, u8, bool)> = vec![];
        for size in [0u16, 8, 56, 600] {
            for (what, t, code, quote) in &kinds {
                seq += 1;
                let rec = rec73(id, "127.0.0.1".parse().unwrap(), seq, 64, size);
                tx.reserve_capacity(rec.len());
                let _ = futures::future::poll_fn(|cx| tx.poll_capacity(cx)).await;
                let _ = tx.send_data(Bytes::from(rec), false);
                // wait until the request is on the wire (sniffed), then answer it as chosen
                let mut req_icmp = None;
                for _ in 0..200 {
                    if let Some(s) = sniffed.lock().unwrap().iter().find(|s| s.icmp[0] == 8 && s.icmp[4..6] == id.to_be_bytes() && s.icmp[6..8] == seq.to_be_bytes()) { req_icmp = Some(s.icmp.clone()); break; }
                    tokio::time::sleep(Duration::from_millis(5)).await;
                }
                let Some(req_icmp) = req_icmp else { println!("CHILD-INCONCLUSIVE echo request seq {} never seen on the wire", seq); continue };
                let to: SocketAddr = "127.0.0.1:0".parse().unwrap();
                if *t == 0 {
                    let mut p = req_icmp.clone(); p[0] = 0; p[2] = 0; p[3] = 0; let c = !ones_sum(&p); p[2..4].copy_from_slice(&c.to_be_bytes());
                    let _ = forger.send_to(&p, &to.into());
                } else if *t != 255 {
                    let mut ip = vec![0x45u8, 0, 0, 0, 0, 0, 0, 0, 63, 1, 0, 0, 127, 0, 0, 1, 127, 0, 0, 1];
                    let total = (20 + req_icmp.len()) as u16; ip[2..4].copy_from_slice(&total.to_be_bytes());
                    let q = match quote { Some(n) => &req_icmp[..(*n).min(req_icmp.len())], None => &req_icmp[..] };
                    let mut p = vec![*t, *code, 0, 0, 0, 0, 0, 0];
                    p.extend_from_slice(&ip); p.extend_from_slice(q);
                    let c = !ones_sum(&p); p[2..4].copy_from_slice(&c.to_be_bytes());
                    let _ = forger.send_to(&p, &to.into());
                }
                expected.push((seq, what, *t, *code, *t != 255));
                tokio::time::sleep(Duration::from_millis(20)).await;
            }
        }
        // a burst of requests in one DATA frame (registered in the same instant), never answered: all must be forgotten
        {
            let mut burst = vec![];
            for k in 0..30u16 { burst.extend_from_slice(&rec73(id, "127.0.0.1".parse().unwrap(), 900 + k, 64, 0)); expected.push((900 + k, "nothing (burst, request times out)", 255, 0, false)); }
            tx.reserve_capacity(burst.len());
            let _ = futures::future::poll_fn(|cx| tx.poll_capacity(cx)).await;
            let _ = tx.send_data(Bytes::from(burst), false);
        }
        // collect the 7.4 records
        let mut got = vec![];
        loop {
            match tokio::time::timeout(Duration::from_millis(1500), body.data()).await {
                Ok(Some(Ok(b))) => { let _ = body.flow_control().release_capacity(b.len()); got.extend_from_slice(&b); }
                _ => break,
            }
        }
        let mut reports: Vec<(u16, u16, u8, u8)> = vec![];
        for rec in got.chunks(22) { if rec.len() == 22 { reports.push((u16::from_be_bytes([rec[0], rec[1]]), u16::from_be_bytes([rec[20], rec[21]]), rec[18], rec[19])); } }
        for (seq, what, t, code, must) in &expected {
            let mine: Vec<&(u16, u16, u8, u8)> = reports.iter().filter(|r| r.0 == id && r.1 == *seq).collect();
            let size = if *seq >= 900 { 0 } else { [0u16, 8, 56, 600][((*seq as usize - 101) / kinds.len()).min(3)] };
            let w = json!({"kind":"icmp-l2-error-report","seq":seq,"request_data_size":size,"came_back":what,"reports":mine.iter().map(|r| format!("type {} code {}", r.2, r.3)).collect::<Vec<_>>()});
            if *must {
                if mine.is_empty() { println!("CHILD-BAD an ICMP message answering a pending request was not reported to the requesting client ({}) || {}", if *t == 0 { "echo reply" } else if w["came_back"].as_str().unwrap_or("").contains("8 bytes") || w["came_back"].as_str().unwrap_or("").contains("12 bytes") { "error with a truncated quote" } else { "error with a full quote" }, w); }
                else if mine.len() > 1 { println!("CHILD-BAD one ICMP message reported more than once || {}", w); }
                else if mine[0].2 != *t || mine[0].3 != *code { println!("CHILD-BAD ICMP message reported with a wrong type or code || {}", w); }
                else { println!("CHILD-OK {} (request data size {}) reported once with its type and code", what, size); }
            } else if !mine.is_empty() { println!("CHILD-BAD a request that got no answer was reported to the client || {}", w); }
            else { println!("CHILD-OK unanswered request not reported"); }
        }
        // nothing else may be reported
        for r in &reports { if !expected.iter().any(|e| e.0 == r.1) || r.0 != id { println!("CHILD-BAD client was told about a reply to a request it never sent || {}", json!({"id":r.0,"seq":r.1})); } }
        // after the timeout the tables must be empty
        tokio::time::sleep(Duration::from_millis(2800)).await;
        match icmp_table_sizes(&ep.ctx) { Some((0, 0)) => println!("CHILD-OK waiter table empty after the request timeout"), Some((w, d)) => println!("CHILD-BAD pending echo requests not forgotten after the request timeout (waiter table not empty) || {}", json!({"waiters":w,"deadlines":d})), None => {} }
        drop(tx); cj.abort(); ep.task.abort();
    });
    stop.store(true, std::sync::atomic::Ordering::Relaxed);
    if let Some(h) = sn { let _ = h.join(); }
    0
}
