//! C05 L2: real TLS handshakes against the real Core::listen — certificate identity, negotiated
//! ALPN and channel behaviour per SNI/ALPN.

use crate::common::{self, Args, Reporter};
use crate::env;
use crate::kit::{parse_h1_head, read_until_quiet};
use crate::l2::*;
use serde_json::json;
use std::sync::Arc;
use std::time::Duration;
use tokio::io::AsyncWriteExt;

async fn probe_h1(s: &mut (impl tokio::io::AsyncRead + tokio::io::AsyncWrite + Unpin), req: &str) -> (Option<u16>, usize) {
    let _ = s.write_all(req.as_bytes()).await;
    let (got, _) = read_until_quiet(s, Duration::from_millis(700), 4 << 20).await;
    match parse_h1_head(&got) { Ok(Some(h)) => (Some(h.status), got.len() - h.head_len), _ => (None, got.len()) }
}

async fn probe_h2(s: tokio_rustls::client::TlsStream<Tap>, method: &str, uri: &str) -> (Option<u16>, usize) {
    let Ok((mut send, conn)) = h2::client::handshake(s).await else { return (None, 0) };
    let j = tokio::spawn(async move { let _ = conn.await; });
    let req = http::Request::builder().method(method).uri(uri).body(()).unwrap();
    let _ = futures::future::poll_fn(|cx| send.poll_ready(cx)).await;
    let r = match send.send_request(req, true) {
        Ok((fut, _)) => match tokio::time::timeout(Duration::from_secs(3), fut).await {
            Ok(Ok(resp)) => {
                let st = resp.status().as_u16();
                let mut body = resp.into_body();
                let mut n = 0;
                while let Ok(Some(Ok(b))) = tokio::time::timeout(Duration::from_secs(2), body.data()).await { n += b.len(); let _ = body.flow_control().release_capacity(b.len()); }
                (Some(st), n)
            }
            _ => (None, 0),
        },
        Err(_) => (None, 0),
    };
    j.abort();
    r
}

pub fn run_l2(rep: &Arc<Reporter>, args: &Args) {
    let dir = env::work_dir(&args.root, "c05");
    let rt = env::rt_multi(4);
    rt.block_on(async {
        let hosts = Hosts { main: vec![("main.test".into(), vec!["alt.test".into()])], ping: vec!["ping.test".into()], speedtest: vec!["speed.test".into()], reverse_proxy: vec!["rp.test".into()] };
        let closed = free_port(false);
        for (cfg_name, h1, h2) in [("http1+http2", true, true), ("http1 only", true, false), ("http2 only", false, true)] {
            let auth: Arc<dyn trusttunnel::authentication::Authenticator> = Arc::new(trusttunnel::authentication::registry_based::RegistryBasedAuthenticator::new(&[trusttunnel::authentication::registry_based::Client { username: "u".into(), password: "p".into() }]));
            let ep = start_endpoint(&dir, "127.0.0.1", &hosts, Some(auth), vec![("u".into(), "p".into())], (h1, h2, false), move |b| {
                b.reverse_proxy(trusttunnel::settings::ReverseProxySettings::builder().server_address(("127.0.0.1", closed)).unwrap().path_mask("/rp".into()).build().unwrap())
            }).await;
            // (sni, alpn offered, expected certificate host or None = refused, channel for the behaviour probe)
            let cases: Vec<(Option<&str>, Vec<&[u8]>, Option<&str>, &str)> = vec![
                (Some("main.test"), vec![b"h2", b"http/1.1"], Some("main.test"), "tunnel"),
                (Some("main.test"), vec![b"http/1.1", b"h2"], Some("main.test"), "tunnel"),
                (Some("main.test"), vec![b"http/1.1"], Some("main.test"), "tunnel"),
                (Some("main.test"), vec![b"h2"], Some("main.test"), "tunnel"),
                (Some("main.test"), vec![], Some("main.test"), "tunnel"),
                (Some("main.test"), vec![b"h3"], None, ""),
                (Some("main.test"), vec![b"h3", b"h2", b"http/1.1"], Some("main.test"), "tunnel"),
                (Some("main.test"), vec![b"spdy/3"], None, ""),
                (Some("alt.test"), vec![b"h2", b"http/1.1"], Some("main.test"), "tunnel"),
                (Some("tok-CANARYSNI.main.test"), vec![b"h2", b"http/1.1"], Some("main.test"), "sni-creds"),
                (Some("ping.test"), vec![b"h2", b"http/1.1"], Some("ping.test"), "ping"),
                (Some("ping.test"), vec![b"http/1.1"], Some("ping.test"), "ping"),
                (Some("ping.test"), vec![b"h2"], Some("ping.test"), "ping"),
                (Some("speed.test"), vec![b"h2", b"http/1.1"], Some("speed.test"), "speedtest"),
                (Some("speed.test"), vec![b"http/1.1"], Some("speed.test"), "speedtest"),
                (Some("rp.test"), vec![b"http/1.1"], Some("rp.test"), "rp"),
                (Some("rp.test"), vec![b"h2"], None, ""),
                (Some("rp.test"), vec![b"h2", b"http/1.1"], Some("rp.test"), "rp"),
                (Some("unknown.test"), vec![b"h2", b"http/1.1"], None, ""),
                (Some("x.ping.test"), vec![b"h2", b"http/1.1"], None, ""),
                (Some("test"), vec![b"h2", b"http/1.1"], None, ""),
                (None, vec![b"h2", b"http/1.1"], None, ""),
            ];
            for (sni, alpn, want_cert, chan) in cases {
                // what the listener enables decides the protocol
                let enabled = |p: &[u8]| (p == b"http/1.1" && h1) || (p == b"h2" && h2);
                let permitted = |p: &[u8]| chan != "rp" || p == b"http/1.1";
                let best: Option<&[u8]> = if alpn.iter().any(|p| *p == b"h2" && enabled(p) && permitted(p)) { Some(b"h2") } else if alpn.iter().any(|p| *p == b"http/1.1" && enabled(p) && permitted(p)) { Some(b"http/1.1") } else { None };
                let expect_proto: Option<Option<&[u8]>> = match want_cert {
                    None => None,
                    Some(_) => if alpn.is_empty() { if h1 { Some(None) } else { None } } else { best.map(Some) },
                };
                let o = tls_connect(ep.addr, sni, &alpn, Duration::from_secs(3)).await;
                rep.evals(1);
                rep.distinct(common::fnv(format!("l2|{}|{:?}|{:?}", cfg_name, sni, alpn).as_bytes()));
                let alpn_s: Vec<String> = alpn.iter().map(|a| String::from_utf8_lossy(a).to_string()).collect();
                let w = json!({"kind":"tls-l2","listen_protocols":cfg_name,"sni":sni,"alpn_offered":alpn_s,"handshake":o.error.clone().unwrap_or_else(|| "ok".into()),
                    "negotiated_alpn":o.alpn.as_ref().map(|a| String::from_utf8_lossy(a).to_string()),"server_bytes":o.server_bytes,
                    "certificate_of":o.peer_cert.as_ref().and_then(|c| ep.certs.iter().find(|(_, d)| *d == c).map(|(h, _)| h.clone()))});
                match (expect_proto, o.stream) {
                    (None, Some(_)) => {
                        let why = if want_cert.is_none() { if sni.is_none() { "no SNI" } else { "SNI designating no entry / unsupported ALPN" } } else { "no protocol offered, enabled and permitted" };
                        rep.violation(&format!("TLS connection accepted although it must be refused ({}; negotiated {:?})", why, o.alpn.as_ref().map(|a| String::from_utf8_lossy(a).to_string())), w);
                    }
                    (None, None) => {
                        if o.peer_cert.is_some() { rep.violation("certificate presented on a connection that must be refused", w); }
                        else { rep.tally("l2: refused without certificate", 1); }
                    }
                    (Some(_), None) => rep.violation(&format!("TLS connection refused although host and protocol match ({})", cfg_name), w),
                    (Some(ep_proto), Some(mut stream)) => {
                        let cert_host = want_cert.unwrap();
                        if o.peer_cert.as_ref() != ep.certs.get(cert_host) { rep.violation("certificate of another host served", w.clone()); }
                        if o.alpn.as_deref() != ep_proto { rep.violation(&format!("negotiated ALPN {:?} instead of {:?} ({})", o.alpn.as_ref().map(|a| String::from_utf8_lossy(a).to_string()), ep_proto.map(|a| String::from_utf8_lossy(a).to_string()), cfg_name), w.clone()); continue; }
                        // behaviour of the channel
                        let is_h2 = ep_proto == Some(b"h2".as_slice());
                        let (status, body) = match (chan, is_h2) {
                            ("tunnel", false) => probe_h1(&mut stream, "CONNECT _check HTTP/1.1\r\nHost: _check\r\n\r\n").await,
                            ("tunnel", true) => probe_h2(stream, "CONNECT", "_check").await,
                            ("ping", false) => probe_h1(&mut stream, "GET / HTTP/1.1\r\nHost: ping.test\r\n\r\n").await,
                            ("ping", true) => probe_h2(stream, "GET", "https://ping.test/").await,
                            ("speedtest", false) => probe_h1(&mut stream, "GET /1mb.bin HTTP/1.1\r\nHost: speed.test\r\n\r\n").await,
                            ("speedtest", true) => probe_h2(stream, "GET", "https://speed.test/1mb.bin").await,
                            _ => (None, 0),
                        };
                        let ok = match chan { "tunnel" => status == Some(407), "ping" => status == Some(200) && body == 0, "speedtest" => status == Some(200) && body == 1 << 20, _ => true };
                        if !ok { rep.violation(&format!("connection routed to the wrong channel or channel misbehaves (expected {})", chan), { let mut w = w.clone(); w["probe_status"] = json!(status); w["probe_body"] = json!(body); w }); }
                        else { rep.tally(&format!("l2: {} host served with its certificate, ALPN and channel", chan), 1); }
                    }
                }
            }
            ep.task.abort();
        }
        rep.set("l2", json!("exercised: rustls clients against Core::listen on 127.0.0.1 with listen protocols {h1+h2, h1, h2}; QUIC not exercised"));
    });
}
