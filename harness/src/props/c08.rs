//! C08 — HTTP/1.1 transport is segmentation-invariant and never spins.
//!
//! (a) codec level: the real Http1Codec::listen over an in-memory transport fed in segments with
//!     virtual gaps; the request it reports must not depend on the segmentation, the loop must
//!     not iterate without polling the transport (hook H4 + transport probe), over-long heads are
//!     rejected after a bounded number of bytes.
//! (b) tunnel level: CONNECT + payload through the real Tunnel/HttpDownstream/DuplexPipe to an
//!     echoing peer; response well-formedness and byte-exact relay in both directions.

use crate::common::report::Local;
use crate::common::{self, Args, Reporter, Rng};
use crate::env;
use crate::kit::*;
use serde_json::{json, Value};
use std::collections::BTreeMap;
use std::net::SocketAddr;
use std::sync::atomic::Ordering;
use std::sync::Arc;
use std::time::Duration;
use tokio::io::AsyncWriteExt;
use trusttunnel::verif::ctx::Ctx;
use trusttunnel::verif::spin;
use trusttunnel::verif::tunnel::{make_codec, Fwd, Policy, Proto};

#[derive(Clone, Debug)]
pub struct Head {
    pub kind: &'static str,
    pub bytes: Vec<u8>,
    /// Some(true) = must be accepted, Some(false) = must be rejected, None = EITHER
    pub valid: Option<bool>,
    pub method: &'static str,
}

fn mk(kind: &'static str, s: String, valid: Option<bool>, method: &'static str) -> Head {
    Head { kind, bytes: s.into_bytes(), valid, method }
}

pub fn heads() -> Vec<Head> {
    let mut v = vec![];
    let auth = format!("Proxy-Authorization: Basic {}\r\n", basic("u", "p"));
    v.push(mk("CONNECT host:port", format!("CONNECT example.org:443 HTTP/1.1\r\nHost: example.org:443\r\nUser-Agent: ua/1\r\n{}\r\n", auth), Some(true), "CONNECT"));
    v.push(mk("CONNECT ip:port", format!("CONNECT 93.184.216.34:80 HTTP/1.1\r\n{}\r\n", auth), Some(true), "CONNECT"));
    v.push(mk("CONNECT [v6]:port", format!("CONNECT [2606:2800:220:1::1]:8443 HTTP/1.1\r\n{}\r\n", auth), Some(true), "CONNECT"));
    v.push(mk("CONNECT _check", format!("CONNECT _check HTTP/1.1\r\n{}\r\n", auth), Some(true), "CONNECT"));
    v.push(mk("CONNECT _udp2", format!("CONNECT _udp2 HTTP/1.1\r\nUser-Agent: x _udp2\r\n{}\r\n", auth), Some(true), "CONNECT"));
    v.push(mk("CONNECT _icmp", format!("CONNECT _icmp HTTP/1.1\r\n{}\r\n", auth), Some(true), "CONNECT"));
    v.push(mk("GET absolute-URI", format!("GET http://example.org/a/b?c=d HTTP/1.1\r\nHost: example.org\r\nAccept: */*\r\n{}\r\n", auth), Some(true), "GET"));
    v.push(mk("GET origin-form + Host", format!("GET /index.html HTTP/1.1\r\nHost: example.org\r\n{}\r\n", auth), Some(true), "GET"));
    v.push(mk("POST with body", format!("POST http://example.org/submit HTTP/1.1\r\nHost: example.org\r\nContent-Length: 5\r\n{}\r\nhello", auth), Some(true), "POST"));
    v.push(mk("HTTP/1.0 CONNECT", "CONNECT example.org:80 HTTP/1.0\r\n\r\n".to_string(), Some(true), "CONNECT"));
    v.push(mk("CONNECT with Expect", "CONNECT example.org:443 HTTP/1.1\r\nExpect: 100-continue\r\n\r\n".to_string(), None, "CONNECT"));
    let many = |n: usize| -> String {
        let mut s = String::from("CONNECT example.org:443 HTTP/1.1\r\n");
        for i in 0..n {
            s.push_str(&format!("X-H{}: v{}\r\n", i, i));
        }
        s.push_str("\r\n");
        s
    };
    v.push(mk("1 header", many(1), Some(true), "CONNECT"));
    v.push(mk("30 headers", many(30), Some(true), "CONNECT"));
    v.push(mk("32 headers", many(32), None, "CONNECT"));
    v.push(mk("34 headers", many(34), Some(false), "CONNECT"));
    v.push(mk("80 headers", many(80), Some(false), "CONNECT"));
    v.push(mk("bad version", "CONNECT example.org:443 HTTP/2.0\r\n\r\n".to_string(), Some(false), "CONNECT"));
    v.push(mk("LF only", "CONNECT example.org:443 HTTP/1.1\nHost: x\n\n".to_string(), None, "CONNECT"));
    v.push(mk("NUL in header value", "CONNECT example.org:443 HTTP/1.1\r\nX: a\0b\r\n\r\n".to_string(), Some(false), "CONNECT"));
    v.push(mk("space in header name", "CONNECT example.org:443 HTTP/1.1\r\nX Y: a\r\n\r\n".to_string(), Some(false), "CONNECT"));
    v.push(mk("garbage", "\x16\x03\x01\x02\x00\x01\x00\x01\x7c\x03\x03 not http at all\r\n\r\n".to_string(), Some(false), ""));
    v.push(mk("900-byte head", format!("CONNECT example.org:443 HTTP/1.1\r\nX-Pad: {}\r\n\r\n", "p".repeat(840)), Some(true), "CONNECT"));
    v.push(mk("1400-byte head", format!("CONNECT example.org:443 HTTP/1.1\r\nX-Pad: {}\r\n\r\n", "p".repeat(1340)), Some(false), "CONNECT"));
    v.push(mk("endless head", format!("CONNECT example.org:443 HTTP/1.1\r\nX-Pad: {}", "p".repeat(20000)), Some(false), "CONNECT"));
    v
}

#[derive(Clone, Debug, PartialEq, Eq)]
pub enum Seen {
    Request { method: String, uri: String, version: String, headers: Vec<(String, String)> },
    Closed,
    Rejected,
    Spin(String),
    Panic(String),
    Hung,
}

pub struct CaseOut {
    pub seen: Seen,
    pub pulled: u64,
}

pub async fn codec_case(ctx: &Arc<Ctx>, head: &Head, cuts: &[usize], gap: Duration, close_after: bool) -> CaseOut {
    let (mut client, server_io) = tokio::io::duplex(64 * 1024);
    let probe = Probe::new(server_io);
    let pulled = probe.pulled.clone();
    let ctx2 = ctx.clone();
    let peer: SocketAddr = CLIENT_PEER.parse().unwrap();
    let server = tokio::spawn(async move {
        spin::arm(true);
        let mut codec = match make_codec(&ctx2, Proto::H1, probe, peer, 1) {
            Ok(c) => c,
            Err(_) => return Seen::Rejected,
        };
        let r = codec.listen().await;
        spin::arm(false);
        match r {
            Ok(Some(s)) => {
                let p = s.request();
                let mut headers: Vec<(String, String)> = p
                    .headers
                    .iter()
                    .map(|(n, v)| (n.as_str().to_string(), String::from_utf8_lossy(v.as_bytes()).to_string()))
                    .collect();
                headers.sort();
                Seen::Request { method: p.method.to_string(), uri: p.uri.to_string(), version: format!("{:?}", p.version), headers }
            }
            Ok(None) => Seen::Closed,
            Err(_) => Seen::Rejected,
        }
    });
    let data = head.bytes.clone();
    let cuts = cuts.to_vec();
    let writer = tokio::spawn(async move {
        let _ = write_segments(&mut client, &data, &cuts, gap).await;
        if close_after {
            let _ = client.shutdown().await;
            // keep the read half alive until the server is done
        }
        tokio::time::sleep(Duration::from_secs(3600)).await;
        drop(client);
    });
    // everything is virtual time: the watchdog only fires if the server is waiting for input that never comes
    let seen = match tokio::time::timeout(Duration::from_secs(1800), server).await {
        Ok(Ok(s)) => s,
        Ok(Err(e)) => {
            let msg = if e.is_panic() {
                let p = e.into_panic();
                p.downcast_ref::<String>().cloned().or_else(|| p.downcast_ref::<&str>().map(|s| s.to_string())).unwrap_or_default()
            } else {
                "cancelled".into()
            };
            if msg.contains("busy loop") { Seen::Spin(msg) } else { Seen::Panic(msg) }
        }
        Err(_) => Seen::Hung,
    };
    writer.abort();
    CaseOut { seen, pulled: pulled.load(Ordering::Relaxed) }
}

fn seen_class(s: &Seen) -> &'static str {
    match s {
        Seen::Request { .. } => "request",
        Seen::Closed => "closed",
        Seen::Rejected => "rejected",
        Seen::Spin(_) => "spin",
        Seen::Panic(_) => "panic",
        Seen::Hung => "hung",
    }
}

fn judge_codec(head: &Head, cuts: &[usize], gap_ms: u64, baseline: &Seen, out: &CaseOut, local: &mut Local, bad: &mut BTreeMap<String, Value>) {
    let witness = |what: &str| json!({"kind":"h1-codec","head":head.kind,"head_hex":if head.bytes.len() < 300 { common::hex(&head.bytes) } else { format!("{} bytes", head.bytes.len()) },
        "cuts":cuts,"gap_ms":gap_ms,"seen":format!("{:?}", out.seen),"baseline":format!("{:?}", baseline),"pulled":out.pulled,"what":what});
    match &out.seen {
        Seen::Spin(m) => {
            bad.entry("HTTP/1.1 listen loop spins while the rest of a request head is outstanding".into()).or_insert_with(|| witness(m));
            return;
        }
        Seen::Panic(m) => {
            bad.entry(format!("HTTP/1.1 codec panicked: {}", common::panic_file(&format!("x @ {}", m)))).or_insert_with(|| witness(m));
            return;
        }
        Seen::Hung => {
            if head.valid == Some(true) {
                bad.entry("complete request head delivered but listen() never returned".into()).or_insert_with(|| witness(""));
            } else if head.kind == "endless head" {
                bad.entry("unterminated head neither completed nor rejected".into()).or_insert_with(|| witness(""));
            } else {
                local.tally("codec: invalid head left pending (not judged)", 1);
            }
            return;
        }
        _ => {}
    }
    match head.valid {
        Some(true) => {
            if !matches!(out.seen, Seen::Request { .. }) {
                bad.entry(format!("valid request head not recognised ({})", seen_class(&out.seen))).or_insert_with(|| witness(""));
                return;
            }
        }
        Some(false) => {
            if matches!(out.seen, Seen::Request { .. }) {
                bad.entry(format!("invalid/over-limit head accepted: {}", head.kind)).or_insert_with(|| witness(""));
                return;
            }
            if out.pulled > 4096 {
                bad.entry("over-long head: more than 4 KiB pulled from the transport before rejection".into()).or_insert_with(|| witness(""));
            }
        }
        None => {}
    }
    // segmentation invariance (metamorphic): same observable outcome as the unsegmented delivery
    if &out.seen != baseline && head.valid.is_some() {
        bad.entry("request reported by listen() depends on how the head was segmented".into()).or_insert_with(|| witness(""));
    } else if &out.seen != baseline {
        local.tally("codec: EITHER head differs across segmentations (not judged)", 1);
    }
    if let Seen::Request { method, .. } = &out.seen {
        if method != head.method {
            bad.entry("method differs from the one the client sent".into()).or_insert_with(|| witness(""));
        }
    }
}

fn codec_part(rep: &Arc<Reporter>, args: &Args) {
    let thorough = args.thorough();
    let seed = args.seed;
    let n = common::workers();
    let dir = env::work_dir(&args.root, "c08");
    // one context per worker (cheap); certificates are generated once
    let _ = env::make_ctx(&dir, env::CtxOpts::default());
    let root = args.root.clone();
    let results = common::parallel(n, move |shard, nshards| {
        let dir = env::work_dir(&root, "c08");
        let ctx = Arc::new(env::make_ctx(&dir, env::CtxOpts::default()));
        let rt = env::rt_paused();
        let mut local = Local::default();
        let mut bad: BTreeMap<String, Value> = BTreeMap::new();
        let mut rng = Rng::derive(seed, 0xc08, shard as u64);
        let hs = heads();
        let mut job = 0usize;
        let mut samples: Vec<Value> = vec![];
        for head in &hs {
            let len = head.bytes.len();
            let baseline = rt.block_on(codec_case(&ctx, head, &[], Duration::ZERO, false));
            if shard == 0 {
                local.evals += 1;
                local.distinct.push(common::fnv(&head.bytes));
                judge_codec(head, &[], 0, &baseline.seen, &baseline, &mut local, &mut bad);
                local.tally(&format!("codec baseline {} -> {}", head.kind, seen_class(&baseline.seen)), 1);
            }
            if matches!(baseline.seen, Seen::Spin(_) | Seen::Panic(_)) {
                continue;
            }
            let mut segs: Vec<(Vec<usize>, u64)> = vec![];
            if len <= 400 {
                for a in 1..len {
                    segs.push((vec![a], 0));
                    if a % 3 == 0 { segs.push((vec![a], 1)); }
                    if a % 7 == 0 { segs.push((vec![a], 10_000)); }
                }
                let limit2 = if thorough { 400 } else { 120 };
                if len <= limit2 {
                    for a in 1..len { for b in a + 1..len { segs.push((vec![a, b], 0)); } }
                } else {
                    for _ in 0..(if thorough { 3000 } else { 300 }) {
                        let mut c = [rng.range(1, len as u64 - 1) as usize, rng.range(1, len as u64 - 1) as usize];
                        c.sort();
                        if c[0] < c[1] { segs.push((c.to_vec(), *rng.pick(&[0u64, 1, 10_000]))); }
                    }
                }
                for _ in 0..(if thorough { 2000 } else { 150 }) {
                    let mut c = [rng.range(1, len as u64 - 1) as usize, rng.range(1, len as u64 - 1) as usize, rng.range(1, len as u64 - 1) as usize];
                    c.sort();
                    if c[0] < c[1] && c[1] < c[2] { segs.push((c.to_vec(), *rng.pick(&[0u64, 1, 10_000]))); }
                }
                segs.push(((1..len).collect(), 0));
                segs.push(((1..len).collect(), 1));
            } else {
                for _ in 0..(if thorough { 400 } else { 60 }) {
                    let k = rng.range(1, 6) as usize;
                    let mut c: Vec<usize> = (0..k).map(|_| rng.range(1, len as u64 - 1) as usize).collect();
                    c.sort();
                    c.dedup();
                    segs.push((c, *rng.pick(&[0u64, 1])));
                }
                segs.push(((1..len).step_by(97).collect(), 0));
            }
            for (cuts, gap_ms) in segs {
                job += 1;
                if job % nshards != shard { continue; }
                let out = rt.block_on(codec_case(&ctx, head, &cuts, Duration::from_millis(gap_ms), false));
                local.evals += 1;
                local.distinct.push(common::fnv(format!("{}|{:?}|{}", head.kind, cuts, gap_ms).as_bytes()));
                local.tally(&format!("codec segmentation cuts={}", cuts.len().min(4)), 1);
                if samples.len() < 2 && cuts.len() == 2 && job % 1000 < 16 {
                    samples.push(json!({"head": head.kind, "cuts": cuts, "gap_ms": gap_ms, "listen_returned": format!("{:?}", out.seen).chars().take(200).collect::<String>(), "bytes_pulled": out.pulled}));
                }
                judge_codec(head, &cuts, gap_ms, &baseline.seen, &out, &mut local, &mut bad);
            }
            // truncated head followed by EOF: must end, not spin
            for cut in [1usize, len / 2, len.saturating_sub(1)] {
                if cut == 0 || cut >= len { continue; }
                job += 1;
                if job % nshards != shard { continue; }
                let trunc = Head { kind: head.kind, bytes: head.bytes[..cut].to_vec(), valid: None, method: head.method };
                let out = rt.block_on(codec_case(&ctx, &trunc, &[], Duration::ZERO, true));
                local.evals += 1;
                local.tally("codec truncated head + EOF", 1);
                match &out.seen {
                    Seen::Spin(m) => { bad.entry("HTTP/1.1 listen loop spins after EOF in the middle of a request head".into()).or_insert(json!({"kind":"h1-codec","head":head.kind,"truncated_at":cut,"what":m})); }
                    Seen::Hung => { bad.entry("EOF in the middle of a request head: listen() never returned".into()).or_insert(json!({"kind":"h1-codec","head":head.kind,"truncated_at":cut})); }
                    Seen::Panic(m) => { bad.entry("HTTP/1.1 codec panicked on truncated head".into()).or_insert(json!({"kind":"h1-codec","head":head.kind,"truncated_at":cut,"what":m})); }
                    _ => {}
                }
            }
        }
        (local, bad, samples)
    });
    for (local, bad, samples) in results {
        for (s, d) in bad { rep.violation(&s, d); }
        for s in samples { rep.sample(s); }
        local.merge_into(rep);
    }
}

// ---------------- (b) tunnel level ----------------

async fn tunnel_case(ctx: &Arc<Ctx>, payload_up: &[u8], cuts: &[usize], gap: Duration, client_closes_first: bool) -> Result<(Vec<u8>, bool, Vec<u8>), String> {
    let fwd = RecFwd::new(|_| Outcome::Echo);
    let sess = open_session(ctx, Proto::H1, How::Tunnel(Fwd::Scripted(fwd.clone()), Policy::Default), "main.test", true, 5);
    let head = b"CONNECT echo.test:7 HTTP/1.1\r\nHost: echo.test:7\r\n\r\n".to_vec();
    let mut all = head.clone();
    all.extend_from_slice(payload_up);
    let (mut rd, mut wr) = tokio::io::split(sess.client);
    let cuts = cuts.to_vec();
    let w = tokio::spawn(async move {
        let _ = write_segments(&mut wr, &all, &cuts, gap).await;
        if client_closes_first {
            tokio::time::sleep(Duration::from_millis(50)).await;
            let _ = wr.shutdown().await;
        }
        tokio::time::sleep(Duration::from_secs(600)).await;
        drop(wr);
    });
    let (got, closed) = read_until_quiet(&mut rd, Duration::from_secs(300), 1 << 22).await;
    w.abort();
    let server = match tokio::time::timeout(Duration::from_secs(5), sess.server).await {
        Ok(Ok(_)) => String::new(),
        Ok(Err(e)) if e.is_panic() => {
            let p = e.into_panic();
            p.downcast_ref::<String>().cloned().unwrap_or_else(|| "panic".into())
        }
        _ => String::new(),
    };
    if !server.is_empty() {
        return Err(server);
    }
    let peer_got = fwd.received.lock().unwrap().first().map(|b| b.lock().unwrap().clone()).unwrap_or_default();
    Ok((got, closed, peer_got))
}

fn tunnel_part(rep: &Arc<Reporter>, args: &Args) {
    let dir = env::work_dir(&args.root, "c08");
    let ctx = Arc::new(env::make_ctx(&dir, env::CtxOpts::default()));
    let rt = env::rt_paused();
    let mut rng = Rng::derive(args.seed, 0xc08b, 0);
    let rounds = args.qt(3000u64, 250_000u64);
    // deterministic part: the interesting boundaries of (head | payload) x gap x closing side
    let mut cases: Vec<(usize, Vec<usize>, u64, bool)> = vec![];
    for plen in [1usize, 5, 100, 1000] {
        for cuts in [vec![], vec![52], vec![50], vec![51], vec![53], vec![52 + plen - 1], vec![48, 52], vec![51, 53]] {
            for gap in [0u64, 1, 10_000] {
                for client_first in [true, false] {
                    let mut c = cuts.clone();
                    c.retain(|x| *x >= 1 && *x < 52 + plen);
                    c.dedup();
                    cases.push((plen, c, gap, client_first));
                }
            }
        }
    }
    for _ in 0..rounds {
        let plen = *rng.pick(&[0usize, 1, 5, 100, 1000, 40_000, 200_000]);
        let total = 52 + plen;
        let k = rng.below(4) as usize;
        let mut cuts: Vec<usize> = (0..k).map(|_| rng.range(1, (total - 1) as u64) as usize).collect();
        if rng.chance(1, 3) { cuts.push(rng.range(1, 51) as usize); } // a cut inside the head
        if rng.chance(1, 6) { cuts.push(52); } // exactly between head and payload
        cuts.retain(|x| *x >= 1 && *x < total);
        cuts.sort();
        cuts.dedup();
        cases.push((plen, cuts, *rng.pick(&[0u64, 1, 10_000]), rng.chance(1, 2)));
    }
    for (i, (plen, cuts, gap_ms, client_first)) in cases.into_iter().enumerate() {
        let i = i as u64;
        let payload = crate::common::prng::coded_stream(args.seed ^ i, 0, 0, plen);
        let gap = Duration::from_millis(gap_ms);
        let r = rt.block_on(tunnel_case(&ctx, &payload, &cuts, gap, client_first));
        rep.evals(1);
        rep.distinct(common::fnv(format!("{}|{:?}|{:?}", plen, cuts, gap).as_bytes()));
        let witness = |what: String| json!({"kind":"h1-tunnel","payload_len":plen,"cuts":cuts,"gap_ms":gap.as_millis() as u64,"client_closes_first":client_first,"seed_index":i,"what":what});
        match r {
            Err(p) => {
                if p.contains("busy loop") {
                    rep.violation("HTTP/1.1 listen loop spins while the rest of a request head is outstanding", witness(p));
                } else {
                    rep.violation("tunnel task panicked on an HTTP/1.1 session", witness(p));
                }
            }
            Ok((got, _closed, peer_got)) => {
                match parse_h1_head(&got) {
                    Ok(Some(h)) => {
                        if h.status != 200 {
                            rep.violation("CONNECT to a reachable peer not answered 200 over HTTP/1.1", witness(format!("status {}", h.status)));
                            continue;
                        }
                        let body = &got[h.head_len..];
                        if peer_got != payload {
                            let off = peer_got.iter().zip(payload.iter()).position(|(a, b)| a != b).unwrap_or(peer_got.len().min(payload.len()));
                            rep.violation("upload payload at the peer differs from the bytes following the head", witness(format!("peer got {} of {} bytes, first difference at {}", peer_got.len(), payload.len(), off)));
                        } else if body != &payload[..] {
                            rep.violation("download bytes at the client differ from what the peer sent", witness(format!("client got {} of {} bytes", body.len(), payload.len())));
                        } else {
                            rep.tally("tunnel: 200 + byte-exact echo", 1);
                            if i % 50 == 0 { rep.sample(witness("200 + byte-exact echo both ways".into())); }
                        }
                        if parse_h1_head(body).map(|x| x.is_some()).unwrap_or(false) && plen == 0 {
                            rep.violation("more than one response head on one HTTP/1.1 request", witness(String::new()));
                        }
                    }
                    Ok(None) => rep.violation("no complete HTTP/1.1 response head for a CONNECT request", witness(format!("{} bytes received", got.len()))),
                    Err(e) => rep.violation("malformed HTTP/1.1 response head", witness(e)),
                }
            }
        }
    }
}

pub fn run(args: &Args) -> i32 {
    let rep = Arc::new(Reporter::new(
        args,
        "exploration",
        "(a) codec: 26 request heads (valid, near-miss invalid, over-limit) x segmentations (every 1-cut, every 2-cut for heads <= 120/400 \
         bytes, seeded 2/3-cuts, byte-at-a-time, gaps 0 / 1 ms / 10 s virtual) + truncated head followed by EOF; \
         (b) tunnel: CONNECT + position-coded payload (0..200 KB) in seeded segments through the real Tunnel to an echoing peer, either side \
         closing first. distinct_nontrivial = distinct (head, cuts, gap) / (payload length, cuts, gap) tuples.",
    ));
    rep.assume("spin verdict: more than 10000 listen-loop iterations (hook H4) without the transport being polled (probe) — logical, not timed");
    rep.assume("virtual time (paused clock); heads with exactly 32 headers, LF-only line ends and Expect are EITHER");
    codec_part(&rep, args);
    tunnel_part(&rep, args);
    rep.finish()
}
