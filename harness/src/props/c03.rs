//! C03 — private-network egress policy, exact for every destination spelling.
//!
//! L0: the real classifier against a prefix table written from the IANA special-purpose
//! registries (MUST-REFUSE / MUST-ALLOW / EITHER), swept over IPv4, IPv4-mapped and the
//! leading 32 bits of IPv6. L1: the real `TcpForwarder::connect` against loopback canaries,
//! with literal and host-name spellings, plus a scripted resolver (hook H3).

use crate::common::report::Local;
use crate::common::{self, Args, Reporter, Rng};
use crate::env;
use serde_json::json;
use std::net::{IpAddr, Ipv4Addr, Ipv6Addr, SocketAddr};
use trusttunnel::verif::ctx::{tcp_connect, ConnErr, Dest};
use trusttunnel::verif::{net as vnet, pure};

#[derive(Clone, Copy, PartialEq, Eq, Debug)]
pub enum Class {
    MustRefuse(&'static str),
    MustAllow,
    Either(&'static str),
}

pub fn class_v4(a: u32) -> Class {
    let o = a.to_be_bytes();
    let in_block = |base: [u8; 4], len: u32| -> bool {
        let b = u32::from_be_bytes(base);
        let mask = if len == 0 { 0 } else { u32::MAX << (32 - len) };
        (a & mask) == (b & mask)
    };
    if in_block([0, 0, 0, 0], 8) {
        return Class::MustRefuse("0.0.0.0/8");
    }
    if in_block([10, 0, 0, 0], 8) {
        return Class::MustRefuse("10.0.0.0/8");
    }
    if in_block([100, 64, 0, 0], 10) {
        return Class::MustRefuse("100.64.0.0/10");
    }
    if in_block([127, 0, 0, 0], 8) {
        return Class::MustRefuse("127.0.0.0/8");
    }
    if in_block([169, 254, 0, 0], 16) {
        return Class::MustRefuse("169.254.0.0/16");
    }
    if in_block([172, 16, 0, 0], 12) {
        return Class::MustRefuse("172.16.0.0/12");
    }
    if in_block([192, 0, 0, 0], 24) {
        if o[3] == 9 || o[3] == 10 {
            return Class::Either("192.0.0.9-10 anycast");
        }
        return Class::MustRefuse("192.0.0.0/24");
    }
    if in_block([192, 0, 2, 0], 24) {
        return Class::MustRefuse("192.0.2.0/24");
    }
    if in_block([192, 88, 99, 0], 24) {
        return Class::Either("192.88.99.0/24 deprecated 6to4 relay");
    }
    if in_block([192, 168, 0, 0], 16) {
        return Class::MustRefuse("192.168.0.0/16");
    }
    if in_block([198, 18, 0, 0], 15) {
        return Class::MustRefuse("198.18.0.0/15");
    }
    if in_block([198, 51, 100, 0], 24) {
        return Class::MustRefuse("198.51.100.0/24");
    }
    if in_block([203, 0, 113, 0], 24) {
        return Class::MustRefuse("203.0.113.0/24");
    }
    if in_block([224, 0, 0, 0], 4) {
        return Class::Either("224.0.0.0/4 multicast");
    }
    if in_block([240, 0, 0, 0], 4) {
        return Class::MustRefuse("240.0.0.0/4");
    }
    Class::MustAllow
}

pub fn class_v6(a: u128) -> Class {
    let seg0 = (a >> 112) as u16;
    let seg1 = ((a >> 96) & 0xffff) as u16;
    if a == 0 {
        return Class::MustRefuse("::");
    }
    if a == 1 {
        return Class::MustRefuse("::1");
    }
    if (a >> 32) == 0xffff {
        return match class_v4(a as u32) {
            Class::MustRefuse(_) => Class::MustRefuse("::ffff:<refused v4>"),
            Class::MustAllow => Class::MustAllow,
            Class::Either(_) => Class::Either("::ffff:<either v4>"),
        };
    }
    if seg0 & 0xfe00 == 0xfc00 {
        return Class::MustRefuse("fc00::/7");
    }
    if seg0 & 0xffc0 == 0xfe80 {
        return Class::MustRefuse("fe80::/10");
    }
    if seg0 == 0x2001 && seg1 == 0x0db8 {
        return Class::MustRefuse("2001:db8::/32");
    }
    if seg0 & 0xe000 == 0x2000 {
        if seg0 == 0x2001 && seg1 < 0x0200 {
            return Class::Either("2001::/23 IETF protocol assignments");
        }
        if seg0 == 0x2002 {
            return Class::Either("2002::/16 6to4");
        }
        if seg0 == 0x3fff && seg1 < 0x1000 {
            return Class::Either("3fff::/20 documentation (RFC 9637)");
        }
        return Class::MustAllow;
    }
    Class::Either("outside 2000::/3")
}

pub fn class_ip(ip: &IpAddr) -> Class {
    match ip {
        IpAddr::V4(x) => class_v4(u32::from(*x)),
        IpAddr::V6(x) => class_v6(u128::from(*x)),
    }
}

struct Sweep {
    local: Local,
    /// signature -> first witness
    bad: std::collections::BTreeMap<String, String>,
}

impl Sweep {
    fn new() -> Self {
        Self {
            local: Local::default(),
            bad: Default::default(),
        }
    }

    #[inline]
    fn check(&mut self, ip: IpAddr, family: &str) {
        let got = pure::is_global_ip(&ip);
        self.local.evals += 1;
        match class_ip(&ip) {
            Class::MustRefuse(block) => {
                self.local.distinct_by_construction += 1;
                if got {
                    self.bad
                        .entry(format!("classifier {} {} classified-global", family, block))
                        .or_insert_with(|| ip.to_string());
                }
            }
            Class::MustAllow => {
                if !got {
                    self.bad
                        .entry(format!("classifier {} global-unicast refused", family))
                        .or_insert_with(|| ip.to_string());
                }
            }
            Class::Either(_) => {
                if got {
                    self.local.tallies.entry("either_allowed".into()).and_modify(|x| *x += 1).or_insert(1);
                } else {
                    self.local.tallies.entry("either_refused".into()).and_modify(|x| *x += 1).or_insert(1);
                }
            }
        }
    }
}

fn v6_from(lead: u32, mid: u32, iid: u64) -> IpAddr {
    IpAddr::V6(Ipv6Addr::from(
        ((lead as u128) << 96) | ((mid as u128) << 64) | iid as u128,
    ))
}

fn sweep_l0(rep: &Reporter, args: &Args) {
    let thorough = args.thorough();
    let seed = args.seed;
    let n = common::workers();
    let results = common::parallel(n, move |shard, nshards| {
        let mut s = Sweep::new();
        let mut rng = Rng::derive(seed, 0xc03, shard as u64);
        let seeded_iid = Rng::derive(seed, 0xc03, 999).next();
        let iids = [0u64, 1, u64::MAX, seeded_iid];
        if thorough {
            // exhaustive: every IPv4, every IPv4-mapped, every leading 32 bits x 4 IIDs
            let per = (1u64 << 32) / nshards as u64;
            let lo = per * shard as u64;
            let hi = if shard + 1 == nshards { 1u64 << 32 } else { lo + per };
            for a in lo..hi {
                let a = a as u32;
                s.check(IpAddr::V4(Ipv4Addr::from(a)), "v4");
                s.check(
                    IpAddr::V6(Ipv6Addr::from(0xffff_0000_0000u128 | a as u128)),
                    "v4mapped",
                );
                for iid in iids {
                    s.check(v6_from(a, 0, iid), "v6");
                }
            }
        } else {
            // every /24 x {first, seeded host}
            for hi24 in (shard as u32..(1 << 24)).step_by(nshards) {
                for low in [0u32, rng.below(256) as u32] {
                    let a = (hi24 << 8) | low;
                    s.check(IpAddr::V4(Ipv4Addr::from(a)), "v4");
                    s.check(IpAddr::V6(Ipv6Addr::from(0xffff_0000_0000u128 | a as u128)), "v4mapped");
                }
            }
            // every /16 x {first, last, seeded host}, every block boundary +-1
            for hi16 in (shard as u32..65536).step_by(nshards) {
                for low in [0u32, 0xffff, rng.below(65536) as u32, 0x0100, 0x6300, 0x0200] {
                    let a = (hi16 << 16) | low;
                    s.check(IpAddr::V4(Ipv4Addr::from(a)), "v4");
                    s.check(
                        IpAddr::V6(Ipv6Addr::from(0xffff_0000_0000u128 | a as u128)),
                        "v4mapped",
                    );
                }
                // every first hextet x representative second hextets x 4 IIDs
                for seg1 in [0u32, 1, 0x1ff, 0x200, 0xdb7, 0xdb8, 0xdb9, 0xfff, 0x1000, 0xffff, rng.below(65536) as u32] {
                    for iid in iids {
                        s.check(v6_from((hi16 << 16) | seg1, rng.next() as u32, iid), "v6");
                    }
                }
            }
            if shard == 0 {
                let bounds: [u32; 16] = [
                    0x0000_0000, 0x0100_0000, 0x0a00_0000, 0x0b00_0000, 0x6440_0000, 0x6480_0000,
                    0x7f00_0000, 0x8000_0000, 0xa9fe_0000, 0xa9ff_0000, 0xac10_0000, 0xac20_0000,
                    0xc000_0000, 0xc000_0100, 0xc000_0200, 0xc000_0300,
                ];
                let more: [u32; 14] = [
                    0xc058_6300, 0xc058_6400, 0xc0a8_0000, 0xc0a9_0000, 0xc612_0000, 0xc614_0000,
                    0xc633_6400, 0xc633_6500, 0xcb00_7100, 0xcb00_7200, 0xe000_0000, 0xf000_0000,
                    0xffff_ffff, 0xc000_0009,
                ];
                for b in bounds.iter().chain(more.iter()) {
                    for d in [-2i64, -1, 0, 1, 2] {
                        let a = (*b as i64 + d).rem_euclid(1 << 32) as u32;
                        s.check(IpAddr::V4(Ipv4Addr::from(a)), "v4");
                        s.check(
                            IpAddr::V6(Ipv6Addr::from(0xffff_0000_0000u128 | a as u128)),
                            "v4mapped",
                        );
                    }
                }
            }
        }
        s
    });
    for s in results {
        for (sig, w) in s.bad {
            rep.violation(&sig, json!({"kind": "classify", "address": w}));
        }
        s.local.merge_into(rep);
    }
    rep.exhaustive(thorough);
}

fn describe(r: &Result<(), ConnErr>) -> String {
    match r {
        Ok(()) => "connected".into(),
        Err(ConnErr::Io { os, kind, .. }) => format!("io({:?},{:?})", kind, os),
        Err(e) => format!("{:?}", e),
    }
}

async fn connect_case(
    ctx: &trusttunnel::verif::ctx::Ctx,
    dest: Dest,
) -> (Result<(), ConnErr>, Vec<SocketAddr>) {
    vnet::take_connects();
    let r = tcp_connect(ctx, dest).await.map(|_| ());
    (r, vnet::take_connects())
}

fn l1_connect(rep: &Reporter, args: &Args) {
    let dir = env::work_dir(&args.root, "c03");
    let rt = env::rt_current();
    rt.block_on(async {
        // canaries
        let c4 = tokio::net::TcpListener::bind("127.0.0.1:0").await.unwrap();
        let p4 = c4.local_addr().unwrap().port();
        let c6 = tokio::net::TcpListener::bind(("::1", p4)).await.ok();
        let accepted = std::sync::Arc::new(std::sync::atomic::AtomicU64::new(0));
        for l in [Some(c4), c6].into_iter().flatten() {
            let accepted = accepted.clone();
            tokio::spawn(async move {
                loop {
                    if l.accept().await.is_ok() {
                        accepted.fetch_add(1, std::sync::atomic::Ordering::SeqCst);
                    }
                }
            });
        }
        let literal = |s: &str| -> Dest {
            // same decision as PendingTcpConnectRequest::destination(): literal socket address
            // if the authority parses as one, host name otherwise
            let authority = format!("{}:{}", s, p4);
            match authority.parse::<SocketAddr>() {
                Ok(a) => Dest::Address(a),
                Err(_) => Dest::HostName(s.trim_matches(|c| c == '[' || c == ']').to_string(), p4),
            }
        };
        // (spelling, reaches loopback canary?, loopback-class?)
        let private_spellings: Vec<(&str, bool)> = vec![
            ("127.0.0.1", true),
            ("127.0.0.2", true),
            ("127.255.255.254", true),
            ("[::1]", true),
            ("[::ffff:127.0.0.1]", true),
            ("[::ffff:7f00:1]", true),
            ("[0:0:0:0:0:ffff:127.0.0.1]", true),
            ("0.0.0.0", true),
            ("[::]", true),
            ("[::ffff:0.0.0.0]", true),
            ("localhost", true),
            ("localhost.", true),
            ("127.1", true),
            ("0x7f.1", true),
            ("2130706433", true),
            ("0177.0.0.1", true),
            ("0x7f000001", true),
            ("ip6-localhost", true),
            ("10.0.0.1", false),
            ("[::ffff:10.0.0.1]", false),
            ("[::ffff:192.168.1.1]", false),
            ("[::ffff:169.254.169.254]", false),
            ("169.254.169.254", false),
            ("100.64.0.1", false),
            ("192.168.1.1", false),
            ("172.31.255.255", false),
            ("198.18.0.1", false),
            ("192.0.2.1", false),
            ("203.0.113.7", false),
            ("240.0.0.1", false),
            ("255.255.255.255", false),
            ("[fd0e::1]", false),
            ("[fc00::1]", false),
            ("[fdff:ffff::1]", false),
            ("[fe80::1]", false),
            ("[fe8e::1]", false),
            ("[febf::1]", false),
            ("[2001:db8::1]", false),
        ];
        for allow in [false, true] {
            for v6 in [true, false] {
                let ctx = env::make_ctx(
                    &dir,
                    env::CtxOpts {
                        allow_private: allow,
                        ipv6_available: v6,
                        ..Default::default()
                    },
                );
                vnet::set_refuse_real_connect(false);
                for (sp, reaches_canary) in &private_spellings {
                    if allow && !reaches_canary {
                        continue; // allow=true is only the canary sanity run; unroutable ULAs take 3 s each
                    }
                    // an address literal also reaches the connector as a *host name* (port-less authority of a non-CONNECT
                    // request: `GET http://127.0.0.1/`): same policy, whichever way it is handed over
                    let mut forms = vec![(literal(sp), "authority")];
                    if let Dest::Address(a) = literal(sp) { forms.push((Dest::HostName(a.ip().to_string(), p4), "address literal handed over as a host name")); }
                    for (dest, form) in forms {
                    let before = accepted.load(std::sync::atomic::Ordering::SeqCst);
                    let is_name = matches!(dest, Dest::HostName(..)) && form == "authority";
                    let via_resolver = matches!(dest, Dest::HostName(..));
                    let (r, connects) = match tokio::time::timeout(
                        std::time::Duration::from_secs(5),
                        connect_case(&ctx, dest.clone()),
                    )
                    .await
                    {
                        Ok(x) => x,
                        Err(_) => {
                            rep.inconclusive("connect watchdog");
                            continue;
                        }
                    };
                    tokio::time::sleep(std::time::Duration::from_millis(2)).await;
                    let after = accepted.load(std::sync::atomic::Ordering::SeqCst);
                    rep.evals(1);
                    rep.distinct(common::fnv(format!("{sp}|{allow}|{v6}|{form}").as_bytes()));
                    rep.tally(&format!("l1 allow={} outcome {}", allow, describe(&r).split('(').next().unwrap()), 1);
                    let case = json!({"kind":"connect","spelling":sp,"handed_over_as":form,"allow_private":allow,"ipv6_available":v6,
                        "result":describe(&r),"connects":connects.iter().map(|a|a.to_string()).collect::<Vec<_>>(),
                        "canary_accepts":after-before});
                    if rep.want_sample() && !allow {
                        rep.sample(case.clone());
                    }
                    if !allow {
                        // name that does not resolve in this sandbox: nothing to judge
                        let unresolved = is_name
                            && matches!(&r, Err(ConnErr::Io{..}))
                            && connects.is_empty();
                        if unresolved {
                            rep.tally("l1 name did not resolve (not judged)", 1);
                            continue;
                        }
                        let refused = matches!(r, Err(ConnErr::DnsLoopback) | Err(ConnErr::DnsNonroutable));
                        let bad_connect = connects.iter().any(|a| matches!(class_ip(&a.ip()), Class::MustRefuse(_)));
                        if after != before || bad_connect || r.is_ok() {
                            rep.violation(
                                &format!("connect spelling-class {} reached private destination", spelling_class(sp)),
                                case.clone(),
                            );
                        } else if !refused && !(via_resolver && !v6) {
                            // a literal private destination must be *reported* as a policy refusal
                            rep.violation(
                                &format!("connect spelling-class {} not reported as 310/311", spelling_class(sp)),
                                case.clone(),
                            );
                        }
                    }
                    }
                }
            }
        }
        // "the address it connects to is the very address that passed the check": IPv6 literals that *embed* a private IPv4
        // address in a form the policy may well classify as global (IPv4-compatible ::a.b.c.d, NAT64, 6to4). Whatever the
        // verdict, a connection attempt must go to the literal itself - never to the embedded IPv4 address (the canary
        // listens on 127.0.0.1 at this port).
        {
            let ctx = env::make_ctx(&dir, env::CtxOpts { allow_private: false, ipv6_available: true, ..Default::default() });
            vnet::set_refuse_real_connect(false);
            for lit in ["::7f00:1", "::127.0.0.1", "::a00:5", "::a9fe:a9fe", "::c0a8:101", "64:ff9b::7f00:1", "2002:7f00:1::1", "::ffff:0:7f00:1", "2606:2800:220:1::7f00:1"] {
                let ip: std::net::IpAddr = lit.parse().unwrap();
                let want = SocketAddr::new(ip, p4);
                // real connection attempts only where the embedded address is the canary's (the others are observed at the
                // connector's door and refused there: an unroutable destination costs seconds)
                vnet::set_refuse_real_connect(!(lit == "::7f00:1" || lit == "::127.0.0.1" || lit == "64:ff9b::7f00:1"));
                for (dest, form) in [(Dest::Address(want), "authority"), (Dest::HostName(lit.to_string(), p4), "address literal handed over as a host name")] {
                    let before = accepted.load(std::sync::atomic::Ordering::SeqCst);
                    let Ok((r, connects)) = tokio::time::timeout(std::time::Duration::from_secs(5), connect_case(&ctx, dest)).await else { rep.inconclusive("connect watchdog"); continue };
                    tokio::time::sleep(std::time::Duration::from_millis(2)).await;
                    let after = accepted.load(std::sync::atomic::Ordering::SeqCst);
                    rep.evals(1);
                    rep.distinct(common::fnv(format!("embedded|{lit}|{form}").as_bytes()));
                    let case = json!({"kind":"connect","spelling":format!("[{}]:{}", lit, p4),"handed_over_as":form,"allow_private":false,"ipv6_available":true,"result":describe(&r),
                        "connects":connects.iter().map(|a| a.to_string()).collect::<Vec<_>>(),"canary_accepts":after - before});
                    let elsewhere = connects.iter().any(|a| a.ip().to_canonical() != ip.to_canonical() || a.port() != p4);
                    if after != before || elsewhere { rep.violation("connection attempted to an address other than the one that was checked (IPv6 literal embedding an IPv4 address)", case); }
                    else { rep.tally(&format!("l1 embedded-IPv4 literal: {}", if connects.is_empty() { "refused, nothing attempted" } else { "attempt went to the literal itself" }), 1); }
                }
            }
        }
        // sanity: the canary is reachable when the policy allows it (so "no accept" means something)
        if accepted.load(std::sync::atomic::Ordering::SeqCst) == 0 {
            rep.inconclusive("canary never accepted even with allow_private=true");
        } else {
            rep.tally("l1 canary accepts with allow_private=true", accepted.load(std::sync::atomic::Ordering::SeqCst));
        }

        // ---- scripted resolver (hook H3) ----
        vnet::set_refuse_real_connect(true);
        let pool: Vec<(&str, SocketAddr)> = vec![
            ("lo4", "127.0.0.1:80".parse().unwrap()),
            ("priv4", "10.1.2.3:80".parse().unwrap()),
            ("glob4", "93.184.216.34:80".parse().unwrap()),
            ("lo6", "[::1]:80".parse().unwrap()),
            ("glob6", "[2606:2800:220:1::1]:80".parse().unwrap()),
            ("ula6", "[fd12::1]:80".parse().unwrap()),
            ("map_lo", "[::ffff:127.0.0.1]:80".parse().unwrap()),
        ];
        let mut case_no = 0u64;
        let mut rng = Rng::derive(args.seed, 0xc03, 7);
        let mut lists: Vec<Vec<usize>> = vec![];
        // all ordered selections of 1..=3 distinct pool entries
        for a in 0..pool.len() {
            lists.push(vec![a]);
            for b in 0..pool.len() {
                if b == a { continue; }
                lists.push(vec![a, b]);
                for c in 0..pool.len() {
                    if c == a || c == b { continue; }
                    lists.push(vec![a, b, c]);
                }
            }
        }
        if !args.thorough() {
            // quick: all singles and pairs, a seeded third of the triples
            lists.retain(|l| l.len() < 3 || rng.chance(1, 3));
        }
        for v6 in [true, false] {
            let ctx = env::make_ctx(
                &dir,
                env::CtxOpts { allow_private: false, ipv6_available: v6, ..Default::default() },
            );
            for l in &lists {
                case_no += 1;
                let name = format!("multi{}.verif.test", case_no);
                let hp = format!("{}:80", name);
                let answers: Vec<SocketAddr> = l.iter().map(|i| pool[*i].1).collect();
                vnet::script_lookup(&hp, vec![answers.clone()]);
                let (r, connects) = connect_case(&ctx, Dest::HostName(name.clone(), 80)).await;
                rep.evals(1);
                rep.distinct(common::fnv(format!("{:?}|{}", l, v6).as_bytes()));
                let usable: Vec<&SocketAddr> = answers.iter().filter(|a| v6 || a.is_ipv4()).collect();
                let any_must_allow = usable.iter().any(|a| class_ip(&a.ip()) == Class::MustAllow);
                let case = json!({"kind":"resolver","answers":l.iter().map(|i|pool[*i].0).collect::<Vec<_>>(),
                    "ipv6_available":v6,"result":describe(&r),"connects":connects.iter().map(|a|a.to_string()).collect::<Vec<_>>()});
                if case_no % 40 == 1 { rep.sample(case.clone()); }
                let order_class: String = l.iter().map(|i| pool[*i].0).collect::<Vec<_>>().join(",");
                if vnet::lookup_count(&hp) != 1 {
                    rep.violation("resolver consulted more than once for one request", case.clone());
                }
                if connects.len() > 1 {
                    rep.violation("more than one connect attempt for one request", case.clone());
                }
                for c in &connects {
                    if !answers.contains(c) {
                        rep.violation("connect target is not one of the resolver answers", case.clone());
                    }
                    if matches!(class_ip(&c.ip()), Class::MustRefuse(_)) {
                        rep.violation(&format!("resolver answers [{}] connect attempted to refused address", pool.iter().find(|p| p.1 == *c).map(|p| p.0).unwrap_or("?")), case.clone());
                    }
                    if c.is_ipv6() && !v6 {
                        rep.violation("IPv6 answer used although ipv6_available=false", case.clone());
                    }
                }
                if any_must_allow {
                    if connects.is_empty() || matches!(r, Err(ConnErr::DnsLoopback) | Err(ConnErr::DnsNonroutable)) {
                        rep.violation(&format!("resolver answers with a global address refused by policy (first={})", pool[l[0]].0), case.clone());
                    } else {
                        rep.tally("resolver: global answer connected", 1);
                        if usable.first().map(|a| class_ip(&a.ip()) != Class::MustAllow).unwrap_or(false) {
                            rep.tally("resolver: global answer found behind a private one", 1);
                        }
                    }
                } else if usable.is_empty() {
                    rep.tally("resolver: no usable answer (error kind not judged)", 1);
                    if !connects.is_empty() {
                        rep.violation("connect attempted with no usable resolver answer", case.clone());
                    }
                } else if usable.iter().all(|a| matches!(class_ip(&a.ip()), Class::MustRefuse(_))) {
                    if !connects.is_empty() {
                        rep.violation("connect attempted although every answer is private", case.clone());
                    }
                    let all_lo = usable.iter().all(|a| a.ip().is_loopback());
                    let none_lo = usable.iter().all(|a| !a.ip().is_loopback() && a.ip().to_string() != "::ffff:127.0.0.1");
                    // which of 310/311 is only pinned when the answer is a single address; for mixed
                    // lists the statement says "311 or 310" (EITHER, tallied)
                    let single = usable.len() == 1;
                    match &r {
                        Err(ConnErr::DnsLoopback) | Err(ConnErr::DnsNonroutable) if !single => rep.tally("resolver: multi-address all-private refused with 310/311", 1),
                        Err(ConnErr::DnsLoopback) if none_lo => rep.violation("non-loopback private answers reported as loopback (311)", case.clone()),
                        Err(ConnErr::DnsNonroutable) if all_lo => rep.violation("loopback answers reported as non-routable (310)", case.clone()),
                        Err(ConnErr::DnsLoopback) | Err(ConnErr::DnsNonroutable) => rep.tally("resolver: all-private refused with 310/311", 1),
                        _ => rep.violation(&format!("all-private answers [{}] not reported as 310/311", order_class), case.clone()),
                    }
                }
            }
            // DNS rebinding: first answer global, second loopback
            case_no += 1;
            let name = format!("rebind{}.verif.test", case_no);
            let hp = format!("{}:80", name);
            vnet::script_lookup(&hp, vec![vec![pool[2].1], vec![pool[0].1]]);
            let (r, connects) = connect_case(&ctx, Dest::HostName(name, 80)).await;
            rep.evals(1);
            rep.distinct(common::fnv(format!("rebind|{}", v6).as_bytes()));
            let case = json!({"kind":"rebind","result":describe(&r),"connects":connects.iter().map(|a|a.to_string()).collect::<Vec<_>>(),"lookups":vnet::lookup_count(&hp)});
            if vnet::lookup_count(&hp) != 1 || connects != vec![pool[2].1] {
                rep.violation("rebinding: connect target is not the address that passed the check", case);
            } else {
                rep.tally("rebinding script: one lookup, checked address connected", 1);
            }
        }
        vnet::set_refuse_real_connect(false);
    });
}

fn spelling_class(sp: &str) -> &'static str {
    if sp.contains("ffff:") {
        "ipv4-mapped-literal"
    } else if sp.starts_with('[') {
        "ipv6-literal"
    } else if sp.parse::<Ipv4Addr>().is_ok() {
        "ipv4-literal"
    } else {
        "host-name"
    }
}

pub fn run(args: &Args) -> i32 {
    let rep = Reporter::new(
        args,
        "exploration",
        "L0: each address is one case, distinct by construction (enumeration never repeats an address); \
         non-trivial = the reference puts it in MUST-REFUSE (special-purpose block) — MUST-ALLOW and EITHER \
         addresses are evaluated but not counted. L1: distinct (spelling, allow flag, ipv6 flag) and \
         (ordered resolver answer list, ipv6 flag) tuples through the real TcpForwarder::connect.",
    );
    rep.assume("reference = IANA IPv4/IPv6 special-purpose registries; multicast, 6to4, Teredo, NAT64, 3fff::/20, anything outside 2000::/3 are EITHER");
    rep.assume("host-name spellings are resolved by the sandbox's glibc (files only); names that do not resolve are tallied, not judged");
    rep.assume("for scripted resolver answers the real connect is short-circuited by the H3 observer with ECONNREFUSED (no network in the sandbox)");
    if let Some(p) = &args.replay {
        return replay(args, &rep, p);
    }
    sweep_l0(&rep, args);
    l1_connect(&rep, args);
    rep.finish()
}

fn replay(_args: &Args, rep: &Reporter, p: &std::path::Path) -> i32 {
    let v: serde_json::Value = serde_json::from_str(&std::fs::read_to_string(p).unwrap_or_default()).unwrap_or_default();
    let w = &v["witness"];
    match w["kind"].as_str() {
        Some("classify") => {
            let ip: IpAddr = w["address"].as_str().unwrap_or("0.0.0.0").parse().unwrap();
            let got = pure::is_global_ip(&ip);
            println!("replay classify {} -> is_global={} reference={:?}", ip, got, class_ip(&ip));
            rep.evals(1);
            let bad = match class_ip(&ip) {
                Class::MustRefuse(_) => got,
                Class::MustAllow => !got,
                Class::Either(_) => false,
            };
            if bad {
                rep.violation(v["signature"].as_str().unwrap_or("replay"), w.clone());
            }
            rep.finish()
        }
        _ => {
            println!("replay of connect/resolver cases re-runs the L1 workload");
            l1_connect(rep, &rep.args.clone());
            rep.finish()
        }
    }
}
