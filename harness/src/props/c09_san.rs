//! C09 sanitizer tier: the same sweep under the checked profile (quick + thorough), Miri on the
//! pure parsers and AddressSanitizer on the whole sweep (thorough).

use crate::common::{Args, Reporter};
use serde_json::{json, Value};
use std::process::Command;

fn run_inner(rep: &Reporter, args: &Args, label: &str, bin: &std::path::Path, envs: &[(&str, &str)]) -> Option<(i32, String, String)> {
    let mut c = Command::new(bin);
    c.arg("C09").arg("--inner").arg("--tier").arg(if args.thorough() { "thorough" } else { "quick" });
    c.env("VERIF_SEED", (args.seed as i64).to_string()).env("VERIF_ROOT", &args.root);
    for (k, v) in envs { c.env(k, v); }
    let out = match c.output() { Ok(o) => o, Err(e) => { rep.inconclusive(&format!("{}: cannot run ({})", label, e)); return None; } };
    let stdout = String::from_utf8_lossy(&out.stdout).to_string();
    let stderr = String::from_utf8_lossy(&out.stderr).to_string();
    match stdout.lines().find_map(|l| l.strip_prefix("C09-INNER ")) {
        Some(j) => {
            if let Ok(v) = serde_json::from_str::<Value>(j) {
                let n = v["evaluations"].as_u64().unwrap_or(0);
                rep.evals(n);
                rep.tally(&format!("{}: inputs", label), n);
                if let Some(m) = v["violations"].as_object() {
                    for (sig, d) in m { let mut d = d.clone(); d["profile"] = json!(label); rep.violation(sig, d); }
                }
            }
        }
        None => {
            // the process died (abort from an allocation failure, sanitizer report, ...)
            rep.violation(&format!("{}: the sweep process died without finishing", label), json!({"kind":"sweep-died","exit":out.status.code(),"stderr_tail":stderr.chars().rev().take(1500).collect::<String>().chars().rev().collect::<String>()}));
        }
    }
    Some((out.status.code().unwrap_or(-1), stdout, stderr))
}

pub fn run_other_profiles(rep: &Reporter, args: &Args) {
    let harness = args.root.join("harness");
    // ---- checked profile ----
    let b = Command::new("cargo").current_dir(&harness).args(["build", "--profile", "checked", "--offline"]).output();
    match b {
        Ok(o) if o.status.success() => { run_inner(rep, args, "checked profile", &harness.join("target").join("checked").join("tt_verif"), &[]); }
        Ok(o) => { println!("BUILD-FAILURE property=C09 checked profile\n{}", String::from_utf8_lossy(&o.stderr).chars().rev().take(1200).collect::<String>().chars().rev().collect::<String>()); std::process::exit(3); }
        Err(e) => rep.inconclusive(&format!("cannot build the checked profile: {}", e)),
    }
    if !args.thorough() {
        rep.set("sanitizers", json!({"checked_profile": "run", "miri": "thorough tier only", "asan": "thorough tier only"}));
        return;
    }
    // ---- Miri on the pure parsers: 8 seeds in parallel (the first run also builds) ----
    let miri_dir = args.root.join("miri");
    let run_miri = |seed: u64, ops: u64| -> Option<String> {
        Command::new("cargo").current_dir(&miri_dir).env("MIRIFLAGS", "-Zmiri-disable-isolation").env("CARGO_NET_OFFLINE", "true")
            .args(["+nightly", "miri", "run", "--offline", "--", &seed.to_string(), &ops.to_string()]).output().ok()
            .map(|o| format!("{}{}", String::from_utf8_lossy(&o.stdout), String::from_utf8_lossy(&o.stderr)))
    };
    let mut outputs = vec![run_miri(args.seed & 0xffff, 50)];
    let handles: Vec<_> = (0..8u64).map(|k| { let d = miri_dir.clone(); let seed = (args.seed & 0xffff) * 16 + k + 1; std::thread::spawn(move || {
        Command::new("cargo").current_dir(&d).env("MIRIFLAGS", "-Zmiri-disable-isolation").env("CARGO_NET_OFFLINE", "true")
            .args(["+nightly", "miri", "run", "--offline", "--", &seed.to_string(), "1200"]).output().ok()
            .map(|o| format!("{}{}", String::from_utf8_lossy(&o.stdout), String::from_utf8_lossy(&o.stderr)))
    }) }).collect();
    for h in handles { outputs.push(h.join().ok().flatten()); }
    let mut miri_ops = 0u64;
    let mut miri_state = String::new();
    for out in outputs {
        match out {
            None => { rep.inconclusive("cannot run miri"); }
            Some(out) => {
                if out.contains("Undefined Behavior") || out.contains("error: memory leaked") || out.contains("panicked at") {
                    rep.violation("Miri reports undefined behaviour / panic in the pure parsers", json!({"kind":"miri","output_tail":out.chars().rev().take(2500).collect::<String>().chars().rev().collect::<String>()}));
                    miri_state = "report".into();
                } else if let Some(l) = out.lines().find(|l| l.starts_with("MIRI-DONE")) {
                    miri_ops += l.split_whitespace().nth(1).and_then(|x| x.parse::<u64>().ok()).unwrap_or(0);
                } else {
                    rep.inconclusive("a miri run did not finish");
                    miri_state = format!("a run did not finish: {}", out.chars().rev().take(300).collect::<String>().chars().rev().collect::<String>());
                }
            }
        }
    }
    rep.evals(miri_ops);
    rep.tally("miri: operations interpreted without a report", miri_ops);
    if miri_state.is_empty() { miri_state = format!("clean, {} operations in 9 processes", miri_ops); }
    // ---- AddressSanitizer on the whole sweep ----
    let mut asan_state = "not run".to_string();
    let b = Command::new("cargo").current_dir(&harness).env("RUSTFLAGS", "-Zsanitizer=address -Cforce-frame-pointers=yes").env("CARGO_NET_OFFLINE", "true")
        .args(["+nightly", "build", "--release", "--offline", "--target", "x86_64-unknown-linux-gnu", "--target-dir", "target/asan"]).output();
    match b {
        Ok(o) if o.status.success() => {
            let bin = harness.join("target").join("asan").join("x86_64-unknown-linux-gnu").join("release").join("tt_verif");
            if let Some((code, _so, se)) = run_inner(rep, args, "AddressSanitizer build", &bin, &[("ASAN_OPTIONS", "halt_on_error=1:detect_leaks=0:abort_on_error=0")]) {
                if se.contains("ERROR: AddressSanitizer") {
                    rep.violation("AddressSanitizer report in the parser sweep", json!({"kind":"asan","stderr_tail":se.chars().rev().take(3000).collect::<String>().chars().rev().collect::<String>()}));
                    asan_state = "report".into();
                } else { asan_state = format!("clean (exit {})", code); }
            }
        }
        Ok(o) => { asan_state = format!("build failed: {}", String::from_utf8_lossy(&o.stderr).chars().rev().take(400).collect::<String>().chars().rev().collect::<String>()); rep.inconclusive("AddressSanitizer build failed"); }
        Err(e) => { rep.inconclusive(&format!("cannot build with AddressSanitizer: {}", e)); }
    }
    rep.set("sanitizers", json!({"checked_profile": "run", "miri": miri_state, "asan": asan_state}));
}
