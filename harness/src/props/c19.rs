//! C19 — graceful shutdown reaches every participant and completes when all finish.
//!
//! (a) a small deterministic executor enumerates every scheduling choice of participants,
//!     submitter and waiter over the real `Shutdown` (its tokio channels are runtime-agnostic);
//! (b) the real handlers (Tunnel, ping, speedtest) on in-memory HTTP/1.1 and HTTP/2 sessions on a
//!     multi-thread runtime: GOAWAY / close observed by the clients, completion returns;
//! (c) the real trusttunnel_endpoint binary with an open HTTP/2 session receives SIGINT.

use crate::common::{self, Args, Reporter, Rng};
use crate::env;
use crate::kit::*;
use serde_json::{json, Value};
use std::collections::{BTreeMap, HashSet};
use std::future::Future;
use std::pin::Pin;
use std::sync::atomic::{AtomicBool, AtomicU64, Ordering};
use std::sync::{Arc, Mutex};
use std::task::{Context, Poll, Wake, Waker};
use std::time::Duration;
use trusttunnel::shutdown::Shutdown;
use trusttunnel::verif::misc::{shutdown_guard, shutdown_notification};
use trusttunnel::verif::tunnel::{make_codec, run_ping, run_speedtest, Fwd, Policy, Proto};

// ------------------------------------------------------------------ deterministic executor

struct TaskWaker {
    id: usize,
    ready: Arc<Mutex<Vec<bool>>>,
}
impl Wake for TaskWaker {
    fn wake(self: Arc<Self>) {
        self.ready.lock().unwrap()[self.id] = true;
    }
}

struct Yield(bool);
impl Future for Yield {
    type Output = ();
    fn poll(mut self: Pin<&mut Self>, cx: &mut Context<'_>) -> Poll<()> {
        if self.0 { Poll::Ready(()) } else { self.0 = true; cx.waker().wake_by_ref(); Poll::Pending }
    }
}
fn yield_now() -> Yield { Yield(false) }

#[derive(Clone, Debug, PartialEq, Eq, Hash)]
enum E {
    Registered(usize, bool),
    Notified(usize),
    NotifyClosed(usize),
    WorkDone(usize),
    Finished(usize),
    Submitted,
    WaitStart,
    Completed,
    LateRegistrantBlocked(usize),
}

type Log = Arc<Mutex<Vec<E>>>;

async fn participant(sd: Arc<Mutex<Shutdown>>, log: Log, i: usize, start_delay: usize, work: usize, pre_wait: usize) {
    for _ in 0..start_delay { yield_now().await; }
    let (mut n, guard) = {
        let s = match sd.try_lock() { Ok(s) => s, Err(_) => { log.lock().unwrap().push(E::LateRegistrantBlocked(i)); return; } };
        (shutdown_notification(&s), shutdown_guard(&s))
    };
    log.lock().unwrap().push(E::Registered(i, guard.is_some()));
    // a registered participant may do other things before it first waits for the notification
    for _ in 0..pre_wait { yield_now().await; }
    // work == usize::MAX: a participant that only ever ends by being notified
    let w = async { if work == usize::MAX { futures::future::pending::<()>().await } else { for _ in 0..work { yield_now().await; } } };
    let notified = async { n.wait().await };
    futures::pin_mut!(w);
    futures::pin_mut!(notified);
    match futures::future::select(notified, w).await {
        futures::future::Either::Left((Ok(()), _)) => log.lock().unwrap().push(E::Notified(i)),
        futures::future::Either::Left((Err(_), _)) => log.lock().unwrap().push(E::NotifyClosed(i)),
        futures::future::Either::Right(_) => log.lock().unwrap().push(E::WorkDone(i)),
    }
    // winding down takes a step
    yield_now().await;
    log.lock().unwrap().push(E::Finished(i));
    drop(guard);
}

async fn submit_and_wait(sd: Arc<Mutex<Shutdown>>, log: Log, delay: usize, wait_delay: usize, submits: usize) {
    for _ in 0..delay { yield_now().await; }
    sd.lock().unwrap().submit();
    log.lock().unwrap().push(E::Submitted);
    // a shutdown may be submitted more than once (a second interrupt): the notification is still one notification
    for _ in 1..submits { yield_now().await; sd.lock().unwrap().submit(); }
    for _ in 0..wait_delay { yield_now().await; }
    log.lock().unwrap().push(E::WaitStart);
    #[allow(clippy::await_holding_lock)]
    {
        let mut g = sd.lock().unwrap();
        g.completion().await;
    }
    log.lock().unwrap().push(E::Completed);
}

struct Scenario {
    participants: Vec<(usize, usize, usize)>, // (start delay, work length, steps between registration and the first wait)
    submit_delay: usize,
    wait_delay: usize,
    /// how many times the shutdown is submitted (>= 1)
    submits: usize,
}

/// Run one schedule given by `tape`; returns (event log, branching factors met)
fn run_schedule(sc: &Scenario, tape: &[usize]) -> (Vec<E>, Vec<usize>, bool) {
    let sd = Shutdown::new();
    let log: Log = Default::default();
    let mut tasks: Vec<Option<Pin<Box<dyn Future<Output = ()>>>>> = vec![];
    for (i, (d, w, pw)) in sc.participants.iter().enumerate() {
        tasks.push(Some(Box::pin(participant(sd.clone(), log.clone(), i, *d, *w, *pw))));
    }
    tasks.push(Some(Box::pin(submit_and_wait(sd.clone(), log.clone(), sc.submit_delay, sc.wait_delay, sc.submits))));
    let ready = Arc::new(Mutex::new(vec![true; tasks.len()]));
    let wakers: Vec<Waker> = (0..tasks.len()).map(|id| Waker::from(Arc::new(TaskWaker { id, ready: ready.clone() }))).collect();
    let mut branching = vec![];
    let mut step = 0usize;
    let mut budget_exceeded = false;
    loop {
        let r: Vec<usize> = { let g = ready.lock().unwrap(); (0..tasks.len()).filter(|i| g[*i] && tasks[*i].is_some()).collect() };
        if r.is_empty() { break; }
        let c = tape.get(step).copied().unwrap_or(0).min(r.len() - 1);
        branching.push(r.len());
        let id = r[c];
        ready.lock().unwrap()[id] = false;
        let mut cx = Context::from_waker(&wakers[id]);
        if let Some(t) = tasks[id].as_mut() {
            if t.as_mut().poll(&mut cx).is_ready() { tasks[id] = None; }
        }
        step += 1;
        if step > 400 { budget_exceeded = true; break; }
    }
    let all_done = tasks.iter().all(|t| t.is_none());
    let _ = all_done;
    let l = log.lock().unwrap().clone();
    (l, branching, budget_exceeded)
}

fn judge_schedule(sc: &Scenario, log: &[E]) -> Vec<String> {
    let mut bad = vec![];
    let pos = |e: &E| log.iter().position(|x| x == e);
    let submitted = pos(&E::Submitted);
    let completed = pos(&E::Completed);
    let wait_start = pos(&E::WaitStart);
    for i in 0..sc.participants.len() {
        let reg = log.iter().position(|e| matches!(e, E::Registered(j, _) if *j == i));
        let has_guard = log.iter().any(|e| matches!(e, E::Registered(j, true) if *j == i));
        let fin = pos(&E::Finished(i));
        let notified = pos(&E::Notified(i)).is_some();
        let work_done = pos(&E::WorkDone(i)).is_some();
        if let (Some(r), Some(s)) = (reg, submitted) {
            if r < s {
                // registered before the submission: must observe it unless its own work ended first
                if !notified && !work_done { bad.push(format!("participant registered before submit never observed the notification ({})", if pos(&E::NotifyClosed(i)).is_some() { "channel reported closed" } else { "still waiting at the end" })); }
                if pos(&E::NotifyClosed(i)).is_some() { bad.push("participant registered before submit saw the notification channel closed".into()); }
            }
        }
        if let (Some(c), true) = (completed, has_guard) {
            match fin {
                Some(f) if f > c => bad.push("completion() returned before a registered participant had finished".into()),
                None => bad.push("completion() returned although a registered participant never finished".into()),
                _ => {}
            }
        }
    }
    // no hang: the waiter started, every participant is done, nothing is runnable -> completion must have returned
    if wait_start.is_some() && completed.is_none() {
        let all_finished = (0..sc.participants.len()).all(|i| pos(&E::Finished(i)).is_some() || log.iter().any(|e| matches!(e, E::LateRegistrantBlocked(j) if *j == i)) );
        let blocked = log.iter().any(|e| matches!(e, E::LateRegistrantBlocked(_)));
        if all_finished && !blocked { bad.push("completion() did not return although every registered participant finished".into()); }
        else if !all_finished && !blocked {
            // a participant that registered only after the submission is outside the statement: nobody owes it a notification,
            // and if it never ends by itself completion() rightly keeps waiting for its guard
            let late_unfinished = (0..sc.participants.len()).any(|i| {
                let reg = log.iter().position(|e| matches!(e, E::Registered(j, _) if *j == i));
                pos(&E::Finished(i)).is_none() && matches!((reg, submitted), (Some(r), Some(s)) if r > s)
            });
            if !late_unfinished { bad.push("deadlock: a participant never finished and completion() never returned".into()); }
        }
    }
    bad
}

fn executor_part(rep: &Arc<Reporter>, args: &Args) {
    let mut schedules = 0u64;
    let mut orders: HashSet<u64> = HashSet::new();
    let mut bad: BTreeMap<String, Value> = BTreeMap::new();
    let mut tallies: BTreeMap<&'static str, u64> = BTreeMap::new();
    let cap = args.qt(150_000u64, 12_000_000u64);
    let mut scenarios = vec![];
    for p in 1..=2usize {
        for sd in 0..=2usize { for wd in 0..=1usize { for w in [0usize, 1, 3, usize::MAX] { for st in [0usize, 1] { for pw in [0usize, 1, 2] {
            scenarios.push(Scenario { participants: (0..p).map(|i| (if i == 0 { 0 } else { st }, if w == usize::MAX { w } else { w + i }, if i == 0 { pw } else { 0 })).collect(), submit_delay: sd, wait_delay: wd, submits: 1 });
        } } } } }
    }
    // repeated submissions (a receiver that has not polled yet lags behind the channel)
    for p in 1..=2usize { for submits in [2usize, 3] { for pw in [0usize, 1, 2] { for w in [1usize, usize::MAX] { for sd in [0usize, 1] {
        scenarios.push(Scenario { participants: (0..p).map(|i| (0, w, if i == 0 { pw } else { 2 - pw })).collect(), submit_delay: sd, wait_delay: 0, submits });
    } } } } }
    // three participants, bounded depth by the global cap
    scenarios.push(Scenario { participants: vec![(0, 1, 1), (0, 2, 0), (1, 0, 2)], submit_delay: 1, wait_delay: 0, submits: 1 });
    scenarios.push(Scenario { participants: vec![(0, 0, 0), (1, 3, 1), (2, 1, 0)], submit_delay: 0, wait_delay: 1, submits: 2 });
    let per_scenario = cap / scenarios.len() as u64;
    for (si, sc) in scenarios.iter().enumerate() {
        let mut tape: Vec<usize> = vec![];
        let mut n = 0u64;
        let mut exhausted = false;
        loop {
            let (log, branching, over) = run_schedule(sc, &tape);
            schedules += 1;
            n += 1;
            orders.insert(common::hash_of(&log));
            if over { *tallies.entry("schedule step budget exceeded (inconclusive)").or_insert(0) += 1; }
            if log.iter().any(|e| matches!(e, E::LateRegistrantBlocked(_))) { *tallies.entry("schedules with a registrant arriving while completion() holds the lock (not judged)").or_insert(0) += 1; }
            if log.iter().any(|e| matches!(e, E::Notified(_))) { *tallies.entry("schedules where a participant observed the notification").or_insert(0) += 1; }
            if log.iter().any(|e| matches!(e, E::Registered(_, false))) { *tallies.entry("schedules with a participant registering after completion started (no guard)").or_insert(0) += 1; }
            for b in judge_schedule(sc, &log) {
                bad.entry(b).or_insert_with(|| json!({"kind":"shutdown-schedule","scenario":{"participants":sc.participants,"submit_delay":sc.submit_delay,"wait_delay":sc.wait_delay,"submissions":sc.submits},"choices":tape.clone(),"events":log.iter().map(|e| format!("{:?}", e)).collect::<Vec<_>>()}));
            }
            if rep.want_sample() && n == 3 { rep.sample(json!({"scenario": si, "choices": tape.clone(), "events": log.iter().map(|e| format!("{:?}", e)).collect::<Vec<_>>()})); }
            // next tape (DFS): extend with zeros implicitly; increment the last position that can
            let mut t: Vec<usize> = (0..branching.len()).map(|i| tape.get(i).copied().unwrap_or(0).min(branching[i] - 1)).collect();
            let mut k = t.len();
            loop {
                if k == 0 { exhausted = true; break; }
                k -= 1;
                if t[k] + 1 < branching[k] { t[k] += 1; t.truncate(k + 1); break; }
            }
            if exhausted || n >= per_scenario { break; }
            tape = t;
        }
        if exhausted { *tallies.entry("scenarios enumerated exhaustively").or_insert(0) += 1; } else { *tallies.entry("scenarios cut at the per-scenario schedule cap").or_insert(0) += 1; }
    }
    rep.evals(schedules);
    rep.distinct_many(orders.iter().copied());
    rep.set("distinct_event_orders", json!(orders.len()));
    rep.tally("executor: schedules explored", schedules);
    rep.tally("executor: distinct event orders", orders.len() as u64);
    for (k, v) in tallies { rep.tally(k, v); }
    for (s, d) in bad { rep.violation(&s, d); }
    // seeded random walks with more participants
    let mut r = Rng::derive(args.seed, 0xc19, 0);
    let walks = args.qt(20_000u64, 1_000_000u64);
    let mut walk_bad: BTreeMap<String, Value> = BTreeMap::new();
    for _ in 0..walks {
        let p = r.range(3, 8) as usize;
        let sc = Scenario { participants: (0..p).map(|_| (r.below(3) as usize, if r.chance(1, 4) { usize::MAX } else { r.below(5) as usize }, r.below(3) as usize)).collect(), submit_delay: r.below(6) as usize, wait_delay: r.below(3) as usize, submits: 1 + (r.below(4) as usize) / 2 };
        let tape: Vec<usize> = (0..200).map(|_| r.below(8) as usize).collect();
        let (log, _, _) = run_schedule(&sc, &tape);
        for b in judge_schedule(&sc, &log) { walk_bad.entry(b).or_insert_with(|| json!({"kind":"shutdown-walk","participants":sc.participants,"events":log.iter().map(|e| format!("{:?}", e)).collect::<Vec<_>>()})); }
    }
    rep.evals(walks);
    rep.tally("executor: random walks with 3-8 participants", walks);
    for (s, d) in walk_bad { rep.violation(&s, d); }
}

// ------------------------------------------------------------------ real handlers

/// Records every byte the server side sends (cleartext HTTP/2 over an in-memory transport): a GOAWAY frame is then
/// something the client *observed*, whatever its own writes ran into afterwards
struct RecvTap<T> { inner: T, seen: Arc<Mutex<Vec<u8>>> }
impl<T: tokio::io::AsyncRead + Unpin> tokio::io::AsyncRead for RecvTap<T> {
    fn poll_read(mut self: Pin<&mut Self>, cx: &mut Context<'_>, buf: &mut tokio::io::ReadBuf<'_>) -> std::task::Poll<std::io::Result<()>> {
        let before = buf.filled().len();
        let r = Pin::new(&mut self.inner).poll_read(cx, buf);
        if buf.filled().len() > before { self.seen.lock().unwrap().extend_from_slice(&buf.filled()[before..]); }
        r
    }
}
impl<T: tokio::io::AsyncWrite + Unpin> tokio::io::AsyncWrite for RecvTap<T> {
    fn poll_write(mut self: Pin<&mut Self>, cx: &mut Context<'_>, data: &[u8]) -> std::task::Poll<std::io::Result<usize>> { Pin::new(&mut self.inner).poll_write(cx, data) }
    fn poll_flush(mut self: Pin<&mut Self>, cx: &mut Context<'_>) -> std::task::Poll<std::io::Result<()>> { Pin::new(&mut self.inner).poll_flush(cx) }
    fn poll_shutdown(mut self: Pin<&mut Self>, cx: &mut Context<'_>) -> std::task::Poll<std::io::Result<()>> { Pin::new(&mut self.inner).poll_shutdown(cx) }
}

/// does the recorded server->client HTTP/2 byte stream contain a GOAWAY frame?
fn saw_goaway(bytes: &[u8]) -> bool {
    let mut i = 0usize;
    while i + 9 <= bytes.len() {
        let len = ((bytes[i] as usize) << 16) | ((bytes[i + 1] as usize) << 8) | bytes[i + 2] as usize;
        if bytes[i + 3] == 0x7 { return true; }
        i += 9 + len;
    }
    false
}

fn handlers_part(rep: &Arc<Reporter>, args: &Args) {
    let dir = env::work_dir(&args.root, "c19");
    let rt = env::rt_multi(8);
    let rounds = args.qt(150u64, 4000u64);
    rt.block_on(async {
        let mut r = Rng::derive(args.seed, 0xc19b, 0);
        let mut unguarded = 0u32;
        for round in 0..rounds {
            let ctx = Arc::new(env::make_ctx(&dir, env::CtxOpts { tweak: Some(Box::new(|b| b.speedtest_enable(true))), ..Default::default() }));
            let nsess = r.range(1, 6) as usize;
            let base_participants = ctx.shutdown.lock().unwrap().verif_participants();
            let finished = Arc::new(AtomicU64::new(0));
            let mut clients = vec![];
            let mut servers = vec![];
            let mut all_established: Vec<Arc<AtomicBool>> = vec![];
            let mut kinds: Vec<String> = vec![];
            for s in 0..nsess {
                let kind = r.below(4);
                let proto = if r.chance(1, 2) { Proto::H2 } else { Proto::H1 };
                kinds.push(format!("{} over {:?}", ["tunnel with an open stream", "tunnel", "ping", "speedtest"][kind as usize], proto));
                let (client, server_io) = tokio::io::duplex(64 * 1024);
                let (ctx2, fin) = (ctx.clone(), finished.clone());
                let id = round * 10 + s as u64;
                servers.push(tokio::spawn(async move {
                    let peer = CLIENT_PEER.parse().unwrap();
                    if let Ok(codec) = make_codec(&ctx2, proto, server_io, peer, id) {
                        match kind {
                            0 | 1 => { let fwd = RecFwd::new(|_| Outcome::Echo); let _ = trusttunnel::verif::tunnel::run_tunnel(&ctx2, codec, "main.test", Fwd::Scripted(fwd), Policy::Default, id).await; }
                            2 => run_ping(&ctx2, codec, Duration::from_secs(30), id).await,
                            _ => run_speedtest(&ctx2, codec, Duration::from_secs(30), id).await,
                        }
                    }
                    fin.fetch_add(1, Ordering::SeqCst);
                }));
                // client side: establish the session (h2 preface / nothing for h1) and then watch for the end
                let saw_end = Arc::new(AtomicBool::new(false));
                let graceful = Arc::new(AtomicBool::new(false));
                let established = Arc::new(AtomicBool::new(false));
                let (se, gr, est) = (saw_end.clone(), graceful.clone(), established.clone());
                all_established.push(established);
                let open_tunnel = kind == 0;
                let j = tokio::spawn(async move {
                    match proto {
                        Proto::H2 => {
                            let seen: Arc<Mutex<Vec<u8>>> = Default::default();
                            if let Ok((mut send, mut conn)) = h2::client::handshake(RecvTap { inner: client, seen: seen.clone() }).await {
                                let pp = conn.ping_pong();
                                let watcher = tokio::spawn(async move { let r = conn.await; (r.is_ok(), ()) });
                                // a PING round trip: the server side of the session is up and running
                                if let Some(mut pp) = pp { let _ = tokio::time::timeout(Duration::from_secs(5), pp.ping(h2::Ping::opaque())).await; }
                                let mut keep = None;
                                if open_tunnel {
                                    let _ = futures::future::poll_fn(|cx| send.poll_ready(cx)).await;
                                    if let Ok((fut, tx)) = send.send_request(http::Request::builder().method("CONNECT").uri("echo.test:7").body(()).unwrap(), false) { let _ = tokio::time::timeout(Duration::from_secs(2), fut).await; keep = Some(tx); }
                                }
                                est.store(true, Ordering::SeqCst);
                                // a GOAWAY makes the connection future resolve once streams are done; drop ours when told to
                                let res = watcher_with_drop(watcher, keep, send).await;
                                // told to go away = the connection ended in order, or a GOAWAY frame was received before it ended
                                // (the client's own late writes may hit the closed transport afterwards)
                                let res = res || saw_goaway(&seen.lock().unwrap());
                                gr.store(res, Ordering::SeqCst);
                                se.store(true, Ordering::SeqCst);
                            } else {
                                // the shutdown overtook the HTTP/2 preface exchange: the session ended before it began (not judged)
                                est.store(true, Ordering::SeqCst);
                                gr.store(true, Ordering::SeqCst);
                                se.store(true, Ordering::SeqCst);
                            }
                        }
                        _ => {
                            est.store(true, Ordering::SeqCst);
                            let (mut rd, wr) = tokio::io::split(client);
                            let (_got, closed) = read_until_quiet(&mut rd, Duration::from_secs(20), 1 << 16).await;
                            gr.store(closed, Ordering::SeqCst);
                            se.store(true, Ordering::SeqCst);
                            drop(wr);
                        }
                    }
                });
                clients.push((proto, saw_end, graceful, j));
            }
            for _ in 0..r.below(30) { tokio::task::yield_now().await; }
            if r.chance(1, 2) { tokio::time::sleep(Duration::from_millis(r.below(6))).await; }
            // registered participants at the time of submission = sessions whose handler already took its notification
            // handle and completion guard (top of each handler). A logical barrier, not a sleep: wait until the
            // Shutdown object itself reports nsess more handles and guards than before the sessions were spawned.
            let sd = ctx.shutdown.clone();
            let mut registered = false;
            let mut handles_only_for = 0u32;
            let mut last = (0usize, 0usize);
            for _ in 0..5000 {
                let (n, g) = sd.lock().unwrap().verif_participants();
                last = (n, g);
                if n >= base_participants.0 + nsess && g >= base_participants.1 + nsess { registered = true; break; }
                // every session's handler has subscribed to the notification, yet fewer completion guards are held
                if n >= base_participants.0 + nsess { handles_only_for += 1; if handles_only_for > 1500 { break; } } else { handles_only_for = 0; }
                tokio::time::sleep(Duration::from_millis(1)).await;
            }
            if !registered {
                if handles_only_for > 1500 {
                    unguarded += 1;
                    rep.violation("a session handler registered for the shutdown notification holds no completion guard (completion() cannot wait for it)",
                        json!({"kind":"shutdown-handlers","round":round,"sessions":nsess,"notification_handles":last.0 - base_participants.0,"completion_guards":last.1 - base_participants.1,
                               "session_kinds":kinds.clone()}));
                } else {
                    rep.inconclusive("handlers: not every session handler had registered with Shutdown within 5 s (machine too slow to tell)");
                }
                for (_, _, _, j) in clients { j.abort(); }
                for s in servers { s.abort(); }
                if unguarded >= 3 { break; }
                continue;
            }
            // second logical barrier: every client's session is established (HTTP/2: a PING came back), so that "told to go
            // away" is judged for sessions that exist, not for ones still exchanging prefaces
            let mut all_up = false;
            for _ in 0..5000 { if all_established.iter().all(|e| e.load(Ordering::SeqCst)) { all_up = true; break; } tokio::time::sleep(Duration::from_millis(1)).await; }
            if !all_up {
                rep.inconclusive("handlers: not every client session was established within 5 s");
                for (_, _, _, j) in clients { j.abort(); }
                for s in servers { s.abort(); }
                continue;
            }
            sd.lock().unwrap().submit();
            let done = tokio::time::timeout(Duration::from_secs(10), tokio::task::spawn_blocking({ let sd = sd.clone(); move || { let rt = tokio::runtime::Builder::new_current_thread().build().unwrap(); rt.block_on(async { #[allow(clippy::await_holding_lock)] { let mut g = sd.lock().unwrap(); g.completion().await; } }) } })).await;
            rep.evals(1);
            rep.distinct(common::fnv(format!("round|{}|{}", round, nsess).as_bytes()));
            let w = json!({"kind":"shutdown-handlers","round":round,"sessions":nsess,"session_kinds":kinds.clone(),"handlers_finished_at_completion":finished.load(Ordering::SeqCst)});
            match done {
                Err(_) => { rep.violation("completion() did not return within 10 s although every session was asked to shut down", w.clone()); }
                Ok(_) => {
                    // never earlier: every handler that registered must be done (its guard is dropped only when it returns)
                    tokio::time::sleep(Duration::from_millis(20)).await;
                    let fin = finished.load(Ordering::SeqCst) as usize;
                    if fin != nsess { rep.violation("completion() returned while a session handler was still running", json!({"kind":"shutdown-handlers","round":round,"sessions":nsess,"finished":fin})); }
                    else { rep.tally("handlers: completion returned after all handlers finished", 1); }
                }
            }
            for (proto, saw_end, graceful, j) in clients {
                // generous wall-clock patience (the handlers have finished: the end is on its way); if it still is not seen
                // the verdict depends on whether the machine was able to run our tasks at all
                let t0 = std::time::Instant::now();
                let _ = tokio::time::timeout(Duration::from_secs(20), async { while !saw_end.load(Ordering::SeqCst) { tokio::time::sleep(Duration::from_millis(2)).await; } }).await;
                if !saw_end.load(Ordering::SeqCst) {
                    let lag = { let t = std::time::Instant::now(); tokio::time::sleep(Duration::from_millis(20)).await; t.elapsed().as_millis() as u64 };
                    if lag > 500 { rep.inconclusive("handlers: client did not see its session end within 20 s on a machine with > 0.5 s scheduling lag"); }
                    else { let mut w2 = w.clone(); w2["waited_ms"] = json!(t0.elapsed().as_millis() as u64); rep.violation(&format!("{:?} client never saw its session end after shutdown", proto), w2); }
                }
                else if !graceful.load(Ordering::SeqCst) { rep.violation(&format!("{:?} session ended abruptly instead of gracefully (GOAWAY / flush+close)", proto), w.clone()); }
                else { rep.tally(&format!("handlers: {:?} client saw a graceful end", proto), 1); }
                j.abort();
            }
            for s in servers { s.abort(); }
        }
    });
}

/// An in-memory transport whose server->client direction is delayed: models the round trip during which a client
/// that has not yet seen the GOAWAY keeps opening streams.
fn delayed_pair(delay: Duration) -> (tokio::io::DuplexStream, tokio::io::DuplexStream) {
    use tokio::io::{AsyncReadExt, AsyncWriteExt};
    let (client, relay_c) = tokio::io::duplex(256 * 1024);
    let (relay_s, server) = tokio::io::duplex(256 * 1024);
    let (mut c_rd, mut c_wr) = tokio::io::split(relay_c);
    let (mut s_rd, mut s_wr) = tokio::io::split(relay_s);
    tokio::spawn(async move { let _ = tokio::io::copy(&mut c_rd, &mut s_wr).await; let _ = s_wr.shutdown().await; });
    let (tx, mut rx) = tokio::sync::mpsc::unbounded_channel::<(tokio::time::Instant, Vec<u8>)>();
    tokio::spawn(async move {
        let mut b = vec![0u8; 64 * 1024];
        loop { match s_rd.read(&mut b).await { Ok(0) | Err(_) => break, Ok(n) => { if tx.send((tokio::time::Instant::now() + delay, b[..n].to_vec())).is_err() { break; } } } }
    });
    tokio::spawn(async move {
        while let Some((at, data)) = rx.recv().await { tokio::time::sleep_until(at).await; if c_wr.write_all(&data).await.is_err() { break; } }
        let _ = c_wr.shutdown().await;
    });
    (client, server)
}

/// (b') an HTTP/2 client opens a new stream while the GOAWAY is in flight (server->client delayed by 40 ms): the
/// session must still wind down - the late stream answered or refused - and completion() must return.
fn late_stream_part(rep: &Arc<Reporter>, args: &Args) {
    let dir = env::work_dir(&args.root, "c19late");
    let rt = env::rt_multi(4);
    let rounds = args.qt(4u64, 60u64);
    rt.block_on(async {
        for round in 0..rounds {
            for kind in 0..3u64 {
                let name = ["tunnel", "ping", "speedtest"][kind as usize];
                let ctx = Arc::new(env::make_ctx(&dir, env::CtxOpts { tweak: Some(Box::new(|b| b.speedtest_enable(true))), ..Default::default() }));
                let base = ctx.shutdown.lock().unwrap().verif_participants();
                let (client, server_io) = delayed_pair(Duration::from_millis(40));
                let finished = Arc::new(AtomicBool::new(false));
                let id = 190_000 + round * 10 + kind;
                let server = { let (ctx2, fin) = (ctx.clone(), finished.clone()); tokio::spawn(async move {
                    let peer = CLIENT_PEER.parse().unwrap();
                    if let Ok(codec) = make_codec(&ctx2, Proto::H2, server_io, peer, id) {
                        match kind {
                            0 => { let fwd = RecFwd::new(|_| Outcome::Echo); let _ = trusttunnel::verif::tunnel::run_tunnel(&ctx2, codec, "main.test", Fwd::Scripted(fwd), Policy::Default, id).await; }
                            1 => run_ping(&ctx2, codec, Duration::from_secs(30), id).await,
                            _ => run_speedtest(&ctx2, codec, Duration::from_secs(30), id).await,
                        }
                    }
                    fin.store(true, Ordering::SeqCst);
                }) };
                let Ok(Ok((mut send, mut conn))) = tokio::time::timeout(Duration::from_secs(5), h2::client::handshake(client)).await else { rep.inconclusive("late stream: HTTP/2 session not established"); server.abort(); continue };
                let pp = conn.ping_pong();
                let conn_task = tokio::spawn(async move { let _ = conn.await; });
                if let Some(mut pp) = pp { let _ = tokio::time::timeout(Duration::from_secs(5), pp.ping(h2::Ping::opaque())).await; }
                // registration barrier (as in the handlers part)
                let sd = ctx.shutdown.clone();
                let mut registered = false;
                for _ in 0..5000 { let (n, g) = sd.lock().unwrap().verif_participants(); if n > base.0 && g > base.1 { registered = true; break; } tokio::time::sleep(Duration::from_millis(1)).await; }
                if !registered { rep.inconclusive("late stream: handler had not registered with Shutdown within 5 s"); server.abort(); conn_task.abort(); continue; }
                sd.lock().unwrap().submit();
                // the session answers the notification with its GOAWAY at once; the client will see it 40 ms from now
                tokio::time::sleep(Duration::from_millis(4 + (round % 4) * 6)).await;
                let req = match kind {
                    0 => http::Request::builder().method("CONNECT").uri("echo.test:7").body(()).unwrap(),
                    1 => http::Request::builder().method("GET").uri("https://ping.test/").body(()).unwrap(),
                    _ => http::Request::builder().method("GET").uri("https://speed.test/1mb.bin").body(()).unwrap(),
                };
                let sent = match tokio::time::timeout(Duration::from_secs(2), futures::future::poll_fn(|cx| send.poll_ready(cx))).await { Ok(Ok(())) => send.send_request(req, kind != 0).ok(), _ => None };
                let sent_ok = sent.is_some();
                // the late stream is answered or refused; either way the client then lets go of the session
                let late = tokio::spawn(async move {
                    let Some((fut, tx)) = sent else { return "not sent (the client had already been told to go away)".to_string() };
                    let r = tokio::time::timeout(Duration::from_secs(8), fut).await;
                    drop(tx);
                    match r { Ok(Ok(resp)) => format!("answered {}", resp.status()), Ok(Err(e)) => format!("refused ({})", e.to_string().chars().take(40).collect::<String>()), Err(_) => "neither answered nor refused within 8 s".to_string() }
                });
                let done = tokio::time::timeout(Duration::from_secs(10), tokio::task::spawn_blocking({ let sd = sd.clone(); move || { let rt = tokio::runtime::Builder::new_current_thread().build().unwrap(); rt.block_on(async { #[allow(clippy::await_holding_lock)] { let mut g = sd.lock().unwrap(); g.completion().await; } }) } })).await;
                let late_outcome = tokio::time::timeout(Duration::from_secs(9), late).await.ok().and_then(|r| r.ok()).unwrap_or_else(|| "unknown".into());
                drop(send);
                rep.evals(1);
                rep.distinct(common::fnv(format!("late|{}|{}", round, name).as_bytes()));
                let w = json!({"kind":"shutdown-late-stream","handler":name,"round":round,"server_to_client_delay_ms":40,"late_stream_sent":sent_ok,"late_stream":late_outcome,"handler_finished":finished.load(Ordering::SeqCst)});
                if rep.want_sample() { rep.sample(w.clone()); }
                match done {
                    Err(_) => rep.violation("completion() did not return within 10 s after an HTTP/2 stream arrived while the GOAWAY was in flight", w),
                    Ok(_) if !finished.load(Ordering::SeqCst) => { tokio::time::sleep(Duration::from_millis(30)).await; if !finished.load(Ordering::SeqCst) { rep.violation("completion() returned while a session handler was still running", w); } else { rep.tally("late stream: completion returned after the handler finished", 1); } }
                    Ok(_) if late_outcome.starts_with("neither") => rep.violation("an HTTP/2 stream that arrived while the GOAWAY was in flight was neither answered nor refused", w),
                    Ok(_) => { rep.tally("late stream: completion returned after the handler finished", 1); rep.tally(&format!("late stream: {}", if sent_ok { if late_outcome.starts_with("answered") { "answered" } else { "refused" } } else { "not sent" }), 1); }
                }
                server.abort();
                conn_task.abort();
            }
        }
    });
}

async fn watcher_with_drop(watcher: tokio::task::JoinHandle<(bool, ())>, keep: Option<h2::SendStream<bytes::Bytes>>, send: h2::client::SendRequest<bytes::Bytes>) -> bool {
    // keep the stream open for a short while after shutdown starts, then release everything so the connection can end
    let rel = tokio::spawn(async move { tokio::time::sleep(Duration::from_millis(30)).await; drop(keep); drop(send); });
    let r = tokio::time::timeout(Duration::from_secs(8), watcher).await;
    rel.abort();
    matches!(r, Ok(Ok((true, _))))
}

pub fn run(args: &Args) -> i32 {
    let rep = Arc::new(Reporter::new(
        args,
        "exploration",
        "(a) deterministic executor over the real Shutdown: depth-first enumeration of every scheduling choice for scenarios with 1-2 participants (start \
         delays, work lengths 0-4 or endless (only the notification ends it), 0-2 steps between registration and the first wait, submit delay 0-2, wait delay 0-1) and two 3-participant scenarios up to a schedule cap, plus seeded random walks with 3-8 \
         participants; oracle over the event log (registered-before-submit => notified unless own work ended first; Completed never before a registered \
         participant's Finished; no hang). (b) real Tunnel / ping / speedtest handlers on in-memory h1/h2 sessions on an 8-thread runtime: graceful end seen by \
         each client, completion returns after all handlers; (b') an HTTP/2 client whose view of the session lags by 40 ms opens a stream while the GOAWAY is in flight. distinct_nontrivial = distinct event orders / rounds.",
    ));
    rep.assume("participants that register while completion() holds the Shutdown lock are outside the statement (recorded, not judged)");
    rep.assume("the executor polls one ready task per step; tokio's broadcast/mpsc channels only need wakers");
    rep.assume("handlers part: shutdown is submitted only after Shutdown itself reports one notification handle and one completion guard per spawned session (hook Shutdown::verif_participants); a round where that does not happen within 5 s is inconclusive");
    if args.has_flag("--only-h3") { crate::props::h3_l2::c19_h3(&rep, args); return rep.finish(); }
    executor_part(&rep, args);
    handlers_part(&rep, args);
    late_stream_part(&rep, args);
    crate::props::h3_l2::c19_h3(&rep, args);
    crate::props::c19_bin::run_bin(&rep, args);
    rep.finish()
}
