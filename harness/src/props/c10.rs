//! C10 — every tunnel request gets exactly one, correctly coded, final response.

use crate::common::{self, Args, Reporter};
use crate::env;
use crate::kit::*;
use crate::tun::*;
use serde_json::{json, Value};
use std::sync::Arc;
use std::time::Duration;
use trusttunnel::verif::ctx::{ConnErr, Ctx, Dest};
use trusttunnel::verif::tunnel::{ConnMeta, Fwd, MuxChoice, Policy, Proto};

const ORIGIN_OK: &[u8] = b"HTTP/1.1 200 OK\r\nContent-Length: 2\r\n\r\nok";

#[derive(Clone, Debug)]
pub struct OutcomeSpec {
    pub name: &'static str,
    pub outcome: Outcome,
    /// expected status and X-Warning code for a request that reaches the connector
    pub status: u16,
    pub warning: Option<&'static str>,
    pub names_host: bool,
}

pub fn outcomes() -> Vec<OutcomeSpec> {
    let io = |code: i32| ConnErr::Io { kind: std::io::Error::from_raw_os_error(code).kind(), os: Some(code), msg: String::new() };
    vec![
        OutcomeSpec { name: "connected", outcome: Outcome::Canned(ORIGIN_OK.to_vec()), status: 200, warning: None, names_host: false },
        OutcomeSpec { name: "refused", outcome: Outcome::Fail(io(libc::ECONNREFUSED)), status: 502, warning: Some("300"), names_host: false },
        OutcomeSpec { name: "descriptor exhaustion", outcome: Outcome::Fail(io(libc::EMFILE)), status: 502, warning: Some("300"), names_host: false },
        OutcomeSpec { name: "resolver failure", outcome: Outcome::Fail(ConnErr::Io { kind: std::io::ErrorKind::Other, os: None, msg: "failed to lookup address information".into() }), status: 502, warning: Some("300"), names_host: false },
        OutcomeSpec { name: "other", outcome: Outcome::Fail(ConnErr::Other("x".into())), status: 502, warning: Some("300"), names_host: false },
        OutcomeSpec { name: "unreachable", outcome: Outcome::Fail(ConnErr::HostUnreachable), status: 502, warning: Some("301"), names_host: false },
        OutcomeSpec { name: "timed out", outcome: Outcome::Fail(ConnErr::Timeout), status: 502, warning: Some("302"), names_host: false },
        OutcomeSpec { name: "policy non-routable", outcome: Outcome::Fail(ConnErr::DnsNonroutable), status: 502, warning: Some("310"), names_host: true },
        OutcomeSpec { name: "policy loopback", outcome: Outcome::Fail(ConnErr::DnsLoopback), status: 502, warning: Some("311"), names_host: true },
        OutcomeSpec { name: "upstream auth failure", outcome: Outcome::Fail(ConnErr::Authentication("x".into())), status: 407, warning: None, names_host: false },
        OutcomeSpec { name: "never completes", outcome: Outcome::Never, status: 502, warning: Some("302"), names_host: false },
    ]
}

pub const AUTHORITIES: &[&str] = &[
    "_check", "_udp2", "_icmp", "_CHECK", "_check:80", "_check.", "x_check", "_udp", "_udp2:1", "_icmp.",
    "example.org:443", "example.org", "1.2.3.4:5", "1.2.3.4", "[2001:db8::1]:5", "[::1]:5",
];
pub const METHODS: &[&str] = &["CONNECT", "GET", "POST", "PUT", "OPTIONS", "HEAD", "DELETE"];

fn reserved(a: &str) -> bool {
    matches!(a, "_check" | "_udp2" | "_icmp")
}

fn has_port(a: &str) -> bool {
    match a.rsplit_once(':') {
        Some((h, p)) => !p.is_empty() && p.chars().all(|c| c.is_ascii_digit()) && !(h.contains(':') && !h.ends_with(']')),
        None => false,
    }
}

#[derive(Debug, Clone, PartialEq)]
enum Want {
    /// status, x-warning code, must name host, forwarder connects expected (None = not pinned)
    Status { status: u16, warning: Option<String>, host: bool, connects: Option<usize>, udp: bool, icmp: bool },
}

fn reference(method: &str, authority: &str, o: &OutcomeSpec) -> Want {
    let st = |status: u16, warning: Option<&str>, host: bool, connects: Option<usize>, udp: bool, icmp: bool| Want::Status { status, warning: warning.map(String::from), host, connects, udp, icmp };
    if reserved(authority) {
        if method == "CONNECT" {
            return st(200, None, false, Some(0), authority == "_udp2", authority == "_icmp");
        }
        return st(502, None, false, Some(0), false, false);
    }
    if method == "CONNECT" && !has_port(authority) {
        return st(502, Some("300"), false, Some(0), false, false);
    }
    st(o.status, o.warning, o.names_host, Some(1), false, false)
}

fn target_for(method: &str, authority: &str) -> String {
    if method == "CONNECT" { authority.to_string() } else { format!("http://{}/p?q=1", authority) }
}

fn judge(rep: &Reporter, proto: Proto, method: &str, authority: &str, o: &OutcomeSpec, resp: &Resp, fwd: &RecFwd) {
    let want = reference(method, authority, o);
    let Want::Status { status, warning, host, connects, udp, icmp } = want.clone();
    let witness = || json!({"kind":"tunnel-request","protocol":format!("{:?}", proto),"method":method,"authority":authority,"connect_outcome":o.name,
        "response":resp.summary(),"forwarder_events":fwd.events().iter().map(|e| format!("{:?}", e)).collect::<Vec<_>>(),"expected":format!("{:?}", want)});
    let auth_class = if reserved(authority) { "reserved authority" } else if authority.starts_with('_') || authority.contains("_check") { "near-reserved authority" } else { "ordinary authority" };
    let mclass = if method == "CONNECT" { "CONNECT" } else { "non-CONNECT" };
    if let Some(e) = &resp.error {
        if resp.status.is_none() {
            rep.violation(&format!("{:?} {} on {}: no final response ({})", proto, mclass, auth_class, if o.name == "never completes" { "after establishment timeout" } else { "client error" }), { let mut w = witness(); w["client_error"] = json!(e); w });
            return;
        }
        if e.contains("body:") {
            rep.violation(&format!("{:?} {}: stream error after the final response (second response?)", proto, mclass), witness());
            return;
        }
    }
    if resp.heads == 0 {
        rep.violation(&format!("{:?} {} on {}: no final response", proto, mclass, auth_class), witness());
        return;
    }
    if resp.heads > 1 {
        rep.violation(&format!("{:?} {}: more than one final response on a stream", proto, mclass), witness());
    }
    if resp.status != Some(status) {
        rep.violation(&format!("{:?} {} on {} with outcome '{}': status {:?} instead of {}", proto, mclass, auth_class, o_class(o, connects), resp.status, status), witness());
        return;
    }
    match (&warning, resp.header("x-warning")) {
        (Some(code), Some(v)) if v.starts_with(code.as_str()) => {}
        (Some(code), got) => rep.violation(&format!("{} with outcome '{}': X-Warning {:?} instead of {}", mclass, o_class(o, connects), got.map(|x| x.split(' ').next().unwrap_or("")), code), witness()),
        (None, Some(_)) if status == 200 => rep.violation("200 response carries an X-Warning header", witness()),
        _ => {}
    }
    if host {
        match resp.header("x-adguard-vpn-error") {
            Some(v) if v.contains(authority.trim_start_matches('[').split(']').next().unwrap_or(authority).split(':').next().unwrap_or(authority)) || v == authority => {}
            got => rep.violation("310/311 response does not name the offending host", { let mut w = witness(); w["x-adguard-vpn-error"] = json!(got); w }),
        }
    }
    if status == 407 && !resp.header("proxy-authenticate").map(|v| v.starts_with("Basic")).unwrap_or(false) {
        rep.violation("407 without a Basic challenge", witness());
    }
    let conns = fwd.connects();
    if let Some(n) = connects {
        if conns.len() != n {
            rep.violation(&format!("{} on {}: {} connect call(s) reached the forwarder, expected {}", mclass, auth_class, conns.len(), n), witness());
        }
    }
    for c in &conns {
        let h = match &c.destination { Dest::HostName(h, _) => h.clone(), Dest::Address(a) => a.ip().to_string() };
        if reserved(&h) && reserved(authority) {
            rep.violation("reserved authority treated as a host name to connect to", witness());
        }
        // destination must be the requested one
        let (eh, ep) = match authority.rsplit_once(':') {
            Some((h, p)) if has_port(authority) => (h.trim_matches(|c| c == '[' || c == ']').to_string(), p.parse::<u16>().unwrap_or(0)),
            _ => (authority.trim_matches(|c| c == '[' || c == ']').to_string(), 80),
        };
        let (gh, gp) = match &c.destination { Dest::HostName(h, p) => (h.clone(), *p), Dest::Address(a) => (a.ip().to_string(), a.port()) };
        if gh != eh || gp != ep {
            rep.violation("connect destination differs from the requested authority", { let mut w = witness(); w["got"] = json!(format!("{}:{}", gh, gp)); w });
        }
    }
    let ev = fwd.events();
    let got_udp = ev.iter().any(|e| matches!(e, FwdEvent::UdpMux(_)));
    let got_icmp = ev.iter().any(|e| matches!(e, FwdEvent::IcmpMux));
    if got_udp != udp || got_icmp != icmp {
        rep.violation(&format!("{} on {}: datagram multiplexer creation udp={} icmp={}, expected udp={} icmp={}", mclass, auth_class, got_udp, got_icmp, udp, icmp), witness());
    }
    rep.tally(&format!("{:?} {} -> {}{}", proto, mclass, status, warning.map(|w| format!("/{}", w)).unwrap_or_default()), 1);
}

fn o_class(o: &OutcomeSpec, connects: Option<usize>) -> &'static str {
    if connects == Some(0) { "n/a (never reaches the connector)" } else { o.name }
}

fn scripted_matrix(rep: &Arc<Reporter>, args: &Args, ctx: &Arc<Ctx>) {
    let rt = env::rt_paused();
    let outs = outcomes();
    let mut n = 0u64;
    for proto in [Proto::H1, Proto::H2] {
        for method in METHODS {
            for authority in AUTHORITIES {
                for o in &outs {
                    // requests that never reach the connector do not need every outcome
                    let reaches = !(reserved(authority) || (*method == "CONNECT" && !has_port(authority)));
                    if !reaches && o.name != "connected" && o.name != "policy loopback" { continue; }
                    if !args.thorough() && *method != "CONNECT" && *method != "GET" && !["connected", "refused", "policy loopback"].contains(&o.name) { continue; }
                    n += 1;
                    let oc = o.outcome.clone();
                    let fwd = Arc::new(RecFwd { log: Default::default(), decide: Box::new(move |_| oc.clone()), udp: MuxChoice::Real, icmp: MuxChoice::Real, check_auth_err: None, received: Default::default(), abandoned: Default::default() });
                    let mut req = Req::new(method, &target_for(method, authority));
                    if *method == "CONNECT" { req.end_stream = false; }
                    if *method == "POST" || *method == "PUT" { req = req.header("content-length", b"0"); }
                    let how = How::Tunnel(Fwd::Scripted(fwd.clone()), Policy::Default);
                    let resp = rt.block_on(async {
                        match proto {
                            Proto::H1 => h1_roundtrip(ctx, how, "main.test", &req, Duration::from_secs(90), n).await,
                            _ => h2_session(ctx, how, "main.test", std::slice::from_ref(&req), Duration::from_secs(90), n).await.pop().unwrap_or_default(),
                        }
                    });
                    rep.evals(1);
                    rep.distinct(common::fnv(format!("{:?}|{}|{}|{}", proto, method, authority, o.name).as_bytes()));
                    if n % 97 == 5 { rep.sample(json!({"protocol":format!("{:?}", proto),"request":req.describe(),"connect_outcome":o.name,"response":resp.summary()})); }
                    judge(rep, proto, method, authority, o, &resp, &fwd);
                }
            }
        }
    }
}

/// Outcomes the sandbox can produce for real with the real DirectForwarder (real time, loopback only)
fn real_forwarder_cases(rep: &Arc<Reporter>, args: &Args) {
    let dir = env::work_dir(&args.root, "c10");
    let rt = env::rt_current();
    rt.block_on(async {
        let listener = tokio::net::TcpListener::bind("127.0.0.1:0").await.unwrap();
        let open_port = listener.local_addr().unwrap().port();
        tokio::spawn(async move { loop { let _ = listener.accept().await; } });
        let closed_port = { let l = std::net::TcpListener::bind("127.0.0.1:0").unwrap(); l.local_addr().unwrap().port() };
        let cases: Vec<(bool, String, u16, Option<&str>, &str)> = vec![
            (true, format!("127.0.0.1:{}", open_port), 200, None, "real: loopback listener, private allowed"),
            (true, format!("127.0.0.1:{}", closed_port), 502, Some("300"), "real: closed port (ECONNREFUSED)"),
            (false, format!("127.0.0.1:{}", open_port), 502, Some("311"), "real: policy refusal loopback"),
            (false, format!("[::ffff:127.0.0.1]:{}", open_port), 502, Some("31"), "real: policy refusal mapped loopback"),
            (false, "10.1.2.3:80".to_string(), 502, Some("310"), "real: policy refusal private"),
            (false, "localhost:1".to_string(), 502, Some("311"), "real: name resolving to loopback"),
            (true, "nonexistent.invalid:80".to_string(), 502, Some("300"), "real: resolver failure"),
        ];
        // OS errors of the connect itself, through the real TcpForwarder::connect and its errno mapping (hook: scripted connect error)
        let errnos: Vec<(i32, &str, &str)> = vec![
            (libc::ENETUNREACH, "301", "real: connect fails with ENETUNREACH"), (libc::EHOSTUNREACH, "301", "real: connect fails with EHOSTUNREACH"),
            (libc::ETIMEDOUT, "302", "real: connect fails with ETIMEDOUT"), (libc::ECONNREFUSED, "300", "real: connect fails with ECONNREFUSED"),
            (libc::ECONNRESET, "300", "real: connect fails with ECONNRESET"), (libc::EMFILE, "300", "real: connect fails with EMFILE"),
            (libc::ENFILE, "300", "real: connect fails with ENFILE"), (libc::EACCES, "300", "real: connect fails with EACCES"), (libc::EADDRNOTAVAIL, "300", "real: connect fails with EADDRNOTAVAIL"),
        ];
        let mut cases = cases;
        let mut owned: Vec<(bool, String, u16, Option<&str>, &str)> = vec![];
        for (k, (errno, warn, name)) in errnos.iter().enumerate() {
            for (j, host) in [format!("198.51.100.{}", 10 + k), format!("[2001:db8::{:x}]", 0x10 + k)].into_iter().enumerate() {
                let authority = format!("{}:{}", host, 8000 + j);
                trusttunnel::verif::net::script_connect_error(authority.parse().unwrap(), Some(*errno));
                owned.push((true, authority, 502, Some(*warn), *name));
            }
        }
        cases.extend(owned);
        let mut id = 5000;
        for (allow, authority, status, warning, name) in cases {
            let ctx = Arc::new(env::make_ctx(&dir, env::CtxOpts { allow_private: allow, ..Default::default() }));
            for proto in [Proto::H1, Proto::H2] {
                id += 1;
                let req = Req::connect(&authority);
                let how = How::Tunnel(Fwd::Real, Policy::Default);
                let resp = match proto {
                    Proto::H1 => h1_roundtrip(&ctx, how, "main.test", &req, Duration::from_secs(8), id).await,
                    _ => h2_session(&ctx, how, "main.test", std::slice::from_ref(&req), Duration::from_secs(8), id).await.pop().unwrap_or_default(),
                };
                rep.evals(1);
                rep.distinct(common::fnv(format!("{}|{}|{:?}", name, authority.starts_with('['), proto).as_bytes()));
                let w = json!({"kind":"tunnel-request-real","case":name,"protocol":format!("{:?}", proto),"authority":authority,"response":resp.summary()});
                let ok_warn = match (warning, resp.header("x-warning")) { (None, _) => true, (Some(c), Some(v)) => v.starts_with(c), (Some(_), None) => false };
                if resp.status != Some(status) || !ok_warn || resp.heads != 1 {
                    if name.contains("resolver failure") && resp.status == Some(502) {
                        rep.tally("real forwarder: resolver failure answered 502 (code not pinned)", 1);
                    } else {
                        rep.violation(&format!("{}: response {:?}/{:?} instead of {}/{:?}", name, resp.status, resp.header("x-warning").map(|v| v.split(' ').next().unwrap_or("").to_string()), status, warning), w);
                    }
                } else {
                    if warning.map(|c| c.starts_with("31")).unwrap_or(false) && resp.header("x-adguard-vpn-error").is_none() {
                        rep.violation("310/311 response does not name the offending host", w);
                    }
                    rep.tally(&format!("real forwarder: {} ok", name), 1);
                }
            }
        }
    });
}

/// The same dispatch through the real SOCKS5 forwarder and a relaying proxy: 200 when the proxy connects / associates,
/// 407 when the proxy rejects the credentials it is handed (TCP CONNECT and the datagram multiplexers alike),
/// 502 with the documented code when the proxy reports a failure.
fn socks5_forwarder_cases(rep: &Arc<Reporter>, args: &Args) {
    use crate::s5srv::{S5AuthMode, S5Opts, S5Server};
    let dir = env::work_dir(&args.root, "c10s5");
    let rt = env::rt_current();
    rt.block_on(async {
        let listener = tokio::net::TcpListener::bind("127.0.0.1:0").await.unwrap();
        let open = listener.local_addr().unwrap();
        tokio::spawn(async move { loop { let _ = listener.accept().await; } });
        let closed_port = { let l = std::net::TcpListener::bind("127.0.0.1:0").unwrap(); l.local_addr().unwrap().port() };
        let auth = format!("Basic {}", basic("u10", "p10"));
        let mut id = 9000;
        // (proxy behaviour, name)
        let modes: Vec<(S5Opts, &str)> = vec![
            (S5Opts::default(), "proxy accepts"),
            (S5Opts { auth: S5AuthMode::RejectCredentials, ..Default::default() }, "proxy rejects the credentials"),
            (S5Opts { connect_code: 3, ..Default::default() }, "proxy reports network unreachable"),
            (S5Opts { connect_code: 6, ..Default::default() }, "proxy reports TTL expired"),
        ];
        for (opts, mode) in modes {
            let rejecting = opts.auth == S5AuthMode::RejectCredentials;
            let code = opts.connect_code;
            let s5 = S5Server::start(opts).await;
            let a = s5.addr;
            let ctx = Arc::new(env::make_ctx(&dir, env::CtxOpts {
                allow_private: true,
                clients: vec![("u10".into(), "p10".into())],
                registry_authenticator: true,
                tweak: Some(Box::new(move |b| b.forwarder_settings(trusttunnel::settings::ForwardProtocolSettings::Socks5(
                    trusttunnel::settings::Socks5ForwarderSettings::builder().server_address(a).unwrap().build().unwrap())))),
                ..Default::default()
            }));
            // (authority, expectation when the proxy accepts, is a datagram multiplexer)
            let targets: Vec<(String, (u16, Option<&str>), bool)> = vec![
                (open.to_string(), (200, None), false),
                (format!("127.0.0.1:{}", closed_port), (502, Some("300")), false),
                ("_udp2".to_string(), (200, None), true),
                ("_check".to_string(), (200, None), false),
            ];
            for (authority, accept_want, mux) in targets {
                for proto in [Proto::H1, Proto::H2] {
                    id += 1;
                    let mut req = Req::connect(&authority).header("proxy-authorization", auth.as_bytes());
                    req.end_stream = false;
                    let how = How::Tunnel(Fwd::Real, Policy::Default);
                    let resp = match proto {
                        Proto::H1 => h1_roundtrip(&ctx, how, "main.test", &req, Duration::from_secs(4), id).await,
                        _ => h2_session(&ctx, how, "main.test", std::slice::from_ref(&req), Duration::from_secs(4), id).await.pop().unwrap_or_default(),
                    };
                    rep.evals(1);
                    rep.distinct(common::fnv(format!("s5|{}|{}|{:?}", mode, authority.starts_with('_').then(|| authority.clone()).unwrap_or_else(|| if authority.ends_with(&closed_port.to_string()) { "closed".into() } else { "open".into() }), proto).as_bytes()));
                    let want: (u16, Option<&str>) = if authority == "_check" { (200, None) }
                        else if rejecting { (407, None) }
                        else if code == 3 && !mux { (502, Some("301")) }
                        else if code == 6 && !mux { (502, Some("302")) }
                        else { accept_want };
                    let w = json!({"kind":"tunnel-request-socks5","proxy":mode,"protocol":format!("{:?}", proto),"authority":authority,"response":resp.summary(),"expected":format!("{:?}", want)});
                    let ok_warn = match (want.1, resp.header("x-warning")) { (None, _) => true, (Some(c), Some(v)) => v.starts_with(c), (Some(_), None) => false };
                    if resp.status != Some(want.0) || !ok_warn || resp.heads != 1 {
                        let what = if authority.starts_with('_') { authority.clone() } else { "host:port".to_string() };
                        rep.violation(&format!("SOCKS5 forwarder, {}: CONNECT {} answered {:?}/{:?} instead of {}/{:?}", mode, what, resp.status, resp.header("x-warning").map(|v| v.split(' ').next().unwrap_or("").to_string()), want.0, want.1), w);
                    } else if want.0 == 407 && resp.header("proxy-authenticate").is_none() {
                        rep.violation("SOCKS5 forwarder: 407 without Proxy-Authenticate", w);
                    } else { rep.tally(&format!("socks5 forwarder, {}: documented response", mode), 1); }
                }
            }
        }
    });
}

/// HTTP/2 sessions carrying several requests at once, each with its own destination and connect outcome:
/// every stream must get exactly one final response with the code of *its own* outcome
fn h2_histories(rep: &Arc<Reporter>, args: &Args, ctx: &Arc<Ctx>) {
    let rt = env::rt_paused();
    let outs = Arc::new(outcomes());
    let n = args.qt(600u64, 40_000u64);
    for h in 0..n {
        let mut r = common::Rng::derive(args.seed, 0xc10, h);
        let len = r.range(2, 7) as usize;
        let outs2 = outs.clone();
        // the outcome of a connect is chosen by the destination port: 1000 + index
        let fwd = Arc::new(RecFwd {
            log: Default::default(),
            decide: Box::new(move |m: &ConnMeta| {
                let port = match m.destination.clone() { Dest::HostName(_, p) => p, Dest::Address(a) => a.port() };
                outs2.get((port as usize).wrapping_sub(1000)).map(|o| o.outcome.clone()).unwrap_or(Outcome::Fail(ConnErr::Other("no such outcome".into())))
            }),
            udp: MuxChoice::Real, icmp: MuxChoice::Real, check_auth_err: None, received: Default::default(), abandoned: Default::default(),
        });
        let mut reqs = vec![];
        let mut plan: Vec<(String, String, Option<usize>)> = vec![]; // method, authority, outcome index (None = never reaches the connector)
        for i in 0..len {
            let pick = r.below(10);
            let (method, authority, oi) = if pick == 0 { ("CONNECT".to_string(), "_check".to_string(), None) }
                else if pick == 1 { ("GET".to_string(), "_check".to_string(), None) }
                else if pick == 2 { ("CONNECT".to_string(), format!("noport{}.dest.test", i), None) }
                else {
                    let oi = r.below(outs.len() as u64) as usize;
                    let m = if r.chance(2, 3) { "CONNECT" } else { *r.pick(&["GET", "POST", "HEAD"]) };
                    (m.to_string(), format!("h{}s{}.dest.test:{}", h, i, 1000 + oi), Some(oi))
                };
            let mut req = Req::new(&method, &target_for(&method, &authority));
            if method == "CONNECT" { req.end_stream = false; }
            if method == "POST" { req = req.header("content-length", b"0"); }
            reqs.push(req);
            plan.push((method, authority, oi));
        }
        let how = How::Tunnel(Fwd::Scripted(fwd.clone()), Policy::Default);
        let resps = rt.block_on(h2_session(ctx, how, "main.test", &reqs, Duration::from_secs(90), 200_000 + h));
        rep.evals(1);
        rep.distinct(common::fnv(format!("{:?}", plan).as_bytes()));
        let witness = |i: usize, what: &str| json!({"kind":"h2-history","history":h,"stream":i,"what":what,
            "plan":plan.iter().map(|(m, a, o)| format!("{} {} -> {}", m, a, o.map(|x| outs[x].name).unwrap_or("n/a"))).collect::<Vec<_>>(),
            "responses":resps.iter().map(|x| x.summary()).collect::<Vec<_>>()});
        if h % 200 == 3 { rep.sample(witness(0, "sample")); }
        let connects = fwd.connects();
        for (i, (method, authority, oi)) in plan.iter().enumerate() {
            let Some(resp) = resps.get(i) else { rep.violation("H2 history: a stream got no final response", witness(i, "missing")); continue };
            let spec = oi.map(|x| outs[x].clone()).unwrap_or_else(|| outs[0].clone());
            let Want::Status { status, warning, connects: want_conn, .. } = reference(method, authority, &spec);
            if resp.heads != 1 || resp.status.is_none() {
                rep.violation("H2 history: a stream did not get exactly one final response", witness(i, &format!("{} final responses", resp.heads)));
                continue;
            }
            if resp.status != Some(status) {
                rep.violation("H2 history: a stream answered with the code of another outcome", witness(i, &format!("status {:?} instead of {}", resp.status, status)));
                continue;
            }
            if let Some(code) = &warning {
                if !resp.header("x-warning").map(|v| v.starts_with(code.as_str())).unwrap_or(false) {
                    rep.violation("H2 history: X-Warning code of another outcome", witness(i, &format!("X-Warning {:?} instead of {}", resp.header("x-warning"), code)));
                    continue;
                }
            }
            let host = authority.rsplit_once(':').map(|(h, _)| h.to_string()).unwrap_or(authority.clone());
            let mine = connects.iter().filter(|c| matches!(&c.destination, Dest::HostName(hh, _) if *hh == host)).count();
            if Some(mine) != want_conn && !reserved(authority) {
                rep.violation("H2 history: number of connect attempts for a stream's destination differs from one per request", witness(i, &format!("{} connect(s)", mine)));
                continue;
            }
            rep.tally("H2 history stream: exactly one response with its own outcome's code", 1);
        }
    }
}

pub fn scenarios(rep: &Arc<Reporter>, args: &Args) {
    let dir = env::work_dir(&args.root, "c10");
    let ctx = Arc::new(env::make_ctx(&dir, env::CtxOpts {
        tweak: Some(Box::new(|b| b.icmp(trusttunnel::settings::IcmpSettings::builder().interface_name("lo").build().unwrap()))),
        ..Default::default()
    }));
    scripted_matrix(rep, args, &ctx);
    h2_histories(rep, args, &ctx);
    real_forwarder_cases(rep, args);
    socks5_forwarder_cases(rep, args);
}

pub fn run(args: &Args) -> i32 {
    let rep = Arc::new(Reporter::new(
        args,
        "fault_enumeration",
        "case = (protocol H1/H2, method, authority, outcome of the outbound connection attempt chosen at the forwarder boundary) through the real \
         Tunnel + HttpDownstream + codec over an in-memory session; 7 methods x 16 authorities (reserved names, case/suffix variants, with and \
         without port, literals) x 11 outcomes (quick: reduced for non-CONNECT/GET methods), plus seeded HTTP/2 sessions of 2-7 concurrent requests each with its own destination and outcome, plus loopback cases with the real DirectForwarder. \
         distinct_nontrivial = distinct tuples.",
    ));
    rep.assume("descriptor exhaustion is injected as Io(EMFILE) at the forwarder boundary, not by exhausting descriptors");
    rep.assume("'never completes' is answered after the establishment timeout under the paused clock (timing itself is judged by C14 part B)");
    scenarios(&rep, args);
    crate::props::h3_l2::c10_h3(&rep, args);
    rep.finish()
}
