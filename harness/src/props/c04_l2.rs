//! C04 L2: the real Core::listen with rules; denied peers must not receive a byte (TCP).

use crate::common::{self, Args, Reporter};
use crate::env;
use crate::l2::*;
use serde_json::json;
use std::net::SocketAddr;
use std::sync::Arc;
use std::time::Duration;
use trusttunnel::rules::{Rule, RuleAction, RulesConfig, RulesEngine};

fn engine(rules: &[(Option<&str>, Option<&str>, bool)]) -> RulesEngine {
    RulesEngine::from_config(RulesConfig {
        rule: rules.iter().map(|r| Rule { cidr: r.0.map(String::from), client_random_prefix: r.1.map(String::from), action: if r.2 { RuleAction::Allow } else { RuleAction::Deny } }).collect(),
    })
}

pub fn run_l2(rep: &Arc<Reporter>, args: &Args) {
    let dir = env::work_dir(&args.root, "c04");
    let rt = env::rt_multi(4);
    rt.block_on(async {
        let hosts = Hosts { main: vec![("main.test".into(), vec![])], ..Default::default() };
        // (rule set name, rules, listen, client address family, expectation: Some(true)=admitted, Some(false)=dropped early, None=EITHER)
        type R<'a> = Vec<(Option<&'a str>, Option<&'a str>, bool)>;
        let scenarios: Vec<(&str, R, &str, &str, Option<bool>)> = vec![
            ("no rules", vec![], "127.0.0.1", "v4", Some(true)),
            ("deny 127.0.0.0/8", vec![(Some("127.0.0.0/8"), None, false)], "127.0.0.1", "v4", Some(false)),
            ("deny 10.0.0.0/8 (other block)", vec![(Some("10.0.0.0/8"), None, false)], "127.0.0.1", "v4", Some(true)),
            ("allow 127/8 then deny all", vec![(Some("127.0.0.0/8"), None, true), (None, None, false)], "127.0.0.1", "v4", Some(true)),
            ("deny all", vec![(None, None, false)], "127.0.0.1", "v4", Some(false)),
            ("no rules (dual stack, v4 peer)", vec![], "[::]", "v4", Some(true)),
            ("deny 127.0.0.0/8 (dual stack, v4 peer)", vec![(Some("127.0.0.0/8"), None, false)], "[::]", "v4", Some(false)),
            ("allow 127/8 then deny all (dual stack, v4 peer)", vec![(Some("127.0.0.0/8"), None, true), (None, None, false)], "[::]", "v4", Some(true)),
            ("deny 127.0.0.0/8 (dual stack, v6 peer)", vec![(Some("127.0.0.0/8"), None, false)], "[::]", "v6", Some(true)),
            ("deny ::1/128 (dual stack, v6 peer)", vec![(Some("::1/128"), None, false)], "[::]", "v6", Some(false)),
            ("deny ::1/128 (dual stack, v4 peer)", vec![(Some("::1/128"), None, false)], "[::]", "v4", Some(true)),
            ("deny ::ffff:127.0.0.0/104 (dual stack, v4 peer)", vec![(Some("::ffff:127.0.0.0/104"), None, false)], "[::]", "v4", None),
        ];
        for (name, rules, listen, family, want) in scenarios {
            let e = engine(&rules);
            let ep = start_endpoint(&dir, listen, &hosts, None, vec![("u".into(), "p".into())], (true, true, false), move |b| b.rules_engine(e)).await;
            let target: SocketAddr = match (listen, family) { (_, "v6") => format!("[::1]:{}", ep.addr.port()).parse().unwrap(), _ => format!("127.0.0.1:{}", ep.addr.port()).parse().unwrap() };
            for attempt in 0..3 {
                let o = tls_connect(target, Some("main.test"), &[b"h2", b"http/1.1"], Duration::from_secs(3)).await;
                rep.evals(1);
                rep.distinct(common::fnv(format!("l2|{}|{}", name, attempt).as_bytes()));
                let admitted = o.stream.is_some();
                let w = json!({"kind":"rules-wiring","scenario":name,"listen":listen,"client_family":family,"admitted":admitted,"server_bytes_before_close":o.server_bytes,"error":o.error});
                match want {
                    Some(true) if !admitted => rep.violation(&format!("allowed peer refused: {}", name), w),
                    Some(false) if admitted => rep.violation(&format!("denied peer completed the TLS handshake: {}", name), w),
                    Some(false) if o.server_bytes > 0 => rep.violation(&format!("denied peer received {} byte(s) of TLS handshake before the drop", if o.server_bytes > 0 { "some" } else { "0" }), w),
                    None => rep.tally(&format!("l2 either: {} -> {}", name, if admitted { "admitted" } else { "dropped" }), 1),
                    _ => rep.tally(&format!("l2: {} -> {}", if admitted { "admitted" } else { "dropped with zero server bytes" }, family), 1),
                }
            }
            ep.task.abort();
        }
        // client-random rule without knowing the random in advance: one mask bit decides
        let e = engine(&[(None, Some("80/80"), false)]);
        let ep = start_endpoint(&dir, "127.0.0.1", &hosts, None, vec![], (true, true, false), move |b| b.rules_engine(e)).await;
        let (mut hi, mut lo) = (0, 0);
        for i in 0..args.qt(64, 400) {
            let o = tls_connect(ep.addr, Some("main.test"), &[b"h2"], Duration::from_secs(3)).await;
            rep.evals(1);
            let Some(cr) = o.client_random.clone() else { rep.inconclusive("client random not captured"); continue; };
            rep.distinct(common::fnv(&cr));
            let top = cr[0] & 0x80 != 0;
            if top { hi += 1 } else { lo += 1 }
            let admitted = o.stream.is_some();
            let w = json!({"kind":"rules-wiring","scenario":"client_random_prefix 80/80 deny","client_random":common::hex(&cr),"admitted":admitted,"server_bytes":o.server_bytes,"i":i});
            if top && admitted { rep.violation("connection whose client random matches a deny mask was admitted", w); }
            else if top && o.server_bytes > 0 { rep.violation("denied peer received some byte(s) of TLS handshake before the drop", w); }
            else if !top && !admitted { rep.violation("connection whose client random does not match the deny mask was refused", w); }
        }
        // client random unavailable: a ClientHello split over several TLS records cannot be peeked. With any rule that
        // needs the random the connection must be denied (fail closed); without such a rule it is served as usual.
        for (name, rules, want_admitted) in [
            ("fragmented hello, no client-random rule", vec![(Some("10.0.0.0/8"), None, false)], Some(true)),
            ("fragmented hello, deny prefix deadbeef", vec![(None, Some("deadbeef"), false)], Some(false)),
            ("fragmented hello, deny 00/00 (every random)", vec![(None, Some("00/00"), false)], Some(false)),
            ("fragmented hello, allow prefix aa then nothing", vec![(None, Some("aa"), true)], Some(false)),
            ("whole hello, deny prefix deadbeef (control: random available, no match)", vec![(None, Some("deadbeef"), false)], Some(true)),
        ] {
            let whole = name.starts_with("whole");
            let e = engine(&rules);
            let ep2 = start_endpoint(&dir, "127.0.0.1", &hosts, None, vec![], (true, true, false), move |b| b.rules_engine(e)).await;
            for attempt in 0..2 {
                let o = tls_connect_opts(ep2.addr, Some("main.test"), &[b"h2", b"http/1.1"], Duration::from_secs(3), if whole { None } else { Some(64) }).await;
                rep.evals(1);
                rep.distinct(common::fnv(format!("l2frag|{}|{}", name, attempt).as_bytes()));
                let admitted = o.stream.is_some();
                let w = json!({"kind":"rules-wiring","scenario":name,"admitted":admitted,"server_bytes_before_close":o.server_bytes,"error":o.error});
                match want_admitted {
                    Some(true) if !admitted => rep.violation(&format!("allowed peer refused: {}", name), w),
                    Some(false) if admitted => rep.violation("connection admitted although a rule needs a client random that is unavailable (must fail closed)", w),
                    Some(false) if o.server_bytes > 0 => rep.violation("denied peer received some byte(s) of TLS handshake before the drop", w),
                    _ => rep.tally(&format!("l2: {} -> {}", name, if admitted { "admitted" } else { "dropped with zero server bytes" }), 1),
                }
            }
            ep2.task.abort();
        }
        rep.tally("client-random mask experiment: randoms with top bit set", hi);
        rep.tally("client-random mask experiment: randoms with top bit clear", lo);
        if hi == 0 || lo == 0 { rep.inconclusive("client-random experiment saw only one of the two outcomes"); }
        ep.task.abort();
        rep.set("l2", json!("exercised: TCP listener on 127.0.0.1 and dual-stack [::], rustls clients over IPv4 and IPv6; QUIC not exercised"));
    });
}
