use crate::common::Args;

pub mod c03;

pub fn dispatch(args: &Args) -> i32 {
    match args.id.as_str() {
        "C03" => c03::run(args),
        other => {
            eprintln!("unknown property id {:?}", other);
            3
        }
    }
}
