//! C12 — the ClientHello random is extracted exactly and transparently.

use crate::common::report::Local;
use crate::common::{self, Args, Reporter, Rng};
use crate::env;
use crate::l2::*;
use serde_json::{json, Value};
use std::collections::BTreeMap;
use std::pin::Pin;
use std::sync::Arc;
use std::task::{Context, Poll};
use std::time::Duration;
use tokio::io::{AsyncRead, AsyncWrite, AsyncWriteExt, ReadBuf};
use tokio::net::{TcpListener, TcpStream};
use trusttunnel::verif::misc::{extract_client_random, tls_listen, tls_serve, CrExtraction};

/// A synthetic but well-formed ClientHello flight
pub struct Hello {
    pub kind: String,
    pub bytes: Vec<u8>,
    pub random: [u8; 32],
    /// the first record carries the complete ClientHello
    pub complete_in_first_record: bool,
    pub sni: Option<String>,
    pub alpn: Vec<Vec<u8>>,
}

fn ext(t: u16, body: &[u8]) -> Vec<u8> {
    let mut v = t.to_be_bytes().to_vec();
    v.extend_from_slice(&(body.len() as u16).to_be_bytes());
    v.extend_from_slice(body);
    v
}

pub fn build_hello(r: &mut Rng, sni: Option<&str>, alpn: &[&[u8]], pad: usize, big_share: usize, legacy_version: u16, session_id: usize, split_records_at: Option<usize>, trailing_record: bool) -> Hello {
    let mut random = [0u8; 32];
    random.copy_from_slice(&r.bytes(32));
    let mut body = vec![];
    body.extend_from_slice(&legacy_version.to_be_bytes());
    body.extend_from_slice(&random);
    body.push(session_id as u8);
    body.extend_from_slice(&r.bytes(session_id));
    let suites: [u16; 5] = [0x1301, 0x1302, 0x1303, 0xc02b, 0xc02f];
    body.extend_from_slice(&((suites.len() * 2) as u16).to_be_bytes());
    for s in suites { body.extend_from_slice(&s.to_be_bytes()); }
    body.extend_from_slice(&[1, 0]);
    let mut exts = vec![];
    if let Some(h) = sni {
        let mut b = vec![];
        let mut entry = vec![0u8];
        entry.extend_from_slice(&(h.len() as u16).to_be_bytes());
        entry.extend_from_slice(h.as_bytes());
        b.extend_from_slice(&(entry.len() as u16).to_be_bytes());
        b.extend_from_slice(&entry);
        exts.extend(ext(0, &b));
    }
    if !alpn.is_empty() {
        let mut l = vec![];
        for a in alpn { l.push(a.len() as u8); l.extend_from_slice(a); }
        let mut b = (l.len() as u16).to_be_bytes().to_vec();
        b.extend_from_slice(&l);
        exts.extend(ext(16, &b));
    }
    exts.extend(ext(43, &[2, 0x03, 0x04])); // supported_versions: TLS 1.3
    exts.extend(ext(10, &[0, 6, 0x00, 0x1d, 0x00, 0x17, 0x63, 0x99])); // groups incl. a PQ hybrid id
    exts.extend(ext(13, &[0, 8, 0x04, 0x03, 0x08, 0x04, 0x04, 0x01, 0x08, 0x07])); // signature algorithms
    {
        // key_share: x25519 + optionally a large opaque share (post-quantum sized)
        let mut shares = vec![];
        shares.extend_from_slice(&[0x00, 0x1d, 0x00, 0x20]);
        shares.extend_from_slice(&r.bytes(32));
        if big_share > 0 {
            shares.extend_from_slice(&[0x63, 0x99]);
            shares.extend_from_slice(&(big_share as u16).to_be_bytes());
            shares.extend_from_slice(&r.bytes(big_share));
        }
        let mut b = (shares.len() as u16).to_be_bytes().to_vec();
        b.extend_from_slice(&shares);
        exts.extend(ext(51, &b));
    }
    if pad > 0 { exts.extend(ext(21, &vec![0u8; pad])); }
    body.extend_from_slice(&(exts.len() as u16).to_be_bytes());
    body.extend_from_slice(&exts);
    let mut hs = vec![1u8];
    hs.extend_from_slice(&(body.len() as u32).to_be_bytes()[1..]);
    hs.extend_from_slice(&body);
    // records
    let mut bytes = vec![];
    let mut complete = true;
    let max_record = 16384;
    let first_len = match split_records_at { Some(n) if n < hs.len() => { complete = false; n } _ => hs.len().min(max_record) };
    if first_len < hs.len() { complete = false; }
    let mut pos = 0;
    let mut first = true;
    while pos < hs.len() {
        let n = if first { first_len } else { (hs.len() - pos).min(max_record) };
        bytes.extend_from_slice(&[0x16, 0x03, 0x01]);
        bytes.extend_from_slice(&(n as u16).to_be_bytes());
        bytes.extend_from_slice(&hs[pos..pos + n]);
        pos += n;
        first = false;
    }
    if trailing_record { bytes.extend_from_slice(&[0x14, 0x03, 0x03, 0x00, 0x01, 0x01]); }
    Hello { kind: format!("synthetic sni={:?} alpn={} pad={} share={} ver={:#06x} sid={} split={:?} trailing={}", sni, alpn.len(), pad, big_share, legacy_version, session_id, split_records_at, trailing_record),
        bytes, random, complete_in_first_record: complete, sni: sni.map(String::from), alpn: alpn.iter().map(|a| a.to_vec()).collect() }
}

/// First flight of a real rustls client
pub fn rustls_hello(sni: &str, alpn: &[&[u8]]) -> Hello {
    let cfg = client_config(alpn);
    let mut conn = rustls::ClientConnection::new(cfg, rustls::ServerName::try_from(sni).unwrap()).unwrap();
    let mut bytes = vec![];
    while conn.wants_write() { conn.write_tls(&mut bytes).unwrap(); }
    let mut random = [0u8; 32];
    random.copy_from_slice(&bytes[11..43]);
    Hello { kind: format!("rustls sni={} alpn={}", sni, alpn.len()), bytes, random, complete_in_first_record: true, sni: Some(sni.to_string()), alpn: alpn.iter().map(|a| a.to_vec()).collect() }
}

fn hellos(r: &mut Rng, n_random: usize) -> Vec<Hello> {
    let mut v = vec![];
    for (sni, alpn) in [("main.test", vec![&b"h2"[..], b"http/1.1"]), ("a.very.long.host.name.example.org", vec![&b"http/1.1"[..]]), ("x.test", vec![])] {
        v.push(rustls_hello(sni, &alpn));
    }
    let alpn2: Vec<&[u8]> = vec![b"h2", b"http/1.1"];
    v.push(build_hello(r, Some("main.test"), &alpn2, 0, 0, 0x0303, 32, None, false));
    v.push(build_hello(r, Some("main.test"), &alpn2, 300, 0, 0x0303, 0, None, false));
    v.push(build_hello(r, Some("main.test"), &alpn2, 0, 1216, 0x0303, 32, None, false)); // X25519MLKEM768-sized share
    v.push(build_hello(r, Some("main.test"), &alpn2, 4000, 1216, 0x0303, 32, None, false));
    v.push(build_hello(r, Some("main.test"), &alpn2, 14000, 1216, 0x0303, 32, None, false));
    v.push(build_hello(r, Some("main.test"), &alpn2, 16000, 1216, 0x0303, 32, None, false)); // > 16 KiB: two records
    // sizes around the read size of the TLS stack (4 KiB) and around the 16 KiB peek limit / record size
    for pad in [3700usize, 3800, 3900, 4000, 7900, 8100, 14800, 14900, 15000, 15050, 15100] {
        v.push(build_hello(r, Some("main.test"), &alpn2, pad, 0, 0x0303, 32, None, false));
    }
    v.push(build_hello(r, None, &[], 0, 0, 0x0301, 0, None, false));
    v.push(build_hello(r, Some("main.test"), &alpn2, 0, 0, 0x0303, 32, Some(3), false)); // fragmented inside the handshake header
    v.push(build_hello(r, Some("main.test"), &alpn2, 0, 0, 0x0303, 32, Some(20), false)); // fragmented inside the random
    v.push(build_hello(r, Some("main.test"), &alpn2, 0, 0, 0x0303, 32, Some(60), false));
    v.push(build_hello(r, Some("main.test"), &alpn2, 100, 0, 0x0303, 32, None, true));
    for _ in 0..n_random {
        let pad = *r.pick(&[0usize, 1, 200, 1500, 9000]);
        let share = *r.pick(&[0usize, 32, 1216, 1568]);
        let sid = *r.pick(&[0usize, 32]);
        let split = if r.chance(1, 6) { Some(r.range(1, 200) as usize) } else { None };
        let host = format!("h{}.test", r.below(1000));
        let tr = r.chance(1, 5);
        v.push(build_hello(r, Some(&host), &alpn2, pad, share, 0x0303, sid, split, tr));
    }
    v
}

fn l0(rep: &Arc<Reporter>, args: &Args) {
    let mut r = Rng::derive(args.seed, 0xc12, 0);
    let hs = hellos(&mut r, args.qt(60, 1500));
    let mut local = Local::default();
    let mut bad: BTreeMap<String, Value> = BTreeMap::new();
    for h in &hs {
        local.distinct.push(common::fnv(&h.bytes));
        // every prefix (all for short flights, sampled + boundaries for long ones)
        let len = h.bytes.len();
        let mut points: Vec<usize> = if len <= 700 { (0..=len).collect() } else { let mut p: Vec<usize> = (0..=len).step_by(97).collect(); p.extend([0, 1, 4, 5, 6, 9, 10, 11, 42, 43, 44, len - 1, len, 16383, 16384, 16385, 16388, 16389, 16390].iter().filter(|x| **x <= len)); p };
        points.sort();
        points.dedup();
        for p in points {
            local.evals += 1;
            let got = match common::catch(|| extract_client_random(&h.bytes[..p])) {
                Ok(g) => g,
                Err(e) => { bad.entry(format!("extract_client_random panicked: {}", common::panic_file(&e))).or_insert(json!({"hello":h.kind,"prefix_len":p,"panic":e})); continue; }
            };
            let first_record_len = if h.bytes.len() >= 5 { 5 + u16::from_be_bytes([h.bytes[3], h.bytes[4]]) as usize } else { usize::MAX };
            let witness = || json!({"kind":"client-random-extract","hello":h.kind,"prefix_len":p,"flight_len":len,"first_record_len":first_record_len,"got":format!("{:?}", got).chars().take(120).collect::<String>(),"true_random":common::hex(&h.random)});
            match &got {
                CrExtraction::Found(x) => {
                    if x[..] != h.random[..] { bad.entry("extracted value differs from the ClientHello random".into()).or_insert_with(witness); }
                    else if p < first_record_len { local.tally("extract: found before the record was complete (correct value)", 1); }
                    else { local.tally("extract: found, exact", 1); }
                }
                CrExtraction::NeedMoreData => {
                    if p >= first_record_len { bad.entry("first record complete but extractor still asks for more data".into()).or_insert_with(witness); }
                    else { local.tally("extract: need more data (record incomplete)", 1); }
                }
                CrExtraction::NotFound => {
                    if p >= first_record_len && h.complete_in_first_record { bad.entry("complete ClientHello in the first record reported as absent".into()).or_insert_with(witness); }
                    else if p < first_record_len && p >= 5 { bad.entry("incomplete first record reported as 'not found' instead of waiting for the rest".into()).or_insert_with(witness); }
                    else { local.tally("extract: absent (fragmented hello / too short)", 1); }
                }
            }
        }
        // mutations: must not panic, and never yield a wrong value for an intact random field position
        for k in 0..args.qt(40, 400) {
            let mut m = h.bytes[..h.bytes.len().min(2000)].to_vec();
            let idx = if k < 12 { [0usize, 1, 2, 3, 4, 5, 6, 7, 8, 9, 10, 43][k] } else { r.below(m.len() as u64) as usize };
            if idx >= m.len() { continue; }
            m[idx] = r.next() as u8;
            local.evals += 1;
            if let Err(e) = common::catch(|| extract_client_random(&m)) {
                bad.entry(format!("extract_client_random panicked: {}", common::panic_file(&e))).or_insert(json!({"hello":h.kind,"mutated_index":idx,"panic":e}));
            }
        }
    }
    rep.sample(json!({"hello": hs[0].kind, "flight_len": hs[0].bytes.len(), "random": common::hex(&hs[0].random)}));
    rep.sample(json!({"hello": hs[8].kind, "flight_len": hs[8].bytes.len(), "complete_in_first_record": hs[8].complete_in_first_record}));
    for (s, d) in bad { rep.violation(&s, d); }
    local.merge_into(rep);
}

/// Writes the first `limit` bytes in the given segments with a pause between them
struct Seg {
    inner: TcpStream,
    cuts: Vec<usize>,
    written: usize,
    gap: Duration,
    delay: Option<Pin<Box<tokio::time::Sleep>>>,
}

impl AsyncRead for Seg {
    fn poll_read(mut self: Pin<&mut Self>, cx: &mut Context<'_>, buf: &mut ReadBuf<'_>) -> Poll<std::io::Result<()>> {
        Pin::new(&mut self.inner).poll_read(cx, buf)
    }
}

impl AsyncWrite for Seg {
    fn poll_write(mut self: Pin<&mut Self>, cx: &mut Context<'_>, data: &[u8]) -> Poll<std::io::Result<usize>> {
        if let Some(d) = self.delay.as_mut() {
            if d.as_mut().poll(cx).is_pending() { return Poll::Pending; }
            self.delay = None;
        }
        let next_cut = self.cuts.iter().copied().find(|c| *c > self.written);
        let n = match next_cut { Some(c) => (c - self.written).min(data.len()), None => data.len() };
        match Pin::new(&mut self.inner).poll_write(cx, &data[..n]) {
            Poll::Ready(Ok(w)) => {
                self.written += w;
                if Some(self.written) == next_cut && !self.gap.is_zero() { self.delay = Some(Box::pin(tokio::time::sleep(self.gap))); }
                Poll::Ready(Ok(w))
            }
            x => x,
        }
    }
    fn poll_flush(mut self: Pin<&mut Self>, cx: &mut Context<'_>) -> Poll<std::io::Result<()>> { Pin::new(&mut self.inner).poll_flush(cx) }
    fn poll_shutdown(mut self: Pin<&mut Self>, cx: &mut Context<'_>) -> Poll<std::io::Result<()>> { Pin::new(&mut self.inner).poll_shutdown(cx) }
}

use std::future::Future;

/// real loopback sockets: the real TlsListener::listen + the rest of the real connection path
fn l1(rep: &Arc<Reporter>, args: &Args) {
    let dir = env::work_dir(&args.root, "c12");
    let rt = env::rt_multi(4);
    rt.block_on(async {
        let hosts = Hosts { main: vec![("main.test".into(), vec![])], ping: vec!["ping.test".into()], ..Default::default() };
        let (hosts_settings, certs) = build_hosts(&dir, &hosts);
        let mut opts = env::CtxOpts::default();
        let settings = env::build_settings(&mut opts);
        let ctx = Arc::new(trusttunnel::verif::ctx::Ctx::new(settings, None, hosts_settings).unwrap());
        let listener = TcpListener::bind("127.0.0.1:0").await.unwrap();
        let addr = listener.local_addr().unwrap();
        let seen: Arc<std::sync::Mutex<Vec<(Option<Vec<u8>>, Option<String>, Vec<Vec<u8>>)>>> = Default::default();
        {
            let ctx = ctx.clone(); let seen = seen.clone();
            tokio::spawn(async move {
                loop {
                    let Ok((s, peer)) = listener.accept().await else { continue };
                    let ctx = ctx.clone(); let seen = seen.clone();
                    tokio::spawn(async move {
                        match tokio::time::timeout(Duration::from_secs(10), tls_listen(s)).await {
                            Ok(Ok(acc)) => {
                                seen.lock().unwrap().push((acc.client_random(), acc.sni(), acc.alpn()));
                                let _ = tls_serve(&ctx, acc, peer.ip(), 12).await;
                            }
                            _ => seen.lock().unwrap().push((None, Some("<listen failed>".into()), vec![])),
                        }
                    });
                }
            });
        }
        let mut r = Rng::derive(args.seed, 0xc12b, 0);
        // (a) real rustls handshakes with the first flight segmented
        let n = args.qt(120, 2500);
        for i in 0..n {
            let alpn: Vec<&[u8]> = if r.chance(1, 2) { vec![b"h2", b"http/1.1"] } else { vec![b"http/1.1"] };
            let k = r.below(4) as usize;
            let mut cuts: Vec<usize> = (0..k).map(|_| r.range(1, 260) as usize).collect();
            if r.chance(1, 8) { cuts = (1..260).collect(); }
            cuts.sort(); cuts.dedup();
            let mut gap = Duration::from_millis(*r.pick(&[0u64, 2]));
            // a few flights arrive in two pieces a long pause apart (a paced or retransmitted later segment): "all arrival
            // timings of the first flight" - the random is still the one the client sent (seeded change C12e)
            if i % 40 == 7 { cuts = vec![[3usize, 20, 60, 200][(i / 40) as usize % 4]]; gap = Duration::from_millis([700u64, 1300][(i / 40) as usize % 2]); }
            let Ok(tcp) = TcpStream::connect(addr).await else { rep.inconclusive("connect failed"); continue; };
            let _ = tcp.set_nodelay(true);
            let seg = Seg { inner: tcp, cuts: cuts.clone(), written: 0, gap, delay: None };
            let received = Arc::new(std::sync::atomic::AtomicU64::new(0));
            let prefix: Arc<std::sync::Mutex<Vec<u8>>> = Default::default();
            let tap = TapAny { inner: seg, received, sent_prefix: prefix.clone() };
            let connector = tokio_rustls::TlsConnector::from(client_config(&alpn));
            let before = seen.lock().unwrap().len();
            let res = tokio::time::timeout(Duration::from_secs(10), connector.connect(rustls::ServerName::try_from("ping.test").unwrap(), tap)).await;
            rep.evals(1);
            rep.distinct(common::fnv(format!("seg|{:?}|{:?}|{}", cuts, gap, alpn.len()).as_bytes()));
            let true_random = { let g = prefix.lock().unwrap(); if g.len() >= 43 { Some(g[11..43].to_vec()) } else { None } };
            let w = json!({"kind":"client-random-l1","cuts":if cuts.len() > 8 { json!("byte-at-a-time (first 260)") } else { json!(cuts) },"gap_ms":gap.as_millis() as u64,"alpn":alpn.len(),"i":i,
                "handshake":match &res { Ok(Ok(_)) => "ok".to_string(), Ok(Err(e)) => e.to_string(), Err(_) => "timeout".into() }});
            match res {
                Ok(Ok(mut s)) => {
                    // the session works: ping host answers 200
                    let (_, conn) = s.get_ref();
                    let negotiated = conn.alpn_protocol().map(|a| a.to_vec());
                    let cert_ok = conn.peer_certificates().and_then(|c| c.first()).map(|c| Some(&c.0) == certs.get("ping.test")).unwrap_or(false);
                    if !cert_ok { rep.violation("handshake completed with another host's certificate", w.clone()); }
                    if negotiated.as_deref() == Some(b"http/1.1") || negotiated.is_none() {
                        let _ = s.write_all(b"GET / HTTP/1.1\r\nHost: ping.test\r\n\r\n").await;
                        let (got, _) = crate::kit::read_until_quiet(&mut s, Duration::from_millis(500), 4096).await;
                        if !got.starts_with(b"HTTP/1.1 200") { rep.violation("session after a segmented ClientHello does not work", w.clone()); }
                    }
                    let mine = { let g = seen.lock().unwrap(); g.get(before).cloned() };
                    match (mine, true_random) {
                        (Some((cr, sni, al)), Some(tr)) => {
                            if cr.as_deref() != Some(&tr[..]) {
                                if cr.is_none() { rep.violation("client random of a complete, unfragmented ClientHello reported as absent", w.clone()); }
                                else { rep.violation("client random differs from the one the client sent", w.clone()); }
                            } else if sni.as_deref() != Some("ping.test") || al != alpn.iter().map(|a| a.to_vec()).collect::<Vec<_>>() {
                                rep.violation("SNI/ALPN seen by the acceptor differ from the client's", w.clone());
                            } else { rep.tally("l1: segmented first flight -> exact random, SNI, ALPN, working session", 1); }
                        }
                        _ => rep.inconclusive("observation missing for a connection"),
                    }
                }
                _ => rep.violation("TLS handshake failed after peeking at a segmented ClientHello", w),
            }
        }
        // (b) synthetic large / unusual hellos written raw: random absent or exact, SNI/ALPN parsed from intact bytes
        let hs = hellos(&mut r, args.qt(10, 200));
        for h in hs.iter().filter(|h| h.kind.starts_with("synthetic")) {
            let Ok(mut tcp) = TcpStream::connect(addr).await else { continue };
            let before = seen.lock().unwrap().len();
            let k = r.below(3) as usize;
            let mut cuts: Vec<usize> = (0..k).map(|_| r.range(1, h.bytes.len() as u64 - 1) as usize).collect();
            cuts.sort(); cuts.dedup();
            let _ = crate::kit::write_segments(&mut tcp, &h.bytes, &cuts, Duration::from_millis(2)).await;
            // the acceptor reports as soon as it has parsed the hello through the wrapped stream; poll for it (bounded)
            let t0 = std::time::Instant::now();
            while seen.lock().unwrap().len() <= before && t0.elapsed() < Duration::from_secs(6) { tokio::time::sleep(Duration::from_millis(10)).await; }
            let lag = { let t = std::time::Instant::now(); tokio::time::sleep(Duration::from_millis(20)).await; t.elapsed().as_millis() as u64 };
            rep.evals(1);
            rep.distinct(common::fnv(&h.bytes));
            let mine = { let g = seen.lock().unwrap(); g.get(before).cloned() };
            let w = json!({"kind":"client-random-l1-synthetic","hello":h.kind,"flight_len":h.bytes.len(),"cuts":cuts,"observed":format!("{:?}", mine).chars().take(200).collect::<String>()});
            match mine {
                None if lag > 500 => rep.inconclusive("l1 synthetic: no observation within 6 s on a machine with > 0.5 s scheduling lag"),
                // every byte of the first flight was written 6 s ago: the TLS stack behind the peek never got the whole hello
                None => rep.violation("the TLS stack never received the complete ClientHello the client sent (bytes lost behind the peek, handshake stalled)", w),
                Some((cr, sni, al)) => {
                    if let Some(x) = &cr { if x[..] != h.random[..] { rep.violation("client random differs from the one the client sent", w.clone()); } }
                    if cr.is_none() && h.complete_in_first_record && h.bytes.len() < 16000 { rep.violation("client random of a complete, unfragmented ClientHello reported as absent", w.clone()); }
                    if sni.as_deref() == Some("<listen failed>") { rep.tally("l1 synthetic: hello refused by the TLS stack (not judged)", 1); }
                    else if sni != h.sni || al != h.alpn { rep.violation("SNI/ALPN seen by the acceptor differ from the client's (bytes altered by the peek?)", w); }
                    else { rep.tally(&format!("l1 synthetic: random {} + SNI/ALPN intact", if cr.is_some() { "exact" } else { "absent" }), 1); }
                }
            }
            drop(tcp);
        }
    });
}

/// Tap over any stream (used with Seg)
struct TapAny<T> {
    inner: T,
    #[allow(dead_code)]
    received: Arc<std::sync::atomic::AtomicU64>,
    sent_prefix: Arc<std::sync::Mutex<Vec<u8>>>,
}

impl<T: AsyncRead + Unpin> AsyncRead for TapAny<T> {
    fn poll_read(mut self: Pin<&mut Self>, cx: &mut Context<'_>, buf: &mut ReadBuf<'_>) -> Poll<std::io::Result<()>> { Pin::new(&mut self.inner).poll_read(cx, buf) }
}

impl<T: AsyncWrite + Unpin> AsyncWrite for TapAny<T> {
    fn poll_write(mut self: Pin<&mut Self>, cx: &mut Context<'_>, data: &[u8]) -> Poll<std::io::Result<usize>> {
        let r = Pin::new(&mut self.inner).poll_write(cx, data);
        if let Poll::Ready(Ok(n)) = &r {
            let mut g = self.sent_prefix.lock().unwrap();
            if g.len() < 600 { let room = 600 - g.len(); g.extend_from_slice(&data[..(*n).min(room)]); }
        }
        r
    }
    fn poll_flush(mut self: Pin<&mut Self>, cx: &mut Context<'_>) -> Poll<std::io::Result<()>> { Pin::new(&mut self.inner).poll_flush(cx) }
    fn poll_shutdown(mut self: Pin<&mut Self>, cx: &mut Context<'_>) -> Poll<std::io::Result<()>> { Pin::new(&mut self.inner).poll_shutdown(cx) }
}

pub fn run(args: &Args) -> i32 {
    let rep = Arc::new(Reporter::new(
        args,
        "exploration",
        "L0: first flights of a real rustls client and synthetic ClientHellos (padding and post-quantum-sized key shares up to > 16 KiB, legacy versions, \
         session ids, hello fragmented across records, trailing records) - the extractor is run on every prefix (sampled for long flights) and on byte \
         mutations; L1: real loopback sockets through the real TlsListener::listen + Core::on_new_tls_connection with the first flight written in seeded \
         segments (0-3 cuts or byte-at-a-time, gaps 0/2 ms, and a few flights in two pieces 0.7-1.3 s apart): extracted random vs bytes 11..43 the client wrote, SNI/ALPN, certificate and a working session. \
         distinct_nontrivial = distinct flights / segmentations.",
    ));
    rep.assume("a ClientHello fragmented across records (incl. any hello > 16 KiB) may be reported as absent, never as another value");
    rep.assume("QUIC client random is not exercised (no QUIC client in this check)");
    l0(&rep, args);
    l1(&rep, args);
    crate::props::h3_l2::c12_h3(&rep, args);
    rep.finish()
}
