//! C11 — ICMP echo tunnelling: faithful requests, valid checksums, matched replies.
//!
//! L0: checksum on seeded and *constructed double-carry* payloads, the 7.3 decoder under every
//! small segmentation, the 7.4 encoder and quote matching on built packets.
//! L2 (see c11_l2): raw ICMP on the loopback interface through the real IcmpForwarder.

use crate::common::report::Local;
use crate::common::{self, Args, Reporter, Rng};
use bytes::Bytes;
use serde_json::{json, Value};
use std::collections::BTreeMap;
use std::net::{IpAddr, Ipv4Addr, Ipv6Addr};
use std::sync::Arc;
use trusttunnel::verif::pure::{self, IcmpDecoder, IcmpIn};

/// RFC 1071 reference: one's-complement sum of 16-bit big-endian words, odd byte padded with zero
pub fn ones_sum(b: &[u8]) -> u16 {
    let mut s: u64 = 0;
    let mut i = 0;
    while i + 1 < b.len() {
        s += u16::from_be_bytes([b[i], b[i + 1]]) as u64;
        i += 2;
    }
    if i < b.len() {
        s += (b[i] as u64) << 8;
    }
    while s >> 16 != 0 {
        s = (s & 0xffff) + (s >> 16);
    }
    s as u16
}

/// true iff the 32-bit accumulation folds with a second carry
fn folds_twice(b: &[u8]) -> bool {
    let mut s: u64 = 0;
    let mut i = 0;
    while i + 1 < b.len() {
        s += u16::from_be_bytes([b[i], b[i + 1]]) as u64;
        i += 2;
    }
    if i < b.len() {
        s += (b[i] as u64) << 8;
    }
    let once = (s & 0xffff) + (s >> 16);
    once >> 16 != 0
}

fn check_echo_image(
    v6: bool,
    id: u16,
    seq: u16,
    data: &[u8],
    image: &[u8],
    bad: &mut BTreeMap<String, Value>,
    local: &mut Local,
    origin: &str,
) {
    let fam = if v6 { "ICMPv6" } else { "ICMPv4" };
    let witness = || json!({"kind":"echo-image","origin":origin,"v6":v6,"id":id,"seq":seq,"data_hex":short(data),"image_hex":short(image)});
    if image.len() != 8 + data.len()
        || image[0] != if v6 { 128 } else { 8 }
        || image[1] != 0
        || image[4..6] != id.to_be_bytes()
        || image[6..8] != seq.to_be_bytes()
        || &image[8..] != data
    {
        bad.entry(format!("{} echo image has wrong type/code/identifier/sequence/data", fam)).or_insert_with(witness);
        return;
    }
    if !v6 {
        // the kernel does not touch ICMPv4 checksums on raw sockets: it must verify as sent
        if ones_sum(image) != 0xffff {
            let mut zeroed = image.to_vec();
            zeroed[2] = 0;
            zeroed[3] = 0;
            let class = if folds_twice(&zeroed) { "double-carry payload" } else { "payload" };
            bad.entry(format!("ICMPv4 echo checksum does not verify ({})", class)).or_insert_with(witness);
        }
        if {
            let mut zeroed = image.to_vec();
            zeroed[2] = 0;
            zeroed[3] = 0;
            folds_twice(&zeroed)
        } {
            local.tally("checksum: images whose sum carries twice", 1);
        }
    }
}

fn short(b: &[u8]) -> String {
    if b.len() <= 200 { common::hex(b) } else { format!("{}..({} bytes)", common::hex(&b[..100]), b.len()) }
}

fn checksum_part(rep: &Reporter, args: &Args) {
    let n = common::workers();
    let seed = args.seed;
    let total = args.qt(2_000_000u64, 150_000_000u64);
    let results = common::parallel(n, move |shard, nshards| {
        let mut local = Local::default();
        let mut bad = BTreeMap::new();
        let mut samples: Vec<Value> = vec![];
        let mut r = Rng::derive(seed, 0xc11, shard as u64);
        // raw function vs reference on arbitrary byte strings (all lengths 0..1500 cycle through)
        let mut idx = shard as u64;
        while idx < total {
            let len = (idx % 1501) as usize;
            let mut data = r.bytes(len);
            let style = r.below(4);
            if style == 0 {
                for x in data.iter_mut() { *x |= 0xf0; } // heavy words: carries are frequent
            }
            local.evals += 1;
            let got = pure::rfc1071_checksum(&data);
            let want = !ones_sum(&data);
            // 0x0000 and 0xffff are the same value in one's-complement arithmetic
            if got != want && !(got == 0xffff && want == 0) && !(got == 0 && want == 0xffff) {
                let class = if folds_twice(&data) { "sum carries twice" } else { "other" };
                bad.entry(format!("rfc1071_checksum differs from RFC 1071 ({})", class))
                    .or_insert_with(|| json!({"kind":"checksum","data_hex":short(&data),"got":got,"want":want}));
            }
            if folds_twice(&data) { local.tally("checksum: random inputs whose sum carries twice", 1); }
            // full echo image
            if idx % 4 == 0 {
                let id = r.next() as u16;
                let seq = r.next() as u16;
                let v6 = r.chance(1, 4);
                let img = pure::echo_serialize(v6, id, seq, Bytes::from(data.clone()));
                check_echo_image(v6, id, seq, &data, &img, &mut bad, &mut local, "seeded");
                local.distinct.push(common::fnv(&img));
            }
            idx += nshards as u64;
        }
        // constructed double-carry echo images: pick the last data word so that the folded sum carries again
        let constructed = total / 20;
        let mut k = shard as u64;
        while k < constructed {
            let words = r.range(40, 740) as usize;
            let mut data: Vec<u8> = (0..words * 2).map(|_| (r.next() as u8) | 0x80).collect();
            let id = r.next() as u16;
            let seq = r.next() as u16;
            // sum of header (type 8, code 0, checksum 0, id, seq) + data with the last word zeroed
            let n = data.len();
            data[n - 2] = 0;
            data[n - 1] = 0;
            let mut s: u64 = 0x0800 + id as u64 + seq as u64;
            for c in data.chunks(2) { s += u16::from_be_bytes([c[0], c[1]]) as u64; }
            let w = 0xffffu64 - (s & 0xffff);
            data[n - 2] = (w >> 8) as u8;
            data[n - 1] = w as u8;
            let img = pure::echo_serialize(false, id, seq, Bytes::from(data.clone()));
            local.evals += 1;
            if k < 2 { samples.push(json!({"kind":"constructed double-carry echo image","id":id,"seq":seq,"data_len":data.len(),"image_prefix_hex":common::hex(&img[..16]),"ones_complement_sum_of_image":format!("{:#06x}", ones_sum(&img))})); }
            local.tally("checksum: constructed double-carry images", 1);
            check_echo_image(false, id, seq, &data, &img, &mut bad, &mut local, "constructed double-carry");
            local.distinct.push(common::fnv(&img));
            k += nshards as u64;
        }
        (local, bad, samples)
    });
    for (local, bad, samples) in results {
        for (s, d) in bad { rep.violation(&s, d); }
        for s in samples { rep.sample(s); }
        local.merge_into(rep);
    }
}

/// 7.3 record
fn rec73(id: u16, dst: IpAddr, seq: u16, ttl: u8, size: u16) -> Vec<u8> {
    let mut v = vec![];
    v.extend_from_slice(&id.to_be_bytes());
    match dst {
        IpAddr::V4(x) => { v.extend_from_slice(&[0; 12]); v.extend_from_slice(&x.octets()); }
        IpAddr::V6(x) => v.extend_from_slice(&x.octets()),
    }
    v.extend_from_slice(&seq.to_be_bytes());
    v.push(ttl);
    v.extend_from_slice(&size.to_be_bytes());
    v
}

fn decode_stream(chunks: &[&[u8]]) -> Vec<IcmpIn> {
    let mut dec = IcmpDecoder::new();
    let mut out = vec![];
    for c in chunks {
        if c.is_empty() { continue; }
        let mut pending = Some(Bytes::copy_from_slice(c));
        while let Some(b) = pending.take() {
            if let Some((d, tail)) = dec.decode_chunk(b) {
                out.push(d);
                if !tail.is_empty() { pending = Some(tail); }
            }
        }
    }
    out
}

fn codec_part(rep: &Reporter, args: &Args) {
    let mut r = Rng::derive(args.seed, 0xc11c, 0);
    let dsts: Vec<IpAddr> = vec![
        IpAddr::V4(Ipv4Addr::new(127, 0, 0, 1)),
        IpAddr::V4(Ipv4Addr::new(8, 8, 8, 8)),
        IpAddr::V4(Ipv4Addr::new(0, 0, 0, 1)),
        IpAddr::V6(Ipv6Addr::LOCALHOST),
        IpAddr::V6("2001:4860:4860::8888".parse().unwrap()),
        IpAddr::V6("::ffff:1.2.3.4".parse().unwrap()),
    ];
    let mut local = Local::default();
    let mut bad: BTreeMap<String, Value> = BTreeMap::new();
    let nseq = args.qt(400, 6000);
    for s in 0..nseq {
        let cnt = r.range(1, 3) as usize;
        let mut stream = vec![];
        let mut want = vec![];
        for _ in 0..cnt {
            let id = r.next() as u16;
            let dst = *r.pick(&dsts);
            let seq = r.next() as u16;
            let ttl = *r.pick(&[0u8, 1, 64, 255]);
            let size = *r.pick(&[0u16, 1, 56, 1400]);
            stream.extend(rec73(id, dst, seq, ttl, size));
            // PROTOCOL.md 11.2: ::1 is IPv6; 0.0.0.1 therefore cannot be expressed (it reads as ::1)
            let dst_ref = if dst == IpAddr::V4(Ipv4Addr::new(0, 0, 0, 1)) { IpAddr::V6(Ipv6Addr::LOCALHOST) } else { dst };
            want.push((id, dst_ref, seq, ttl, size));
        }
        // a trailing partial record must yield nothing
        let partial = r.below(23) as usize;
        stream.extend(r.bytes(partial));
        local.distinct.push(common::fnv(&stream));
        let len = stream.len();
        let mut segs: Vec<Vec<usize>> = vec![vec![], (1..len).collect()];
        for a in 1..len { segs.push(vec![a]); }
        if len <= 50 || s % 4 == 0 {
            for a in 1..len { for b in a + 1..len { segs.push(vec![a, b]); } }
        }
        for cuts in segs {
            let mut chunks: Vec<&[u8]> = vec![];
            let mut p = 0;
            for c in &cuts { chunks.push(&stream[p..*c]); p = *c; }
            chunks.push(&stream[p..]);
            local.evals += 1;
            let got = match common::catch(|| decode_stream(&chunks)) {
                Ok(g) => g,
                Err(e) => { bad.entry(format!("ICMP request decoder panicked: {}", common::panic_file(&e))).or_insert(json!({"kind":"icmp-decode","stream_hex":common::hex(&stream),"cuts":cuts,"panic":e})); continue; }
            };
            let ok = got.len() == want.len() && got.iter().zip(want.iter()).all(|(g, w)| {
                g.identifier == w.0 && g.peer == w.1 && g.sequence_number == w.2 && g.ttl == w.3 && g.data_len == w.4 as usize
                    && g.is_v6_message == w.1.is_ipv6()
            });
            if !ok {
                let class = if want.iter().any(|w| w.1 == IpAddr::V6(Ipv6Addr::LOCALHOST)) { " (record with ::1 destination)" } else { "" };
                bad.entry(format!("decoded echo requests differ from PROTOCOL.md 7.3{}", class))
                    .or_insert(json!({"kind":"icmp-decode","stream_hex":common::hex(&stream),"cuts":cuts,"decoded":got.len(),"expected":want.len()}));
                continue;
            }
            for (g, w) in got.iter().zip(want.iter()) {
                let img = &g.serialized;
                check_echo_image(w.1.is_ipv6(), w.0, w.2, &img[8.min(img.len())..].to_vec(), img, &mut bad, &mut local, "decoded request");
            }
        }
    }
    local.tally("7.3 decode: (stream, segmentation) pairs", local.evals);
    for (s, d) in bad { rep.violation(&s, d); }
    local.merge_into(rep);
}

// ---- packets for 7.4 / quote matching ----

fn ipv4_header(proto: u8, src: Ipv4Addr, dst: Ipv4Addr, options: usize, payload_len: usize) -> Vec<u8> {
    let ihl = 5 + options / 4;
    let mut h = vec![0u8; ihl * 4];
    h[0] = 0x40 | ihl as u8;
    let total = (ihl * 4 + payload_len) as u16;
    h[2..4].copy_from_slice(&total.to_be_bytes());
    h[8] = 64;
    h[9] = proto;
    h[12..16].copy_from_slice(&src.octets());
    h[16..20].copy_from_slice(&dst.octets());
    for i in 20..ihl * 4 { h[i] = 1; } // NOP options
    h
}

fn ipv6_header(next: u8, payload_len: usize) -> Vec<u8> {
    let mut h = vec![0u8; 40];
    h[0] = 0x60;
    h[4..6].copy_from_slice(&(payload_len as u16).to_be_bytes());
    h[6] = next;
    h[7] = 64;
    h[23] = 1;
    h[39] = 2;
    h
}

fn echo_req(v6: bool, id: u16, seq: u16, data: &[u8]) -> Vec<u8> {
    let mut p = vec![if v6 { 128 } else { 8 }, 0, 0, 0];
    p.extend_from_slice(&id.to_be_bytes());
    p.extend_from_slice(&seq.to_be_bytes());
    p.extend_from_slice(data);
    let c = !ones_sum(&p);
    p[2..4].copy_from_slice(&c.to_be_bytes());
    p
}

fn icmp_msg(t: u8, code: u8, rest4: [u8; 4], body: &[u8]) -> Vec<u8> {
    let mut p = vec![t, code, 0, 0];
    p.extend_from_slice(&rest4);
    p.extend_from_slice(body);
    let c = !ones_sum(&p);
    p[2..4].copy_from_slice(&c.to_be_bytes());
    p
}

fn expect_record(id: u16, peer: IpAddr, t: u8, code: u8, seq: u16) -> Vec<u8> {
    let mut v = vec![];
    v.extend_from_slice(&id.to_be_bytes());
    match peer {
        IpAddr::V4(x) => { v.extend_from_slice(&[0; 12]); v.extend_from_slice(&x.octets()); }
        IpAddr::V6(x) => v.extend_from_slice(&x.octets()),
    }
    v.push(t);
    v.push(code);
    v.extend_from_slice(&seq.to_be_bytes());
    v
}

fn reply_part(rep: &Reporter, args: &Args) {
    let mut r = Rng::derive(args.seed, 0xc11d, 0);
    let mut local = Local::default();
    let mut bad: BTreeMap<String, Value> = BTreeMap::new();
    let rounds = args.qt(2000, 100_000);
    let peer4 = IpAddr::V4(Ipv4Addr::new(192, 0, 2, 77));
    let peer6: IpAddr = "2001:db8::77".parse().unwrap();
    for _ in 0..rounds {
        let id = r.next() as u16;
        let seq = r.next() as u16;
        let dlen = *r.pick(&[0usize, 1, 8, 56, 64]);
        let data = r.bytes(dlen);
        // (description, v6, packet, expectation: Some(type,code) = must be reported with request ids; None = must not be reported)
        let mut cases: Vec<(String, bool, Vec<u8>, Option<(u8, u8)>, bool)> = vec![];
        // echo replies
        {
            let mut p = echo_req(false, id, seq, &data); p[0] = 0; let c = { p[2] = 0; p[3] = 0; !ones_sum(&p) }; p[2..4].copy_from_slice(&c.to_be_bytes());
            cases.push(("v4 echo reply".into(), false, p, Some((0, 0)), false));
            let mut p = echo_req(true, id, seq, &data); p[0] = 129;
            cases.push(("v6 echo reply".into(), true, p, Some((129, 0)), false));
        }
        // v4 errors quoting the request with 0..40 bytes of IP options, quote = header + 8 bytes or the whole packet
        for opts in [0usize, 4, 20, 40] {
            for whole in [false, true] {
                let req = echo_req(false, id, seq, &data);
                let mut quote = ipv4_header(1, Ipv4Addr::new(10, 0, 0, 1), Ipv4Addr::new(192, 0, 2, 77), opts, req.len());
                if whole { quote.extend_from_slice(&req); } else { quote.extend_from_slice(&req[..8]); }
                for (t, code, rest) in [(3u8, 1u8, [0u8; 4]), (3, 3, [0; 4]), (11, 0, [0; 4]), (12, 0, [20, 0, 0, 0]), (4, 0, [0; 4]), (5, 1, [10, 0, 0, 254])] {
                    cases.push((format!("v4 type {} code {} quoting request, {} option bytes, {}", t, code, opts, if whole { "whole packet" } else { "8 bytes" }),
                                false, icmp_msg(t, code, rest, &quote), Some((t, code)), false));
                }
            }
        }
        // v6 errors quoting the request (no extension headers: MUST), with extension chains (EITHER)
        {
            let req = echo_req(true, id, seq, &data);
            let mut quote = ipv6_header(58, req.len());
            quote.extend_from_slice(&req);
            for (t, code, rest) in [(1u8, 0u8, [0u8; 4]), (1, 4, [0; 4]), (2, 0, [0, 0, 5, 0]), (3, 0, [0; 4]), (4, 1, [0, 0, 0, 40])] {
                cases.push((format!("v6 type {} code {} quoting request", t, code), true, icmp_msg(t, code, rest, &quote), Some((t, code)), false));
            }
            // hop-by-hop (8 bytes, ext len 0) then ICMPv6: well formed, but the request itself never has one: EITHER
            let mut q2 = ipv6_header(0, 8 + req.len());
            q2.extend_from_slice(&[58, 0, 1, 4, 0, 0, 0, 0]);
            q2.extend_from_slice(&req);
            cases.push(("v6 unreachable quoting a packet with a hop-by-hop header".into(), true, icmp_msg(1, 0, [0; 4], &q2), Some((1, 0)), true));
            // a large echo request is fragmented by the sender's stack: the error quotes the first fragment, whose Fragment
            // header (8 bytes, next header 58) sits between the IPv6 header and the echo request: MUST be matched
            for ident in [0u32, 0x80, 0x1234_5680, 0xffff_ffff] {
                let mut q5 = ipv6_header(44, 8 + req.len());
                q5.extend_from_slice(&[58, 0, 0, 1]);
                q5.extend_from_slice(&ident.to_be_bytes());
                q5.extend_from_slice(&req);
                cases.push((format!("v6 time exceeded quoting the first fragment of the request (fragment id {:#x})", ident), true, icmp_msg(3, 0, [0; 4], &q5), Some((3, 0)), false));
            }
            // crafted extension length running past the end of the quote: must not panic, must not be reported
            let mut q3 = ipv6_header(0, 8);
            q3.extend_from_slice(&[58, 200, 0, 0, 0, 0, 0, 0]);
            cases.push(("v6 unreachable quoting a hop-by-hop header whose length runs past the packet".into(), true, icmp_msg(1, 0, [0; 4], &q3), None, false));
            let mut q4 = ipv6_header(43, 2);
            q4.extend_from_slice(&[0, 255]);
            while q4.len() < 48 { q4.push(0); }
            cases.push(("v6 time exceeded quoting a routing header with length 255 and 6 bytes left".into(), true, icmp_msg(3, 0, [0; 4], &q4), None, false));
        }
        // quotes of other protocols / not a request: must not be reported
        {
            let mut quote = ipv4_header(17, Ipv4Addr::new(10, 0, 0, 1), Ipv4Addr::new(192, 0, 2, 77), 0, 8);
            quote.extend_from_slice(&[0x12, 0x34, 0, 53, 0, 8, 0, 0]);
            cases.push(("v4 unreachable quoting a UDP packet".into(), false, icmp_msg(3, 3, [0; 4], &quote), None, false));
            let mut rep_q = echo_req(false, id, seq, &data); rep_q[0] = 0;
            let mut quote = ipv4_header(1, Ipv4Addr::new(10, 0, 0, 1), Ipv4Addr::new(192, 0, 2, 77), 0, rep_q.len());
            quote.extend_from_slice(&rep_q[..8]);
            cases.push(("v4 unreachable quoting an echo REPLY".into(), false, icmp_msg(3, 1, [0; 4], &quote), None, false));
            cases.push(("v4 echo request (not a reply)".into(), false, echo_req(false, id, seq, &data), None, false));
            cases.push(("v6 echo request (not a reply)".into(), true, echo_req(true, id, seq, &data), None, false));
            // truncated quote: IP header only
            let quote = ipv4_header(1, Ipv4Addr::new(10, 0, 0, 1), Ipv4Addr::new(192, 0, 2, 77), 0, 0);
            let mut q = quote.clone(); q.extend_from_slice(&[8, 0, 0, 0, 0, 0, 0]); // 27 bytes < 28
            cases.push(("v4 unreachable with a quote truncated inside the echo header".into(), false, icmp_msg(3, 1, [0; 4], &q), None, false));
            // quote truncated inside the echo header *behind IP options* (1..7 bytes of it left): nothing to match
            for opts in [4usize, 8, 20, 40] {
                let k = r.range(1, 7) as usize;
                let mut q = ipv4_header(1, Ipv4Addr::new(10, 0, 0, 1), Ipv4Addr::new(192, 0, 2, 77), opts, 8);
                q.extend_from_slice(&echo_req(false, id, seq, &[])[..k]);
                cases.push((format!("v4 unreachable, {} option bytes, quote truncated {} bytes into the echo header", opts, k), false, icmp_msg(3, 1, [0; 4], &q), None, false));
            }
            // IHL pointing past the quote
            let mut q = ipv4_header(1, Ipv4Addr::new(10, 0, 0, 1), Ipv4Addr::new(192, 0, 2, 77), 0, 8);
            q[0] = 0x4f;
            q.extend_from_slice(&echo_req(false, id, seq, &[])[..8]);
            cases.push(("v4 unreachable quoting a header whose IHL runs past the quote".into(), false, icmp_msg(3, 1, [0; 4], &q), None, true));
        }
        for (desc, v6, pkt, expect, either) in cases {
            local.evals += 1;
            local.distinct.push(common::fnv(&pkt));
            let peer = if v6 { peer6 } else { peer4 };
            let got = common::catch(|| pure::icmp_encode_reply(v6, peer, Bytes::from(pkt.clone())));
            let witness = || json!({"kind":"icmp-reply","case":desc,"v6":v6,"packet_hex":short(&pkt),"id":id,"seq":seq});
            match got {
                Err(p) => { bad.entry(format!("ICMP reply handling panicked on: {}", strip_digits(&desc))).or_insert_with(|| { let mut w = witness(); w["panic"] = json!(p); w }); }
                Ok(Err(_deser)) => {
                    if expect.is_some() && !either { bad.entry(format!("well-formed message rejected: {}", strip_digits(&desc))).or_insert_with(witness); }
                    else { local.tally("reply: malformed/foreign message rejected", 1); }
                }
                Ok(Ok(None)) => {
                    if expect.is_some() && !either { bad.entry(format!("reply/error for a pending request not reported: {}", strip_digits(&desc))).or_insert_with(witness); }
                    else if either { local.tally("reply: EITHER case not reported", 1); }
                    else { local.tally("reply: unrelated message not reported", 1); }
                }
                Ok(Ok(Some(rec))) => match expect {
                    Some((t, code)) => {
                        if rec[..] != expect_record(id, peer, t, code, seq)[..] {
                            if either { local.tally("reply: EITHER case reported differently", 1); }
                            else { bad.entry(format!("7.4 record differs from the reference: {}", strip_digits(&desc))).or_insert_with(|| { let mut w = witness(); w["record_hex"] = json!(common::hex(&rec)); w }); }
                        } else {
                            local.tally("reply: reported with matching 7.4 record", 1);
                        }
                    }
                    None => { if !either { bad.entry(format!("unrelated/malformed message reported to a client: {}", strip_digits(&desc))).or_insert_with(witness); } }
                },
            }
        }
    }
    for (s, d) in bad { rep.violation(&s, d); }
    local.merge_into(rep);
}

fn strip_digits(s: &str) -> String {
    s.to_string()
}

pub fn run(args: &Args) -> i32 {
    if args.has_flag("--l2-errors-child") { return crate::props::c11_l2::errors_child(args); }
    let rep = Arc::new(Reporter::new(
        args,
        "exploration",
        "L0: (a) checksum: seeded byte strings of every length 0..1500 (plain and carry-heavy) and echo images whose last data word is \
         solved so the folded sum carries a second time; (b) 7.3 decoder: seeded streams of 1-3 records + partial tail under whole / \
         byte-at-a-time / every 1-cut / every 2-cut; (c) 7.4 + quote matching: echo replies, v4 errors with 0-40 option bytes, v6 errors, \
         extension chains, truncated/foreign quotes. distinct_nontrivial = distinct wire images / streams / packets. L2: see coverage.l2.",
    ));
    rep.assume("ICMPv6 checksums are computed by the kernel on raw ICMPv6 sockets; only ICMPv4 images must verify as serialised");
    rep.assume("quotes carrying IPv6 extension headers are EITHER (the endpoint's own requests never carry one); they must not panic");
    if args.replay.is_some() {
        println!("replay re-runs the deterministic L0 parts with the recorded seed");
    }
    checksum_part(&rep, args);
    codec_part(&rep, args);
    reply_part(&rep, args);
    crate::props::c11_l2::run_l2(&rep, args);
    crate::props::c11_l2::run_errors(&rep, args);
    rep.finish()
}
