//! C17 — plain-HTTP forwarding preserves requests and response bodies byte for byte.
//!
//! The real `http_forwarded_stream::into_forwarded` on a mirror HTTP stream (request head,
//! scripted body source, recording responder + scripted client sink) and the real DuplexPipe
//! against a scripted origin that delivers its response in segments.

use crate::common::report::Local;
use crate::common::{self, Args, Reporter, Rng};
use crate::env;
use crate::script::*;
use bytes::Bytes;
use serde_json::{json, Value};
use std::collections::BTreeMap;
use std::sync::{Arc, Mutex};
use std::time::Duration;
use tokio::time::Instant;
use trusttunnel::verif::pipes::{run_duplex_pipe, VSink};
use trusttunnel::verif::tunnel::{into_forwarded, MirrorStream, Stream, VRespond};

const TICK_US: u64 = 1_000_000;

#[derive(Clone, Debug, PartialEq, Eq, Hash)]
pub enum Framing {
    ContentLength,
    /// chunk sizes; extension text on each chunk line; trailer section
    Chunked { sizes: Vec<usize>, ext: bool, trailers: bool },
    CloseDelimited,
    /// Transfer-Encoding: chunked AND Content-Length (chunked wins per RFC 9112 6.3)
    Both { sizes: Vec<usize> },
}

#[derive(Clone, Debug, PartialEq, Eq, Hash)]
pub struct OriginResp {
    pub interim: Vec<u16>,
    pub status: u16,
    pub body_len: usize,
    pub framing: Framing,
    /// bytes the origin sends after the end of the body
    pub extra_after: usize,
    pub hop_headers: bool,
}

#[derive(Clone, Debug, PartialEq, Eq, Hash)]
pub struct Case {
    pub key: u64,
    pub version: u8, // 1 = HTTP/1.1 client, 2 = HTTP/2, 3 = HTTP/3
    pub method: &'static str,
    pub req_body: Option<usize>, // Some(n): Content-Length n; None: no body / unframed (h2 streaming when >0 marker)
    pub req_stream_body: usize,  // body bytes of an HTTP/2-3 request without Content-Length
    pub origin: OriginResp,
    pub cuts: Vec<usize>,
    pub quotas: Vec<usize>,
    pub writable_delays: Vec<u64>,
    /// the origin keeps its connection open for 120 virtual seconds after its last byte (keep-alive origin):
    /// the end of the exchange must not depend on the origin closing
    pub origin_keeps_open: bool,
}

fn body_bytes(key: u64, n: usize) -> Vec<u8> {
    crate::common::prng::coded_stream(key, 7, 0, n)
}

fn bodiless(case: &Case) -> bool {
    case.method == "HEAD" || case.origin.status == 204 || case.origin.status == 304
}

thread_local! {
    /// C09 feeds arbitrary origin byte streams through the same runner
    pub static ORIGIN_OVERRIDE: std::cell::RefCell<Option<Vec<u8>>> = const { std::cell::RefCell::new(None) };
}

pub fn origin_bytes(case: &Case) -> Vec<u8> {
    if let Some(o) = ORIGIN_OVERRIDE.with(|o| o.borrow().clone()) {
        return o;
    }
    let o = &case.origin;
    let mut v = vec![];
    for i in &o.interim {
        v.extend_from_slice(format!("HTTP/1.1 {} Interim\r\nX-Interim: {}\r\n\r\n", i, i).as_bytes());
    }
    let body = body_bytes(case.key, o.body_len);
    v.extend_from_slice(format!("HTTP/1.1 {} Reason\r\nServer: origin\r\nX-Custom: v1\r\n", o.status).as_bytes());
    if o.hop_headers {
        v.extend_from_slice(b"Connection: keep-alive, X-Hop\r\nKeep-Alive: timeout=5\r\nX-Hop: secret-hop\r\nProxy-Connection: keep-alive\r\n");
    }
    let no_body = bodiless(case);
    let chunked = |sizes: &Vec<usize>, ext: bool, trailers: bool| -> Vec<u8> {
        let mut out = vec![];
        let mut pos = 0;
        let mut i = 0;
        while pos < body.len() {
            let n = sizes[i % sizes.len()].max(1).min(body.len() - pos);
            out.extend_from_slice(format!("{:x}{}\r\n", n, if ext { ";ext=1" } else { "" }).as_bytes());
            out.extend_from_slice(&body[pos..pos + n]);
            out.extend_from_slice(b"\r\n");
            pos += n;
            i += 1;
        }
        out.extend_from_slice(b"0\r\n");
        if trailers { out.extend_from_slice(b"X-Trailer: t\r\n"); }
        out.extend_from_slice(b"\r\n");
        out
    };
    match &o.framing {
        Framing::ContentLength => {
            v.extend_from_slice(format!("Content-Length: {}\r\n\r\n", o.body_len).as_bytes());
            if !no_body { v.extend_from_slice(&body); }
        }
        Framing::Chunked { sizes, ext, trailers } => {
            v.extend_from_slice(b"Transfer-Encoding: chunked\r\n\r\n");
            if !no_body { v.extend_from_slice(&chunked(sizes, *ext, *trailers)); }
        }
        Framing::Both { sizes } => {
            v.extend_from_slice(format!("Transfer-Encoding: chunked\r\nContent-Length: {}\r\n\r\n", o.body_len + 1).as_bytes());
            if !no_body { v.extend_from_slice(&chunked(sizes, false, false)); }
        }
        Framing::CloseDelimited => {
            v.extend_from_slice(b"\r\n");
            if !no_body { v.extend_from_slice(&body); }
        }
    }
    v.extend_from_slice(&vec![b'!'; o.extra_after]);
    v
}

#[derive(Default)]
pub struct RespLog {
    pub interim: Vec<u16>,
    pub finals: Vec<(u16, Vec<(String, String)>, bool)>,
}

struct Responder {
    log: Arc<Mutex<RespLog>>,
    sink_script: SinkScript,
    sink_log_out: Arc<Mutex<Option<SharedLog>>>,
    t0: Instant,
}

impl VRespond for Responder {
    fn send_intermediate(&self, r: http::response::Parts) -> std::io::Result<()> {
        self.log.lock().unwrap().interim.push(r.status.as_u16());
        Ok(())
    }
    fn send_response(self: Box<Self>, r: http::response::Parts, eof: bool) -> std::io::Result<Box<dyn VSink>> {
        let headers = r.headers.iter().map(|(n, v)| (n.as_str().to_string(), String::from_utf8_lossy(v.as_bytes()).to_string())).collect();
        self.log.lock().unwrap().finals.push((r.status.as_u16(), headers, eof));
        let (sink, log) = ScriptSink::new(&self.sink_script, self.t0);
        *self.sink_log_out.lock().unwrap() = Some(log);
        Ok(Box::new(sink))
    }
}

pub struct Out {
    pub result: Result<(), String>,
    pub stalled: bool,
    pub resp: Arc<Mutex<RespLog>>,
    pub client_sink: Option<SharedLog>,
    pub origin_sink: SharedLog,
    pub into_forwarded_err: Option<String>,
}

fn request_parts(case: &Case) -> http::request::Parts {
    let version = match case.version { 1 => http::Version::HTTP_11, 2 => http::Version::HTTP_2, _ => http::Version::HTTP_3 };
    let mut b = http::Request::builder().method(case.method).uri("http://origin.test:8080/a/b?c=d&e=f").version(version)
        .header("accept", "*/*").header("x-req", "r1").header("proxy-authorization", "Basic dTpw").header("proxy-connection", "keep-alive").header("user-agent", "ua/1");
    if case.version == 1 { b = b.header("host", "origin.test:8080"); }
    if let Some(n) = case.req_body { b = b.header("content-length", n.to_string()); }
    b.body(()).unwrap().into_parts().0
}

pub async fn run_case(case: &Case) -> Out {
    let t0 = Instant::now();
    let resp: Arc<Mutex<RespLog>> = Default::default();
    let sink_log_out: Arc<Mutex<Option<SharedLog>>> = Default::default();
    let body_n = case.req_body.unwrap_or(case.req_stream_body);
    let mut body_steps = vec![];
    if body_n > 0 {
        let half = body_n / 2;
        if half > 0 { body_steps.push(SrcStep::Chunk(half)); }
        body_steps.push(SrcStep::Chunk(body_n - half));
    }
    body_steps.push(SrcStep::Eof);
    let (body_src, _body_log) = ScriptSource::new(case.key, 9, &SrcScript { steps: body_steps, consume_fault: None }, t0);
    let mirror = MirrorStream {
        request: request_parts(case),
        client_address: "198.51.100.7".parse().unwrap(),
        source: Box::new(body_src),
        respond: Box::new(Responder {
            log: resp.clone(),
            sink_script: SinkScript { quotas: case.quotas.clone(), writable_delays: case.writable_delays.clone(), flush_delay: 0, fault: None },
            sink_log_out: sink_log_out.clone(),
            t0,
        }),
    };
    let (fsrc, fsnk) = match into_forwarded(Stream::from_mirror(mirror, 17)) {
        Ok(x) => x,
        Err(e) => {
            let (_k, l) = ScriptSink::new(&SinkScript::default(), t0);
            return Out { result: Err(e.to_string()), stalled: false, resp, client_sink: None, origin_sink: l, into_forwarded_err: Some(e.to_string()) };
        }
    };
    // origin: receives the forwarded request, answers in segments once the request head arrived, then closes
    let ob = origin_bytes(case);
    let mut steps = vec![SrcStep::Delay(TICK_US)];
    let mut prev = 0;
    for c in case.cuts.iter().chain(std::iter::once(&ob.len())) {
        if *c > prev && *c <= ob.len() {
            steps.push(SrcStep::Chunk(*c - prev));
            prev = *c;
        }
    }
    steps.push(SrcStep::Delay(if case.origin_keeps_open { 120_000_000 } else { TICK_US }));
    steps.push(SrcStep::Eof);
    // the origin's bytes are not position-coded: use a source that serves `ob`
    let origin_src = BytesSource { data: Bytes::from(ob), steps: steps.into(), wake: None };
    let (origin_sink, origin_log) = ScriptSink::new(&SinkScript::default(), t0);
    let fut = run_duplex_pipe(
        (Box::new(fsrc), Box::new(fsnk)),
        (Box::new(origin_src), Box::new(origin_sink)),
        Duration::from_secs(300),
        |_, _| {},
    );
    let (result, stalled) = match tokio::time::timeout(Duration::from_secs(5000), fut).await {
        Ok(r) => (r.map_err(|e| format!("{:?}: {}", e.kind(), e)), false),
        Err(_) => (Err("stalled".into()), true),
    };
    let client_sink = sink_log_out.lock().unwrap().clone();
    Out { result, stalled, resp, client_sink, origin_sink: origin_log, into_forwarded_err: None }
}

struct BytesSource {
    data: Bytes,
    steps: std::collections::VecDeque<SrcStep>,
    wake: Option<Instant>,
}

#[async_trait::async_trait]
impl trusttunnel::verif::pipes::VSource for BytesSource {
    async fn read(&mut self) -> std::io::Result<Option<Bytes>> {
        loop {
            if let Some(w) = self.wake {
                tokio::time::sleep_until(w).await;
                self.wake = None;
            }
            match self.steps.front().cloned() {
                Some(SrcStep::Delay(us)) => {
                    self.steps.pop_front();
                    self.wake = Some(Instant::now() + Duration::from_micros(us));
                }
                Some(SrcStep::Chunk(n)) => {
                    self.steps.pop_front();
                    return Ok(Some(self.data.split_to(n.min(self.data.len()))));
                }
                Some(SrcStep::Eof) | None => return Ok(None),
                Some(SrcStep::Error) => return Err(std::io::ErrorKind::ConnectionReset.into()),
            }
        }
    }
    fn consume(&mut self, _n: usize) -> std::io::Result<()> {
        Ok(())
    }
}

/// origins that violate HTTP framing themselves (bytes after the declared body, conflicting
/// framing headers) or use chunked trailers (not among the response forms the property lists):
/// only termination, no-panic and no-spin are judged for them
pub fn hostile(case: &Case) -> bool {
    matches!(case.origin.framing, Framing::Both { .. } | Framing::Chunked { trailers: true, .. }) || (case.origin.extra_after > 0 && !matches!(case.origin.framing, Framing::CloseDelimited))
        || (case.origin.extra_after > 0 && bodiless(case))
}

fn judge(case: &Case, o: &Out) -> Vec<(String, String)> {
    let mut bad = vec![];
    if hostile(case) {
        if o.stalled { bad.push(("exchange never terminated (origin violating its own framing)".into(), String::new())); }
        if let Some(l) = &o.client_sink {
            if l.lock().unwrap().spin_detected { bad.push(("translator re-offers data in a busy loop while the client sink is not writable".into(), String::new())); }
        }
        return bad;
    }
    let vname = match case.version { 1 => "HTTP/1.1", 2 => "HTTP/2", _ => "HTTP/3" };
    if let Some(e) = &o.into_forwarded_err {
        bad.push((format!("{} request refused by the translator", vname), e.clone()));
        return bad;
    }
    // ---- request as the origin received it ----
    let req = o.origin_sink.lock().unwrap().received.clone();
    let mut headers = [httparse::EMPTY_HEADER; 64];
    let mut r = httparse::Request::new(&mut headers);
    match r.parse(&req) {
        Ok(httparse::Status::Complete(n)) => {
            if r.method != Some(case.method) || r.path != Some("/a/b?c=d&e=f") || r.version != Some(1) {
                bad.push(("forwarded request line differs (method/path/version)".into(), format!("{:?} {:?} {:?}", r.method, r.path, r.version)));
            }
            let hs: Vec<(String, String)> = r.headers.iter().map(|h| (h.name.to_lowercase(), String::from_utf8_lossy(h.value).to_string())).collect();
            let get = |n: &str| hs.iter().filter(|(k, _)| k == n).map(|(_, v)| v.clone()).collect::<Vec<_>>();
            if get("host") != vec!["origin.test:8080".to_string()] { bad.push(("forwarded request lacks exactly one correct Host header".into(), format!("{:?}", get("host")))); }
            if !get("proxy-authorization").is_empty() || !get("proxy-connection").is_empty() { bad.push(("proxy hop-by-hop header forwarded to the origin".into(), String::new())); }
            for (k, v) in [("accept", "*/*"), ("x-req", "r1"), ("user-agent", "ua/1")] {
                if get(k) != vec![v.to_string()] { bad.push(("end-to-end request header lost or altered".into(), format!("{}: {:?}", k, get(k)))); }
            }
            let body = &req[n..];
            let want = crate::common::prng::coded_stream(case.key, 9, 0, case.req_body.unwrap_or(case.req_stream_body));
            if let Some(nb) = case.req_body {
                if get("content-length") != vec![nb.to_string()] { bad.push(("Content-Length of the forwarded request differs".into(), format!("{:?}", get("content-length")))); }
                if body != &want[..] && case.method != "HEAD" { bad.push(("forwarded request body differs from the client's".into(), format!("{} vs {} bytes", body.len(), want.len()))); }
            } else if case.req_stream_body > 0 && case.method != "HEAD" {
                // a body without Content-Length must be framed: chunked (decoded here) or a length header
                let te = get("transfer-encoding");
                if te.iter().any(|v| v.to_lowercase().contains("chunked")) {
                    match dechunk(body) { Some(d) if d == want => {}, other => bad.push(("chunk-framed request body differs from the client's".into(), format!("{:?}", other.map(|d| d.len())))) }
                } else if get("content-length").is_empty() {
                    bad.push((format!("{} request body without Content-Length forwarded with no framing at all", vname), format!("{} body bytes follow the head", body.len())));
                }
            } else if !body.is_empty() {
                bad.push(("bytes follow a body-less forwarded request".into(), format!("{}", body.len())));
            }
        }
        other => bad.push(("forwarded request is not a complete HTTP/1.1 head".into(), format!("{:?}", other.map(|_| ())))),
    }
    // ---- response as the client received it ----
    let resp = o.resp.lock().unwrap();
    if o.stalled {
        bad.push(("exchange never terminated".into(), String::new()));
        return bad;
    }
    if case.version == 1 && resp.interim != case.origin.interim {
        bad.push(("interim 1xx responses not delivered to the HTTP/1.1 client".into(), format!("{:?} vs {:?}", resp.interim, case.origin.interim)));
    }
    if resp.finals.len() != 1 {
        bad.push((format!("{} final responses delivered to the client (1xx prefix: {})", resp.finals.len(), !case.origin.interim.is_empty()), o.result.clone().err().unwrap_or_default()));
        return bad;
    }
    let (status, headers, eof_flag) = &resp.finals[0];
    if *status != case.origin.status { bad.push(("response status altered".into(), format!("{} vs {}", status, case.origin.status))); }
    let hget = |n: &str| headers.iter().filter(|(k, _)| k == n).map(|(_, v)| v.clone()).collect::<Vec<_>>();
    if hget("x-custom") != vec!["v1".to_string()] || hget("server") != vec!["origin".to_string()] { bad.push(("end-to-end response header lost or altered".into(), format!("{:?}", headers))); }
    if case.origin.hop_headers && (!hget("keep-alive").is_empty() || !hget("proxy-connection").is_empty() || !hget("x-hop").is_empty()) {
        bad.push(("hop-by-hop response header delivered to the client".into(), format!("{:?}", headers)));
    }
    if case.version != 1 && !hget("transfer-encoding").is_empty() { bad.push(("Transfer-Encoding delivered to an HTTP/2-3 client".into(), String::new())); }
    let expect_body = if bodiless(case) { vec![] } else { body_bytes(case.key, case.origin.body_len) };
    let chunked_origin = matches!(case.origin.framing, Framing::Chunked { .. } | Framing::Both { .. });
    // HTTP/1.1 clients get the origin's framing unchanged; HTTP/2-3 clients get the de-chunked body
    let (got, eofs) = match &o.client_sink {
        Some(l) => { let l = l.lock().unwrap(); (l.received.clone(), l.eof_calls) }
        None => (vec![], 0),
    };
    let got_body = if case.version == 1 && chunked_origin && !bodiless(case) {
        match dechunk(&got) { Some(d) => d, None => { bad.push(("chunked body relayed to the HTTP/1.1 client is not well-formed chunked coding".into(), format!("{} bytes", got.len()))); return bad; } }
    } else {
        got.clone()
    };
    let extra_ok = case.origin.extra_after > 0 && matches!(case.origin.framing, Framing::CloseDelimited);
    let expect_full: Vec<u8> = if extra_ok { [expect_body.clone(), vec![b'!'; case.origin.extra_after]].concat() } else { expect_body.clone() };
    if got_body != expect_full {
        let off = got_body.iter().zip(expect_full.iter()).position(|(a, b)| a != b).unwrap_or(got_body.len().min(expect_full.len()));
        let bp = if case.quotas.iter().any(|q| *q != usize::MAX) { "with client back-pressure" } else { "without back-pressure" };
        let fr = match case.origin.framing { Framing::ContentLength => "Content-Length", Framing::Chunked { .. } => "chunked", Framing::CloseDelimited => "close-delimited", Framing::Both { .. } => "chunked+Content-Length" };
        bad.push((format!("{} client: {} response body differs from the origin's body ({})", vname, fr, bp), format!("got {} bytes, expected {}, first difference at {}", got_body.len(), expect_full.len(), off)));
    } else if eofs == 0 && !*eof_flag {
        bad.push(("body complete but end-of-stream never signalled to the client".into(), String::new()));
    } else if case.origin_keeps_open && !*eof_flag && case.version != 1 {
        // (HTTP/1.1 clients delimit the body themselves from the framing that is passed through: not judged)
        // the origin's connection stayed open for 120 s after its last byte: the client must have been told about the
        // end of the response long before that
        let eof_at = o.client_sink.as_ref().and_then(|l| l.lock().unwrap().events.iter().find(|(_, e)| matches!(e, Ev::Eof)).map(|(t, _)| t.as_secs()));
        if eof_at.map(|t| t >= 60).unwrap_or(false) {
            bad.push(("end of the response signalled to the client only when the origin closed its connection (complete response, keep-alive origin)".into(), format!("end-of-stream at {} s", eof_at.unwrap_or(0))));
        }
    }
    if let Some(l) = &o.client_sink {
        if l.lock().unwrap().spin_detected {
            bad.push(("translator re-offers data in a busy loop while the client sink is not writable".into(), String::new()));
        }
    }
    bad
}

fn dechunk(mut b: &[u8]) -> Option<Vec<u8>> {
    let mut out = vec![];
    loop {
        let pos = b.windows(2).position(|w| w == b"\r\n")?;
        let line = std::str::from_utf8(&b[..pos]).ok()?;
        let n = usize::from_str_radix(line.split(';').next()?.trim(), 16).ok()?;
        b = &b[pos + 2..];
        if n == 0 {
            return Some(out);
        }
        if b.len() < n + 2 { return None; }
        out.extend_from_slice(&b[..n]);
        if &b[n..n + 2] != b"\r\n" { return None; }
        b = &b[n + 2..];
    }
}

pub fn case_json(c: &Case) -> Value {
    json!({"key": c.key, "client_version": c.version, "method": c.method, "request_content_length": c.req_body, "request_stream_body": c.req_stream_body,
        "origin": {"interim": c.origin.interim, "status": c.origin.status, "body_len": c.origin.body_len, "framing": format!("{:?}", c.origin.framing), "extra_after": c.origin.extra_after, "hop_headers": c.origin.hop_headers},
        "origin_keeps_connection_open": c.origin_keeps_open, "cuts": c.cuts, "client_quotas": c.quotas.iter().map(|q| if *q == usize::MAX { -1 } else { *q as i64 }).collect::<Vec<_>>(), "writable_delays_us": c.writable_delays})
}

pub fn gen_case(seed: u64, idx: u64) -> Case {
    let mut r = Rng::derive(seed, 0xc17, idx);
    let version = *r.pick(&[1u8, 2, 2, 3]);
    let method = *r.pick(&["GET", "GET", "POST", "HEAD", "PUT"]);
    let body_len = *r.pick(&[0usize, 1, 5, 64, 1000, 5000]);
    let framing = match r.below(8) {
        0 | 1 | 2 => Framing::ContentLength,
        3 | 4 | 5 => Framing::Chunked { sizes: (0..r.range(1, 3)).map(|_| *r.pick(&[1usize, 2, 7, 100, 4096])).collect(), ext: r.chance(1, 4), trailers: r.chance(1, 4) },
        6 => Framing::CloseDelimited,
        _ => Framing::Both { sizes: vec![*r.pick(&[3usize, 50])] },
    };
    let status = *r.pick(&[200u16, 200, 200, 404, 204, 304, 500]);
    let origin = OriginResp {
        interim: if r.chance(1, 5) { vec![*r.pick(&[100u16, 103])] } else { vec![] },
        status,
        body_len,
        framing,
        extra_after: if r.chance(1, 8) { r.range(1, 9) as usize } else { 0 },
        hop_headers: r.chance(1, 3),
    };
    let (req_body, req_stream_body) = match (method, r.below(3)) {
        ("POST", 0) | ("PUT", 0) => (Some(*r.pick(&[0usize, 3, 700])), 0),
        ("POST", 1) | ("PUT", 1) if version != 1 => (None, *r.pick(&[4usize, 900])),
        _ => (None, 0),
    };
    let keeps_open = !matches!(origin.framing, Framing::CloseDelimited) && r.chance(1, 2);
    let mut c = Case { key: r.next(), version, method, req_body, req_stream_body, origin, cuts: vec![], quotas: vec![], writable_delays: vec![], origin_keeps_open: keeps_open };
    let len = origin_bytes(&c).len();
    let k = r.below(4);
    c.cuts = (0..k).map(|_| r.range(1, len.max(2) as u64 - 1) as usize).collect();
    c.cuts.sort();
    c.cuts.dedup();
    if r.chance(1, 6) { c.cuts = (1..len).collect(); }
    c.quotas = (0..r.below(5)).map(|_| *r.pick(&[0usize, 1, 7, usize::MAX])).collect();
    c.writable_delays = (0..r.below(3)).map(|_| *r.pick(&[0u64, TICK_US])).collect();
    c
}

/// Through the real HTTP/1.1 and HTTP/2 codecs (in-memory session, real Tunnel, scripted origin): header *values* of the
/// origin's response reach the client byte for byte, including bytes outside ASCII (obs-text such as ISO-8859-1 file
/// names), which `http` carries opaquely; the mirror-stream sweep above only sees header maps, not what a codec writes.
fn wire_part(rep: &Arc<Reporter>, args: &Args) {
    use crate::kit::*;
    use crate::tun::*;
    use tokio::io::AsyncWriteExt;
    use trusttunnel::verif::tunnel::{Fwd, Policy, Proto};
    let dir = env::work_dir(&args.root, "c17w");
    let rt = env::rt_paused();
    let ctx = Arc::new(env::make_ctx(&dir, env::CtxOpts::default()));
    // (header name, value bytes)
    let values: Vec<(&str, Vec<u8>)> = vec![
        ("content-disposition", b"attachment; filename=\"r\xe9sum\xe9.txt\"".to_vec()),
        ("x-latin1", vec![b'c', b'a', b'f', 0xe9, b' ', 0xa0, 0xff, b'z']),
        ("x-utf8", "na\u{ef}ve \u{2713}".as_bytes().to_vec()),
        ("x-ascii", b"plain value; q=0.5, *".to_vec()),
        ("x-high", (0x80u8..=0xff).collect()),
    ];
    rt.block_on(async {
        let mut id = 170_000u64;
        for proto in [Proto::H1, Proto::H2] {
            for body_len in [0usize, 11] {
                id += 1;
                let mut origin = b"HTTP/1.1 200 OK\r\nServer: origin\r\n".to_vec();
                for (n, v) in &values { origin.extend_from_slice(n.as_bytes()); origin.extend_from_slice(b": "); origin.extend_from_slice(v); origin.extend_from_slice(b"\r\n"); }
                origin.extend_from_slice(format!("Content-Length: {}\r\n\r\n", body_len).as_bytes());
                origin.extend_from_slice(&b"hello world"[..body_len]);
                let canned = origin.clone();
                let fwd = RecFwd::new(move |_| Outcome::Canned(canned.clone()));
                let how = How::Tunnel(Fwd::Scripted(fwd.clone()), Policy::Default);
                let mut got: Vec<(String, Vec<u8>)> = vec![];
                let mut status = None;
                match proto {
                    Proto::H1 => {
                        let sess = open_session(&ctx, Proto::H1, how, "main.test", true, id);
                        let (mut rd, mut wr) = tokio::io::split(sess.client);
                        let _ = wr.write_all(b"GET http://origin.test:8080/p HTTP/1.1\r\nHost: origin.test:8080\r\n\r\n").await;
                        let (raw, _) = read_until_quiet(&mut rd, Duration::from_millis(800), 1 << 20).await;
                        let head_end = raw.windows(4).position(|w| w == b"\r\n\r\n").map(|p| p + 2).unwrap_or(raw.len());
                        let mut lines = raw[..head_end].split(|b| *b == b'\n');
                        if let Some(l) = lines.next() { status = String::from_utf8_lossy(l).split(' ').nth(1).and_then(|s| s.parse::<u16>().ok()); }
                        for l in lines {
                            let l = l.strip_suffix(b"\r").unwrap_or(l);
                            if let Some(c) = l.iter().position(|b| *b == b':') {
                                let v = &l[c + 1..];
                                let v = v.strip_prefix(b" ").unwrap_or(v);
                                got.push((String::from_utf8_lossy(&l[..c]).to_lowercase(), v.to_vec()));
                            }
                        }
                    }
                    _ => {
                        let sess = open_session(&ctx, Proto::H2, how, "main.test", true, id);
                        if let Ok((mut h2, conn)) = h2::client::handshake(sess.client).await {
                            let driver = tokio::spawn(async move { let _ = conn.await; });
                            let req = http::Request::builder().method("GET").uri("http://origin.test:8080/p").body(()).unwrap();
                            if let Ok((resp, _)) = h2.send_request(req, true) {
                                if let Ok(Ok(r)) = tokio::time::timeout(Duration::from_secs(5), resp).await {
                                    status = Some(r.status().as_u16());
                                    for (n, v) in r.headers() { got.push((n.as_str().to_string(), v.as_bytes().to_vec())); }
                                }
                            }
                            driver.abort();
                        }
                    }
                }
                for (n, v) in &values {
                    rep.evals(1);
                    rep.distinct(common::fnv(format!("wire|{:?}|{}|{}", proto, body_len, n).as_bytes()));
                    let seen: Vec<&Vec<u8>> = got.iter().filter(|(k, _)| k == n).map(|(_, v)| v).collect();
                    let w = json!({"kind":"forwarded-wire","protocol":format!("{:?}", proto),"header":n,"origin_value_hex":common::hex(v),"client_value_hex":seen.iter().map(|x| common::hex(x)).collect::<Vec<_>>(),"status":status});
                    if status != Some(200) { rep.violation("wire: plain-HTTP response through the real codec not delivered", w); break; }
                    if seen.len() != 1 || seen[0] != v { rep.violation(&format!("wire: response header value altered on its way to the {} client", if proto == Proto::H1 { "HTTP/1.1" } else { "HTTP/2" }), w); }
                    else { rep.tally("wire: response header value delivered byte for byte through the real codec", 1); }
                }
            }
        }
    });
}

/// A request body that trickles in for much longer than the idle timeout T, every gap well under T, while the origin
/// stays silent: the idle timer of the silent direction fires again and again (cancelling and restarting both copy
/// loops), and the body must still reach the origin complete and in order - the exchange is alive, not idle.
fn paced_upload_part(rep: &Arc<Reporter>, args: &Args) {
    use crate::kit::*;
    use crate::tun::*;
    use tokio::io::AsyncWriteExt;
    use trusttunnel::verif::tunnel::{Fwd, Policy, Proto};
    let dir = env::work_dir(&args.root, "c17p");
    let rt = env::rt_paused();
    const T_MS: u64 = 2000;
    let ctx = Arc::new(env::make_ctx(&dir, env::CtxOpts { tweak: Some(Box::new(|b| b.tcp_connections_timeout(Duration::from_millis(T_MS)))), ..Default::default() }));
    rt.block_on(async {
        let mut id = 171_000u64;
        for proto in [Proto::H1, Proto::H2] {
            for (pieces, piece_len, gap_ms) in [(20usize, 50usize, T_MS * 2 / 5), (8, 125, T_MS * 3 / 4), (40, 25, T_MS / 4)] {
                id += 1;
                let total = pieces * piece_len;
                let body = common::prng::coded_stream(0x17b, id, 0, total);
                let fwd = RecFwd::new(|_| Outcome::Silent);
                let how = How::Tunnel(Fwd::Scripted(fwd.clone()), Policy::Default);
                let mut client_ok = true;
                match proto {
                    Proto::H1 => {
                        let sess = open_session(&ctx, Proto::H1, how, "main.test", true, id);
                        let (_rd, mut wr) = tokio::io::split(sess.client);
                        let _ = wr.write_all(format!("POST http://origin.test:8080/upload HTTP/1.1\r\nHost: origin.test:8080\r\nContent-Length: {}\r\n\r\n", total).as_bytes()).await;
                        for k in 0..pieces {
                            tokio::time::sleep(Duration::from_millis(gap_ms)).await;
                            if wr.write_all(&body[k * piece_len..(k + 1) * piece_len]).await.is_err() { client_ok = false; break; }
                            let _ = wr.flush().await;
                        }
                        tokio::time::sleep(Duration::from_millis(T_MS / 4)).await;
                    }
                    _ => {
                        let sess = open_session(&ctx, Proto::H2, how, "main.test", true, id);
                        let Ok((mut h2, conn)) = h2::client::handshake(sess.client).await else { rep.inconclusive("paced upload: HTTP/2 session not established"); continue };
                        let driver = tokio::spawn(async move { let _ = conn.await; });
                        let req = http::Request::builder().method("POST").uri("http://origin.test:8080/upload").header("content-length", total.to_string()).body(()).unwrap();
                        let Ok((_resp, mut tx)) = h2.send_request(req, false) else { driver.abort(); continue };
                        for k in 0..pieces {
                            tokio::time::sleep(Duration::from_millis(gap_ms)).await;
                            if tx.send_data(Bytes::copy_from_slice(&body[k * piece_len..(k + 1) * piece_len]), k + 1 == pieces).is_err() { client_ok = false; break; }
                        }
                        tokio::time::sleep(Duration::from_millis(T_MS / 4)).await;
                        driver.abort();
                    }
                }
                rep.evals(1);
                rep.distinct(common::fnv(format!("paced|{:?}|{}|{}|{}", proto, pieces, piece_len, gap_ms).as_bytes()));
                let at_origin: Vec<u8> = fwd.received.lock().unwrap().first().map(|b| b.lock().unwrap().clone()).unwrap_or_default();
                let body_at_origin = at_origin.windows(4).position(|w| w == b"\r\n\r\n").map(|p| at_origin[p + 4..].to_vec()).unwrap_or_default();
                let w = json!({"kind":"forwarded-paced-upload","protocol":format!("{:?}", proto),"T_ms":T_MS,"pieces":pieces,"piece_len":piece_len,"gap_ms":gap_ms,"body_len":total,"body_at_origin":body_at_origin.len(),
                    "first_differing_offset":body_at_origin.iter().zip(body.iter()).position(|(a, b)| a != b),"client_writes_ok":client_ok,"connects":fwd.connects().len()});
                if fwd.connects().is_empty() { rep.inconclusive("paced upload: request did not reach the forwarder"); }
                else if body_at_origin != body { rep.violation(&format!("request body trickling in with gaps under the idle timeout did not reach the origin complete ({})", if proto == Proto::H1 { "HTTP/1.1 client" } else { "HTTP/2 client" }), w); }
                else { rep.tally("paced upload: body complete at the origin across idle-timer restarts", 1); }
            }
        }
    });
}

pub fn run(args: &Args) -> i32 {
    let rep = Arc::new(Reporter::new(
        args,
        "exploration",
        "case = (client protocol version 1/2/3, method, request body framing, origin response: optional 1xx prefix, status incl. 204/304, body \
         0..5000 bytes framed by Content-Length / chunked (sizes 1..4096, extensions, trailers) / close-delimited / chunked+Content-Length, extra \
         bytes after the body, hop-by-hop headers; segmentation of the origin byte stream (0-3 cuts or byte-at-a-time); client sink acceptance \
         quotas {0,1,7,inf} and writability delays) from a seeded generator, run through the real into_forwarded + DuplexPipe. \
         distinct_nontrivial = distinct case descriptors.",
    ));
    rep.assume("independent HTTP/1.1 reference (httparse for heads, own de-chunker) decides the expected request and body");
    rep.assume("a second end-of-stream signal on the client sink after the body completed is tallied, not judged");
    let n = common::workers();
    let seed = args.seed;
    let total = args.qt(60_000u64, 5_000_000u64);
    let watch = {
        let rep = rep.clone();
        crate::common::wedge::Watch::start(n, 10, move |_s, idx, _b, _c, _d, cpu| {
            let case = gen_case(seed, idx);
            rep.violation("translator wedged: one case consumed more than 10 CPU-seconds", json!({"kind":"forwarded","case":case_json(&case),"cpu_seconds":cpu}));
            std::process::exit(rep.finish());
        })
    };
    let slots = watch.slots.clone();
    let results = common::parallel(n, move |shard, nshards| {
        let slot = slots[shard].clone();
        slot.attach();
        let rt = env::rt_paused();
        let mut local = Local::default();
        let mut bad: BTreeMap<String, Value> = BTreeMap::new();
        let mut samples = vec![];
        let mut idx = shard as u64;
        while idx < total {
            let case = gen_case(seed, idx);
            slot.set(idx, 0, 0, 0);
            local.evals += 1;
            local.distinct.push(common::hash_of(&case));
            match common::catch(|| rt.block_on(run_case(&case))) {
                Ok(o) => {
                    let v = judge(&case, &o);
                    if v.is_empty() {
                        local.tally(&format!("ok: client v{} {:?}", case.version, std::mem::discriminant(&case.origin.framing)).replace("Discriminant", ""), 1);
                    }
                    if let Some(l) = &o.client_sink {
                        if l.lock().unwrap().eof_calls > 1 { local.tally("observed: end-of-stream signalled twice to the client sink (not judged)", 1); }
                        if l.lock().unwrap().events.iter().any(|(_, e)| matches!(e, Ev::Write { offered, accepted } if accepted < offered)) { local.tally("observed: partial acceptance by the client sink", 1); }
                    }
                    for (sig, what) in v {
                        bad.entry(sig).or_insert_with(|| json!({"kind":"forwarded","case":case_json(&case),"what":what,"result":format!("{:?}", o.result)}));
                    }
                    if samples.is_empty() && idx > 200 { samples.push(json!({"case": case_json(&case), "result": format!("{:?}", o.result)})); }
                }
                Err(p) => {
                    bad.entry(format!("translator panicked: {}", common::panic_file(&p))).or_insert_with(|| json!({"kind":"forwarded","case":case_json(&case),"panic":p}));
                }
            }
            idx += nshards as u64;
        }
        slot.detach();
        (local, bad, samples)
    });
    for (local, bad, samples) in results {
        for (s, d) in bad { rep.violation(&s, d); }
        for s in samples { rep.sample(s); }
        local.merge_into(&rep);
    }
    wire_part(&rep, args);
    paced_upload_part(&rep, args);
    rep.finish()
}
