//! C07 through the real `Socks5Forwarder`: the real `udp_pipe::DuplexPipe` over the multiplexer that
//! `Core::make_forwarder` builds when `forward_protocol = socks5`, a relaying SOCKS5 proxy on loopback
//! (crate::s5srv) and real UDP echo servers behind it. With this forwarder the flows of one client socket
//! share a UDP association, so what is judged is what the statement says independently of the forwarder:
//! a datagram reaches exactly its destination, a reply comes back once with the flow's labels, a closed or
//! expired flow never disturbs its siblings or the multiplexer, a later datagram on the pair starts afresh,
//! and associations (and the gauge) are released once every flow of their client socket is gone.

use crate::common::{self, Args, Reporter, Rng};
use crate::env;
use crate::s5srv::{S5Event, S5Server};
use async_trait::async_trait;
use bytes::Bytes;
use serde_json::{json, Value};
use std::collections::BTreeMap;
use std::net::SocketAddr;
use std::sync::atomic::{AtomicBool, Ordering};
use std::sync::{Arc, Mutex};
use std::time::{Duration, Instant};
use tokio::net::UdpSocket;
use trusttunnel::verif::misc::{metrics_snapshot, run_udp_pipe, UdpOut, VUdpSink, VUdpSource};
use trusttunnel::verif::pure::UdpIn;

struct ChanSource(tokio::sync::mpsc::UnboundedReceiver<UdpIn>);
#[async_trait]
impl VUdpSource for ChanSource {
    async fn read(&mut self) -> std::io::Result<UdpIn> { self.0.recv().await.ok_or_else(|| std::io::Error::from(std::io::ErrorKind::UnexpectedEof)) }
}
struct RecSink(Arc<Mutex<Vec<UdpOut>>>);
#[async_trait]
impl VUdpSink for RecSink {
    async fn write(&mut self, d: UdpOut) -> std::io::Result<bool> { self.0.lock().unwrap().push(d); Ok(true) }
}

struct Server { addr: SocketAddr, received: Arc<Mutex<Vec<Vec<u8>>>> }

async fn echo_server(bind: &str) -> Option<Server> {
    let sock = UdpSocket::bind(bind).await.ok()?;
    let addr = sock.local_addr().unwrap();
    let received: Arc<Mutex<Vec<Vec<u8>>>> = Default::default();
    let rec = received.clone();
    tokio::spawn(async move {
        let mut buf = vec![0u8; 65536];
        loop {
            let Ok((n, from)) = sock.recv_from(&mut buf).await else { continue };
            rec.lock().unwrap().push(buf[..n].to_vec());
            let mut r = b"R:".to_vec();
            r.extend_from_slice(&buf[..n]);
            let _ = sock.send_to(&r, from).await;
        }
    });
    Some(Server { addr, received })
}

#[derive(Clone, Debug)]
enum Op { Send(usize), Burst(usize, usize), Dns(usize), Wait(u64),
    /// the relay of client socket A's association dies (its port now answers "unreachable"), a datagram bounces off it, and
    /// the multiplexer must go on and client socket B's flows must not be disturbed; A's flows work again once they have all expired and a new association is made
    RelayDies }

struct Out { bad: Vec<(String, Value)>, tallies: BTreeMap<String, u64>, inconclusive: Vec<String>, ops: usize, sample: Value }

async fn history(root: std::path::PathBuf, seed: u64, h: u64, t_ms: u64) -> Out {
    let mut out = Out { bad: vec![], tallies: BTreeMap::new(), inconclusive: vec![], ops: 0, sample: json!(null) };
    let mut r = Rng::derive(seed, 0xc075, h);
    let s5 = S5Server::start(Default::default()).await;
    let dir = env::work_dir(&root, "c07s5");
    let s5_addr = s5.addr;
    let ctx = Arc::new(env::make_ctx(&dir, env::CtxOpts {
        allow_private: true,
        tweak: Some(Box::new(move |b| b.forwarder_settings(trusttunnel::settings::ForwardProtocolSettings::Socks5(
            trusttunnel::settings::Socks5ForwarderSettings::builder().server_address(s5_addr).unwrap().build().unwrap())))),
        ..Default::default()
    }));
    let mut servers = vec![];
    for _ in 0..3 { servers.push(echo_server("127.0.0.1:0").await.expect("udp bind")); }
    // histories run in parallel: each has its own loopback address for its port-53 server
    let dns = echo_server(&format!("127.{}.{}.11:53", 110 + h % 100, (h / 100) % 250)).await;
    let ca: SocketAddr = "10.8.0.2:40000".parse().unwrap();
    let cb: SocketAddr = "10.8.0.3:40001".parse().unwrap();
    // (client socket, destination): the first three share client socket A, hence one association
    let mut flows: Vec<(SocketAddr, SocketAddr)> = vec![(ca, servers[0].addr), (ca, servers[1].addr), (cb, servers[0].addr), (cb, servers[2].addr)];
    let dns_flows = if let Some(d) = &dns { flows.push((ca, d.addr)); flows.push((cb, d.addr)); vec![flows.len() - 2, flows.len() - 1] } else { vec![] };
    let (tx, rx) = tokio::sync::mpsc::unbounded_channel();
    let delivered: Arc<Mutex<Vec<UdpOut>>> = Default::default();
    let finished = Arc::new(AtomicBool::new(false));
    let pipe = {
        let (ctx, delivered, finished) = (ctx.clone(), delivered.clone(), finished.clone());
        tokio::spawn(async move {
            let r = run_udp_pipe(&ctx, (Box::new(ChanSource(rx)), Box::new(RecSink(delivered))), Duration::from_millis(t_ms), Some(("10.8.0.2".parse().unwrap(), None)), |_, _| {}).await;
            finished.store(true, Ordering::SeqCst);
            r
        })
    };
    let mut ops: Vec<Op> = vec![];
    if h % 4 == 0 && !dns_flows.is_empty() {
        // a sibling of an answered port-53 flow keeps working; so does one of an expired flow
        ops.extend([Op::Send(0), Op::Dns(dns_flows[0]), Op::Send(0), Op::Wait(t_ms / 4), Op::Send(1), Op::Send(0)]);
    }
    if h % 4 == 1 {
        // flow 1 expires while flow 0 of the same client socket stays busy
        ops.extend([Op::Send(1), Op::Send(0), Op::Wait(t_ms / 2), Op::Send(0), Op::Wait(t_ms / 2), Op::Send(0), Op::Wait(t_ms / 2), Op::Send(0), Op::Send(1)]);
    }
    if h % 4 == 2 { ops.extend([Op::Send(0), Op::Send(2), Op::RelayDies, Op::Send(2), Op::Send(0), Op::Send(1), Op::Send(3)]); }
    for _ in 0..r.range(8, 20) {
        ops.push(match r.below(12) {
            0..=4 => Op::Send(r.below(4) as usize),
            5 => Op::Burst(r.below(4) as usize, r.range(2, 5) as usize),
            6 | 7 if !dns_flows.is_empty() => Op::Dns(*r.pick(&dns_flows)),
            8 => Op::Wait(t_ms / 4),
            9 => Op::Wait(t_ms / 2),
            10 => Op::Wait(2 * t_ms + 300),
            _ => Op::Send(r.below(4) as usize),
        });
    }
    ops.extend([Op::Wait(2 * t_ms + 300), Op::Send(0), Op::Send(2), Op::Send(1)]);
    let mut seq = 0u64;
    let mut sent: Vec<(usize, Vec<u8>)> = vec![];
    let mut last_activity: Option<Instant> = None;
    // datagrams of client socket A sent while its association's relay is dead are not judged (the proxy's relay is gone:
    // nothing the endpoint could deliver through); a new association - after every flow of A has expired - works again
    let mut degraded_from: Option<usize> = None;
    let mut degraded_ranges: Vec<(usize, usize)> = vec![];
    for op in &ops {
        out.ops += 1;
        let mut send = |f: usize, sent: &mut Vec<(usize, Vec<u8>)>| {
            seq += 1;
            let p = format!("s5h{}f{}s{}", h, f, seq).into_bytes();
            let _ = tx.send(UdpIn { source: flows[f].0, destination: flows[f].1, app_name: Some("verif".into()), payload: Bytes::copy_from_slice(&p) });
            sent.push((f, p));
        };
        match op {
            Op::Send(f) => { send(*f, &mut sent); last_activity = Some(Instant::now()); tokio::time::sleep(Duration::from_millis(r.below(8) + 2)).await; }
            Op::Burst(f, n) => { for _ in 0..*n { send(*f, &mut sent); } last_activity = Some(Instant::now()); tokio::time::sleep(Duration::from_millis(5)).await; }
            Op::Dns(f) => { *out.tallies.entry("s5: queries on port-53 flows (flow ends with the answer; siblings and later queries must work)".into()).or_insert(0) += 1; tokio::time::sleep(Duration::from_millis(40)).await; send(*f, &mut sent); last_activity = Some(Instant::now()); tokio::time::sleep(Duration::from_millis(100)).await; }
            Op::RelayDies => {
                // the association of client socket A is the first one opened in this history (flow 0 is sent first)
                let first = s5.events().iter().find_map(|e| if let S5Event::Associate { assoc } = e { Some(*assoc) } else { None });
                if let Some(a) = first {
                    s5.kill_relays.lock().unwrap().insert(a);
                    tokio::time::sleep(Duration::from_millis(30)).await;
                    // two datagrams that are allowed to be lost: the first bounces off the dead relay, the second meets the error
                    for _ in 0..2 {
                        seq += 1;
                        let p = format!("s5h{}lost{}", h, seq).into_bytes();
                        let _ = tx.send(UdpIn { source: flows[0].0, destination: flows[0].1, app_name: None, payload: Bytes::copy_from_slice(&p) });
                        // the socket error may be met first by the next send or by the pending receive: both orders are wanted
                        tokio::time::sleep(Duration::from_millis([2u64, 40, 150, 400][((h / 4) % 4) as usize])).await;
                    }
                    *out.tallies.entry("s5: relay of an association died (datagrams bounce): the multiplexer and the other client socket's flows go on".into()).or_insert(0) += 1;
                    last_activity = Some(Instant::now());
                    if degraded_from.is_none() { degraded_from = Some(sent.len()); }
                }
            }
            Op::Wait(ms) => {
                let before = Instant::now();
                tokio::time::sleep(Duration::from_millis(*ms)).await;
                let over = (before.elapsed().as_millis() as u64).saturating_sub(*ms);
                if over > 150 { out.inconclusive.push(format!("s5: sleep overshoot {} ms", over)); }
                if *ms >= 2 * t_ms && last_activity.map(|t| t.elapsed() >= Duration::from_millis(2 * t_ms + 250)).unwrap_or(true) {
                    // quiescent: every flow idle for more than 2T - no association may be left, at either end
                    let g = metrics_snapshot(&ctx).outbound_udp;
                    let live = s5.live_assocs.load(Ordering::SeqCst);
                    if g != 0 { out.bad.push(("s5: outbound_udp_sockets gauge does not return to zero after every flow expired".into(), json!({"kind":"udp-flows-socks5","gauge":g,"history":h,"T_ms":t_ms}))); }
                    else if live != 0 { out.bad.push(("s5: UDP associations stay open at the proxy after every flow expired".into(), json!({"kind":"udp-flows-socks5","associations_open_at_proxy":live,"history":h,"T_ms":t_ms}))); }
                    else { *out.tallies.entry("s5 quiescent: gauge == 0 and no association left at the proxy".into()).or_insert(0) += 1; }
                    // every flow has expired: the dead association is gone with them
                    if let Some(from) = degraded_from.take() { degraded_ranges.push((from, sent.len())); }
                }
            }
        }
        if finished.load(Ordering::SeqCst) {
            out.bad.push(("s5: multiplexer terminated while the client stream is open".into(), json!({"kind":"udp-flows-socks5","history":h,"op":format!("{:?}", op),"ops_done":out.ops,"ops":ops.iter().map(|o| format!("{:?}", o)).collect::<Vec<_>>()})));
            break;
        }
    }
    tokio::time::sleep(Duration::from_millis(250)).await;
    let died = finished.load(Ordering::SeqCst);
    let delivered = delivered.lock().unwrap().clone();
    let all_servers: Vec<&Server> = servers.iter().chain(dns.iter()).collect();
    if let Some(from) = degraded_from.take() { degraded_ranges.push((from, sent.len())); }
    for (k, (f, payload)) in sent.iter().enumerate() {
        if flows[*f].0 == ca && degraded_ranges.iter().any(|(a, b)| k >= *a && k < *b) { *out.tallies.entry("s5: datagram sent into an association whose relay had died (not judged)".into()).or_insert(0) += 1; continue; }
        let dst = flows[*f].1;
        let arrived_at: Vec<SocketAddr> = all_servers.iter().filter(|s| s.received.lock().unwrap().iter().any(|p| p == payload)).map(|s| s.addr).collect();
        let w = |extra: Value| json!({"kind":"udp-flows-socks5","history":h,"T_ms":t_ms,"payload":String::from_utf8_lossy(payload),"flow":format!("{} -> {}", flows[*f].0, dst),"detail":extra,"ops":ops.iter().map(|o| format!("{:?}", o)).collect::<Vec<_>>()});
        if arrived_at.iter().any(|a| *a != dst) { out.bad.push(("s5: client datagram delivered to a server other than its destination".into(), w(json!({"arrived_at":arrived_at.iter().map(|a| a.to_string()).collect::<Vec<_>>()})))); continue; }
        if arrived_at.is_empty() { if !died { out.bad.push(("s5: client datagram on a live or fresh flow was not sent to its destination".into(), w(json!(null)))); } continue; }
        let copies = all_servers.iter().map(|s| s.received.lock().unwrap().iter().filter(|p| *p == payload).count()).sum::<usize>();
        if copies > 1 { out.bad.push(("s5: client datagram sent to its destination more than once".into(), w(json!({"copies":copies})))); continue; }
        *out.tallies.entry("s5: datagram reached exactly its destination".into()).or_insert(0) += 1;
        let mut want = b"R:".to_vec();
        want.extend_from_slice(payload);
        let hits: Vec<&UdpOut> = delivered.iter().filter(|d| d.payload[..] == want[..]).collect();
        if hits.is_empty() { if !died { out.bad.push(("s5: reply from the destination not returned to the client".into(), w(json!(null)))); } }
        else if hits.iter().any(|d| d.source != dst || d.destination != flows[*f].0) { out.bad.push(("s5: reply delivered with wrong source/destination labels (another flow)".into(), w(json!({"labels":hits.iter().map(|d| format!("{} -> {}", d.source, d.destination)).collect::<Vec<_>>()})))); }
        else if hits.len() > 1 { out.bad.push(("s5: reply delivered more than once".into(), w(json!({"copies":hits.len()})))); }
        else { *out.tallies.entry("s5: echo returned once with the flow's labels".into()).or_insert(0) += 1; }
    }
    // nothing reached the proxy's relay that is not an RFC 1928 section 7 datagram
    let ev = s5.events();
    if let Some(S5Event::UdpMalformed { bytes, .. }) = ev.iter().find(|e| matches!(e, S5Event::UdpMalformed { .. })) {
        out.bad.push(("s5: datagram sent to the relay is not a well-formed RFC 1928 section 7 datagram".into(), json!({"kind":"udp-flows-socks5","history":h,"bytes":common::hex(&bytes[..bytes.len().min(64)])})));
    }
    out.sample = json!({"history": h, "T_ms": t_ms, "forwarder": "socks5", "ops": ops.iter().map(|o| format!("{:?}", o)).collect::<Vec<_>>(), "client_datagrams": sent.len(), "delivered_to_client": delivered.len(),
        "associations_opened_at_proxy": ev.iter().filter(|e| matches!(e, S5Event::Associate { .. })).count()});
    drop(tx);
    match tokio::time::timeout(Duration::from_secs(3), pipe).await {
        Ok(_) => { *out.tallies.entry("s5: multiplexer ended when the client stream closed".into()).or_insert(0) += 1; }
        Err(_) => out.bad.push(("s5: multiplexer keeps running after the client stream closed".into(), json!({"kind":"udp-flows-socks5","history":h}))),
    }
    tokio::time::sleep(Duration::from_millis(150)).await;
    let g = metrics_snapshot(&ctx).outbound_udp;
    let live = s5.live_assocs.load(Ordering::SeqCst);
    if g != 0 { out.bad.push(("s5: outbound_udp_sockets gauge not zero after the multiplexer ended".into(), json!({"kind":"udp-flows-socks5","gauge":g,"history":h}))); }
    else if live != 0 { out.bad.push(("s5: UDP associations stay open at the proxy after the multiplexer ended".into(), json!({"kind":"udp-flows-socks5","associations_open_at_proxy":live,"history":h}))); }
    out
}

pub fn run_part(rep: &Arc<Reporter>, args: &Args) {
    let n = args.qt(16u64, 240u64);
    let rt = env::rt_multi(6);
    let root = args.root.clone();
    let seed = args.seed;
    rt.block_on(async {
        let sem = Arc::new(tokio::sync::Semaphore::new(8));
        let mut js = vec![];
        for h in 0..n {
            let (sem, root) = (sem.clone(), root.clone());
            js.push(tokio::spawn(async move { let _p = sem.acquire_owned().await.unwrap(); history(root, seed, h, [300u64, 400][(h % 2) as usize]).await }));
        }
        for j in js {
            let Ok(o) = j.await else { rep.inconclusive("s5: history task failed"); continue };
            rep.evals(o.ops as u64);
            rep.distinct(common::fnv(o.sample.to_string().as_bytes()));
            for (s, d) in o.bad { rep.violation(&s, d); }
            for i in o.inconclusive { rep.inconclusive(&i); }
            rep.tally_map(&o.tallies);
            if rep.want_sample() { rep.sample(o.sample); }
        }
    });
}
