//! C13 — configured credentials and settings mean exactly what the files say.

use crate::common::{self, Args, Reporter, Rng};
use crate::env;
use serde_json::{json, Value};
use std::path::{Path, PathBuf};
use std::process::Command;
use std::sync::Arc;
use trusttunnel::authentication::registry_based::RegistryBasedAuthenticator;
use trusttunnel::authentication::{Authenticator, Source, Status};
use trusttunnel::settings::{Settings, TlsHostsSettings};

/// TOML basic string with escapes
fn toml_basic(s: &str) -> String {
    let mut o = String::from("\"");
    for c in s.chars() {
        match c {
            '"' => o.push_str("\\\""),
            '\\' => o.push_str("\\\\"),
            '\n' => o.push_str("\\n"),
            '\t' => o.push_str("\\t"),
            '\r' => o.push_str("\\r"),
            c if (c as u32) < 0x20 || c as u32 == 0x7f => o.push_str(&format!("\\u{:04X}", c as u32)),
            c => o.push(c),
        }
    }
    o.push('"');
    o
}

/// every TOML spelling that can express `s` exactly
fn spellings(s: &str) -> Vec<(&'static str, String)> {
    let mut v = vec![("basic", toml_basic(s))];
    let plain = !s.chars().any(|c| (c as u32) < 0x20 && c != '\t' || c as u32 == 0x7f);
    if plain && !s.contains('\'') && !s.contains('\n') { v.push(("literal", format!("'{}'", s))); }
    if !s.contains("\"\"\"") && !s.ends_with('"') && !s.contains('\\') && !s.chars().any(|c| (c as u32) < 0x20 && c != '\n' && c != '\t') && !s.starts_with('\n') {
        v.push(("multi-line basic", format!("\"\"\"{}\"\"\"", s)));
    }
    if plain && !s.contains("'''") && !s.ends_with('\'') && !s.starts_with('\n') && !s.contains('\r') { v.push(("multi-line literal", format!("'''{}'''", s))); }
    // unicode escapes in a basic string
    if s.chars().any(|c| !c.is_ascii()) {
        let mut o = String::from("\"");
        for c in s.chars() {
            if c.is_ascii() { o.push_str(&toml_basic(&c.to_string())[1..].trim_end_matches('"').to_string()); if c == '"' { /* handled by toml_basic */ } }
            else if (c as u32) <= 0xffff { o.push_str(&format!("\\u{:04X}", c as u32)); } else { o.push_str(&format!("\\U{:08X}", c as u32)); }
        }
        o.push('"');
        v.push(("basic with \\u escapes", o));
    }
    v
}

fn pool(r: &mut Rng, n_random: usize) -> Vec<String> {
    let mut v: Vec<String> = vec![
        "alice", "pass word", " leading", "trailing ", "  both  ", "quo\"te", "two\"\"quotes", "back\\slash", "c:\\path\\n", "tab\there", "new\nline", "apos'trophe",
        "#hash", "a=b", "[table]", "ünïcödé", "日本語パスワード", "emoji🔑", "\"quoted\"", "'single'", "\\\"", "x", "0", "true", "multi\nline\ntext", "trail\\", "comma,sep", "semi;colon",
        "percent%20", "a\u{7f}b", "\u{1}ctl",
    ].into_iter().map(String::from).collect();
    v.push("L".repeat(600));
    let alphabet: Vec<char> = "ab \"'\\#\n\té🔑=[]".chars().collect();
    for _ in 0..n_random {
        let n = r.range(1, 12) as usize;
        let s: String = (0..n).map(|_| *r.pick(&alphabet)).collect();
        v.push(s);
    }
    v
}

fn settings_toml(creds: Option<&Path>, listen: &str, protocols: &str, extra: &str) -> String {
    let mut s = format!("listen_address = \"{}\"\n", listen);
    if let Some(c) = creds { s.push_str(&format!("credentials_file = {}\n", toml_basic(&c.to_string_lossy()))); }
    s.push_str(extra);
    s.push_str(protocols);
    s
}

const PROTOS_H1: &str = "[listen_protocols]\n[listen_protocols.http1]\n";

/// credentials as a conforming TOML reader sees them
fn reference_clients(content: &str) -> Option<Vec<(String, String)>> {
    let v: toml::Value = toml::from_str(content).ok()?;
    let arr = v.get("client")?.as_array()?;
    arr.iter().map(|c| Some((c.get("username")?.as_str()?.to_string(), c.get("password")?.as_str()?.to_string()))).collect()
}

fn credentials_part(rep: &Arc<Reporter>, args: &Args, hosts: &TlsHostsSettings) {
    let dir = env::work_dir(&args.root, "c13");
    let mut r = Rng::derive(args.seed, 0xc13, 0);
    let strings = pool(&mut r, args.qt(500, 6000));
    let mut n = 0u64;
    for (i, s) in strings.iter().enumerate() {
        for (form, spelled) in spellings(s) {
            // the string is used once as user name and once as password, paired with a plain partner
            for as_user in [true, false] {
                n += 1;
                let (u_spelled, p_spelled, u, p) = if as_user { (spelled.clone(), "\"plain-pass\"".to_string(), s.clone(), "plain-pass".to_string()) } else { ("\"plain-user\"".to_string(), spelled.clone(), "plain-user".to_string(), s.clone()) };
                let mut content = format!("# credentials\n[[client]]\nusername = {}\npassword = {}\n\n[[client]]\nusername = \"second\"\npassword = \"second-pass\" # comment\n", u_spelled, p_spelled);
                // every fourth file has a further entry for the same user name with another password (a password being rotated):
                // both pairs are written, both are to be accepted
                let rotated = i % 4 == 1;
                if rotated { content.push_str(&format!("\n[[client]]\nusername = {}\npassword = \"rotated-pass\"\n", u_spelled)); }
                let Some(reference) = reference_clients(&content) else { rep.tally("generator produced a file the reference reader rejects (skipped)", 1); continue; };
                if reference[0] != (u.clone(), p.clone()) { rep.tally("generator spelling does not round-trip in the reference reader (skipped)", 1); continue; }
                let path = dir.join(format!("cred-{}.toml", n % 64));
                std::fs::write(&path, &content).unwrap();
                rep.evals(1);
                rep.distinct(common::fnv(content.as_bytes()));
                let class = string_class(s);
                let witness = |got: &str| json!({"kind":"credentials-file","string_form":form,"role":if as_user {"username"} else {"password"},"value":s,"file":content,"endpoint_reads":got});
                if i % 40 == 0 && as_user && form == "basic" { rep.sample(json!({"file": content, "reference_pairs": reference})); }
                let parsed = common::catch(|| toml::from_str::<Settings>(&settings_toml(Some(&path), "127.0.0.1:1443", PROTOS_H1, "")));
                let settings = match parsed {
                    Err(p) => { rep.violation(&format!("settings loading panicked: {}", common::panic_file(&p)), witness(&p)); continue; }
                    Ok(Err(e)) => {
                        if s.is_empty() { continue; }
                        rep.violation(&format!("valid credentials file refused ({} string: {})", form, class), witness(&e.to_string()));
                        continue;
                    }
                    Ok(Ok(x)) => x,
                };
                let got: Vec<(String, String)> = settings.get_clients().iter().map(|c| (c.username.clone(), c.password.clone())).collect();
                if got != reference {
                    rep.violation(&format!("credentials read differ from the TOML values ({} string: {})", form, class), witness(&format!("{:?}", got)));
                    continue;
                }
                // the authenticator accepts exactly the written pair
                let auth = RegistryBasedAuthenticator::new(settings.get_clients());
                let token = crate::kit::basic(&u, &p);
                if auth.authenticate(&Source::ProxyBasic(token.into()), &trusttunnel::log_utils::IdChain::empty()) != Status::Pass {
                    rep.violation("authenticator rejects the pair written in the credentials file", witness(""));
                    continue;
                }
                if rotated && auth.authenticate(&Source::ProxyBasic(crate::kit::basic(&u, "rotated-pass").into()), &trusttunnel::log_utils::IdChain::empty()) != Status::Pass {
                    rep.violation("authenticator rejects a pair written in the credentials file (second entry for the same user name)", witness(""));
                    continue;
                }
                // exported client configuration carries the same pair
                let exported = common::catch(|| trusttunnel::client_config::build(&u, vec!["203.0.113.1:443".parse().unwrap()], settings.get_clients(), hosts).compose_toml());
                match exported {
                    Err(p) => rep.violation("client configuration export panicked for a configured user", witness(&p)),
                    Ok(t) => match toml::from_str::<toml::Value>(&t) {
                        Ok(v) if v.get("username").and_then(|x| x.as_str()) == Some(&u) && v.get("password").and_then(|x| x.as_str()) == Some(&p) => rep.tally("credentials: file -> endpoint -> authenticator -> exported config all agree", 1),
                        Ok(v) => rep.violation("exported client configuration carries a different pair", witness(&format!("{:?}/{:?}", v.get("username"), v.get("password")))),
                        Err(e) => rep.violation("exported client configuration is not valid TOML", witness(&e.to_string())),
                    },
                }
            }
        }
    }
    // malformed credentials files: rejected (or read per TOML), never a panic
    for (name, content) in [
        ("missing username", "[[client]]\npassword = \"p\"\n"), ("missing password", "[[client]]\nusername = \"u\"\n"), ("integer username", "[[client]]\nusername = 5\npassword = \"p\"\n"),
        ("client is a table", "[client]\nusername = \"u\"\npassword = \"p\"\n"), ("empty file", ""), ("not TOML", "[[client\nusername = "), ("empty strings", "[[client]]\nusername = \"\"\npassword = \"\"\n"),
        ("duplicate keys", "[[client]]\nusername = \"u\"\nusername = \"v\"\npassword = \"p\"\n"), ("array username", "[[client]]\nusername = [\"u\"]\npassword = \"p\"\n"),
    ] {
        let path = dir.join("cred-bad.toml");
        std::fs::write(&path, content).unwrap();
        rep.evals(1);
        rep.distinct(common::fnv(content.as_bytes()));
        match common::catch(|| toml::from_str::<Settings>(&settings_toml(Some(&path), "127.0.0.1:1443", PROTOS_H1, ""))) {
            Err(p) => rep.violation(&format!("malformed credentials file ({}) panics the loader", name), json!({"kind":"credentials-file","file":content,"panic":p})),
            Ok(Ok(s)) => {
                let got: Vec<(String, String)> = s.get_clients().iter().map(|c| (c.username.clone(), c.password.clone())).collect();
                match reference_clients(content) {
                    Some(r) if r == got && !r.iter().any(|(u, p)| u.is_empty() || p.is_empty()) => rep.tally("malformed-ish credentials file read per TOML", 1),
                    _ => rep.violation(&format!("malformed credentials file ({}) accepted with invented values", name), json!({"kind":"credentials-file","file":content,"endpoint_reads":format!("{:?}", got)})),
                }
            }
            Ok(Err(_)) => rep.tally("malformed credentials file rejected", 1),
        }
    }
}

fn string_class(s: &str) -> &'static str {
    if s.contains('"') { "contains a double quote" }
    else if s.contains('\\') { "contains a backslash" }
    else if s.contains('\'') { "contains an apostrophe" }
    else if s.starts_with(' ') || s.ends_with(' ') { "leading/trailing space" }
    else if s.contains('\n') || s.contains('\t') || s.chars().any(|c| (c as u32) < 0x20) { "control character / escape" }
    else if !s.is_ascii() { "non-ASCII" }
    else { "plain" }
}

fn startup_part(rep: &Arc<Reporter>, args: &Args, hosts_path: &Path, main_cert: (&str, &str)) {
    let dir = env::work_dir(&args.root, "c13");
    let cred = dir.join("cred-ok.toml");
    std::fs::write(&cred, "[[client]]\nusername = \"u\"\npassword = \"p\"\n").unwrap();
    let _ = hosts_path;
    let host_entry = |class: &str, name: &str, cert: &str, key: &str| format!("[[{}]]\nhostname = \"{}\"\ncert_chain_path = \"{}\"\nprivate_key_path = \"{}\"\n", class, name, cert, key);
    // the wizard writes paths relative to its working directory: use absolute ones here
    let hosts_ok = host_entry("main_hosts", "vpn.example.com", main_cert.0, main_cert.1);
    let garbage = dir.join("garbage.pem");
    std::fs::write(&garbage, "garbage").unwrap();
    // (name, settings TOML, hosts TOML, must start?)
    let cases: Vec<(&str, String, String, Option<bool>)> = vec![
        ("loopback, no credentials", settings_toml(None, "127.0.0.1:1443", PROTOS_H1, ""), hosts_ok.clone(), Some(true)),
        ("::1, no credentials", settings_toml(None, "[::1]:1443", PROTOS_H1, ""), hosts_ok.clone(), Some(true)),
        ("public address, no credentials", settings_toml(None, "0.0.0.0:1443", PROTOS_H1, ""), hosts_ok.clone(), Some(false)),
        ("routable address, no credentials", settings_toml(None, "203.0.113.5:1443", PROTOS_H1, ""), hosts_ok.clone(), Some(false)),
        ("[::], no credentials", settings_toml(None, "[::]:1443", PROTOS_H1, ""), hosts_ok.clone(), Some(false)),
        ("public address, credentials", settings_toml(Some(&cred), "0.0.0.0:1443", PROTOS_H1, ""), hosts_ok.clone(), Some(true)),
        ("127.0.0.2 (loopback block), no credentials", settings_toml(None, "127.0.0.2:1443", PROTOS_H1, ""), hosts_ok.clone(), Some(true)),
        ("::ffff:127.0.0.1, no credentials", settings_toml(None, "[::ffff:127.0.0.1]:1443", PROTOS_H1, ""), hosts_ok.clone(), None),
        ("no listen protocol", settings_toml(Some(&cred), "127.0.0.1:1443", "[listen_protocols]\n", ""), hosts_ok.clone(), Some(false)),
        ("only quic", settings_toml(Some(&cred), "127.0.0.1:1443", "[listen_protocols]\n[listen_protocols.quic]\n", ""), hosts_ok.clone(), Some(true)),
        ("reverse proxy port 0", settings_toml(Some(&cred), "127.0.0.1:1443", PROTOS_H1, "[reverse_proxy]\nserver_address = \"127.0.0.1:0\"\npath_mask = \"/rp\"\n"), hosts_ok.clone(), Some(false)),
        ("reverse proxy mask without slash", settings_toml(Some(&cred), "127.0.0.1:1443", PROTOS_H1, "[reverse_proxy]\nserver_address = \"127.0.0.1:8080\"\npath_mask = \"rp\"\n"), hosts_ok.clone(), Some(false)),
        ("reverse proxy empty mask", settings_toml(Some(&cred), "127.0.0.1:1443", PROTOS_H1, "[reverse_proxy]\nserver_address = \"127.0.0.1:8080\"\npath_mask = \"\"\n"), hosts_ok.clone(), Some(false)),
        ("reverse proxy valid", settings_toml(Some(&cred), "127.0.0.1:1443", PROTOS_H1, "[reverse_proxy]\nserver_address = \"127.0.0.1:8080\"\npath_mask = \"/rp\"\n"), hosts_ok.clone(), Some(true)),
        ("duplicate host across classes", settings_toml(Some(&cred), "127.0.0.1:1443", PROTOS_H1, ""), format!("{}{}", host_entry("main_hosts", "dup.test", main_cert.0, main_cert.1), host_entry("ping_hosts", "dup.test", main_cert.0, main_cert.1)), Some(false)),
        ("duplicate main host", settings_toml(Some(&cred), "127.0.0.1:1443", PROTOS_H1, ""), format!("{}{}", host_entry("main_hosts", "dup.test", main_cert.0, main_cert.1), host_entry("main_hosts", "dup.test", main_cert.0, main_cert.1)), Some(false)),
        ("garbage certificate", settings_toml(Some(&cred), "127.0.0.1:1443", PROTOS_H1, ""), host_entry("main_hosts", "g.test", &garbage.to_string_lossy(), &garbage.to_string_lossy()), Some(false)),
        ("missing certificate file", settings_toml(Some(&cred), "127.0.0.1:1443", PROTOS_H1, ""), host_entry("main_hosts", "m.test", "/nonexistent/cert.pem", "/nonexistent/key.pem"), Some(false)),
        ("no main host", settings_toml(Some(&cred), "127.0.0.1:1443", PROTOS_H1, ""), host_entry("ping_hosts", "p.test", main_cert.0, main_cert.1), Some(false)),
        ("key used as certificate", settings_toml(Some(&cred), "127.0.0.1:1443", PROTOS_H1, ""), host_entry("main_hosts", "k.test", main_cert.1, main_cert.1), None),
    ];
    let mut cases: Vec<(String, String, String, Option<bool>)> = cases.into_iter().map(|(n, a, b, c)| (n.to_string(), a, b, c)).collect();
    // more listen-address / credentials combinations
    {
        let empty = dir.join("cred-empty.toml");
        std::fs::write(&empty, "").unwrap();
        cases.push(("public address, credentials file without any client".into(), settings_toml(Some(&empty), "0.0.0.0:1443", PROTOS_H1, ""), hosts_ok.clone(), Some(false)));
        cases.push(("routable IPv6 address, no credentials".into(), settings_toml(None, "[2001:db8::5]:1443", PROTOS_H1, ""), hosts_ok.clone(), Some(false)));
        cases.push(("private address 10.0.0.5, no credentials".into(), settings_toml(None, "10.0.0.5:1443", PROTOS_H1, ""), hosts_ok.clone(), None));
        // (a file without a `client` array is itself refused by the loader: either outcome is documented behaviour)
        cases.push(("loopback, credentials file without any client".into(), settings_toml(Some(&empty), "127.0.0.1:1443", PROTOS_H1, ""), hosts_ok.clone(), None));
    }
    // every pair of host classes sharing a host name (i == j: twice within one class); control: four distinct names start
    {
        let classes = ["main_hosts", "ping_hosts", "speedtest_hosts", "reverse_proxy_hosts"];
        let rp = "[reverse_proxy]\nserver_address = \"127.0.0.1:8080\"\npath_mask = \"/rp\"\n";
        let build = |names: [Vec<&str>; 4]| -> String {
            let mut ht = String::new();
            for (k, class) in classes.iter().enumerate() { for n in &names[k] { ht.push_str(&host_entry(class, n, main_cert.0, main_cert.1)); } }
            ht
        };
        cases.push(("four host classes with distinct names".into(), settings_toml(Some(&cred), "127.0.0.1:1443", PROTOS_H1, rp), build([vec!["m.test"], vec!["p.test"], vec!["s.test"], vec!["r.test"]]), Some(true)));
        for i in 0..4 {
            for j in i..4 {
                let mut names: [Vec<&str>; 4] = [vec!["m.test"], vec![], vec![], vec![]];
                names[i].push("dup.test");
                names[j].push("dup.test");
                cases.push((format!("duplicate host name in {} and {}", classes[i], classes[j]), settings_toml(Some(&cred), "127.0.0.1:1443", PROTOS_H1, rp), build(names), Some(false)));
            }
        }
    }
    for (name, st, ht, want) in cases {
        let name = name.as_str();
        rep.evals(1);
        rep.distinct(common::fnv(format!("startup|{}", name).as_bytes()));
        let started = common::catch(|| -> Result<(), String> {
            let settings: Settings = toml::from_str(&st).map_err(|e| format!("settings: {}", e))?;
            let hosts: TlsHostsSettings = toml::from_str(&ht).map_err(|e| format!("hosts: {}", e))?;
            let auth: Option<Arc<dyn Authenticator>> = if settings.get_clients().is_empty() { None } else { Some(Arc::new(RegistryBasedAuthenticator::new(settings.get_clients()))) };
            trusttunnel::core::Core::new(settings, auth, hosts, trusttunnel::shutdown::Shutdown::new()).map(|_| ()).map_err(|e| format!("core: {:?}", e))
        });
        let w = |r: &str| json!({"kind":"startup","case":name,"settings":st,"hosts":ht.chars().take(300).collect::<String>(),"outcome":r});
        match (started, want) {
            (Err(p), _) => rep.violation(&format!("start-up panicked: {}", name), w(&p)),
            (Ok(Ok(())), Some(false)) => rep.violation(&format!("endpoint starts although it must refuse: {}", name), w("started")),
            (Ok(Err(e)), Some(true)) => rep.violation(&format!("valid configuration refused: {}", name), w(&e)),
            (Ok(r), None) => rep.tally(&format!("startup either: {} -> {}", name, if r.is_ok() { "started" } else { "refused" }), 1),
            (Ok(_), _) => rep.tally("startup: outcome as documented", 1),
        }
    }
}

fn bins_dir(args: &Args) -> PathBuf {
    args.root.join("harness").join("target").join("repo-bins")
}

fn build_bins(args: &Args) -> Result<PathBuf, String> {
    let out = Command::new("cargo").current_dir("/repo").args(["build", "--release", "--offline", "-p", "trusttunnel_endpoint", "-p", "trusttunnel_endpoint_tools", "--target-dir"]).arg(bins_dir(args)).output().map_err(|e| e.to_string())?;
    if !out.status.success() { return Err(String::from_utf8_lossy(&out.stderr).chars().rev().take(1500).collect::<String>().chars().rev().collect()); }
    Ok(bins_dir(args).join("release"))
}

fn binaries_part(rep: &Arc<Reporter>, args: &Args) -> Option<(PathBuf, (String, String))> {
    let bins = match build_bins(args) {
        Ok(b) => b,
        Err(e) => { println!("BUILD-FAILURE property=C13 endpoint/setup_wizard binaries do not build\n{}", e); std::process::exit(3); }
    };
    let mut r = Rng::derive(args.seed, 0xc13b, 0);
    let strings = pool(&mut r, 0);
    let n = args.qt(24, 400);
    let mut hosts_info = None;
    for i in 0..n {
        let user = strings[(i * 7 + 3) % strings.len()].replace(':', "_").replace('\n', " ").replace('\0', "");
        let pass = strings[(i * 11 + 5) % strings.len()].replace('\0', "");
        // the -c argument is <username>:<password>: only the FIRST colon separates them, passwords may contain more
        let pass = match i % 6 { 1 => format!("{}:mid:tail", pass), 4 => format!(":{}", pass), _ => pass };
        if user.is_empty() || pass.is_empty() || user.starts_with('-') || user.len() > 200 || pass.len() > 200 { continue; }
        let dir = env::work_dir(&args.root, "c13").join(format!("wiz{}", i));
        let _ = std::fs::remove_dir_all(&dir);
        std::fs::create_dir_all(&dir).unwrap();
        let w = Command::new(bins.join("setup_wizard")).current_dir(&dir)
            .args(["-m", "non-interactive", "-a", "127.0.0.1:4443", "-n", "vpn.example.com", "--lib-settings", "vpn.toml", "--hosts-settings", "hosts.toml", "-c"]).arg(format!("{}:{}", user, pass))
            .stdin(std::process::Stdio::null()).output();
        rep.evals(1);
        rep.distinct(common::fnv(format!("wiz|{}|{}", user, pass).as_bytes()));
        let witness = |what: &str| json!({"kind":"wizard-roundtrip","username":user,"password":pass,"what":what.chars().take(600).collect::<String>(),
            "credentials_file":std::fs::read_to_string(dir.join("credentials.toml")).unwrap_or_default()});
        match w {
            Ok(o) if o.status.success() => {}
            Ok(o) => { rep.violation("setup_wizard failed in non-interactive mode", witness(&String::from_utf8_lossy(&o.stderr))); continue; }
            Err(e) => { rep.inconclusive(&format!("cannot run setup_wizard: {}", e)); continue; }
        }
        if hosts_info.is_none() {
            if let Ok(h) = std::fs::read_to_string(dir.join("hosts.toml")) {
                if let Ok(v) = toml::from_str::<toml::Value>(&h) {
                    let m = &v["main_hosts"][0];
                    let abs = |p: &str| if Path::new(p).is_absolute() { p.to_string() } else { dir.join(p).to_string_lossy().to_string() };
                    hosts_info = Some((dir.join("hosts.toml"), (abs(m["cert_chain_path"].as_str().unwrap_or("")), abs(m["private_key_path"].as_str().unwrap_or("")))));
                }
            }
        }
        // the wizard's own files, read by a conforming reader
        let cred = std::fs::read_to_string(dir.join("credentials.toml")).unwrap_or_default();
        if reference_clients(&cred) != Some(vec![(user.clone(), pass.clone())]) {
            rep.violation("setup_wizard wrote credentials that do not read back as given", witness(&cred));
            continue;
        }
        // the endpoint binary reads them and exports the client configuration
        let e = Command::new(bins.join("trusttunnel_endpoint")).current_dir(&dir).args(["vpn.toml", "hosts.toml", "-a", "203.0.113.1", "-c"]).arg(&user).stdin(std::process::Stdio::null()).output();
        match e {
            Ok(o) if o.status.success() => {
                let out = String::from_utf8_lossy(&o.stdout).to_string();
                match toml::from_str::<toml::Value>(&out) {
                    Ok(v) if v.get("username").and_then(|x| x.as_str()) == Some(&user) && v.get("password").and_then(|x| x.as_str()) == Some(&pass) => rep.tally("wizard -> endpoint -> exported client config: same pair", 1),
                    Ok(v) => rep.violation("endpoint exports a different pair than the wizard was given", witness(&format!("{:?} / {:?}", v.get("username"), v.get("password")))),
                    Err(err) => rep.violation("exported client configuration is not valid TOML", witness(&format!("{}\n{}", err, out))),
                }
            }
            Ok(o) => rep.violation(&format!("endpoint cannot use the files the wizard wrote ({})", string_class(&format!("{}{}", user, pass))), witness(&format!("{}{}", String::from_utf8_lossy(&o.stdout), String::from_utf8_lossy(&o.stderr)))),
            Err(e) => rep.inconclusive(&format!("cannot run trusttunnel_endpoint: {}", e)),
        }
    }
    hosts_info
}

pub fn run(args: &Args) -> i32 {
    let rep = Arc::new(Reporter::new(
        args,
        "exploration",
        "credentials: a hostile pool of user names/passwords (quotes, backslashes, escapes, apostrophes, padding, control characters, Unicode, 600 bytes, \
         seeded strings over a hostile alphabet) written in every TOML string form that can express them (basic, literal, multi-line, \\u escapes), as user \
         name and as password: Settings::get_clients vs the `toml` crate's reading of the same file, authenticator verdict, exported client config; \
         malformed credentials files; sub-process round trips setup_wizard -> trusttunnel_endpoint -c built from the working tree; start-up matrix \
         (credentials x listen address class x protocols x reverse proxy x host files) through toml::from_str + Core::new. distinct_nontrivial = distinct files/cases.",
    ));
    rep.assume("reference reader = the `toml` crate (serde) on the same file; an IPv4-mapped loopback listen address is EITHER");
    let hosts_info = binaries_part(&rep, args);
    let dir = env::work_dir(&args.root, "c13");
    let (info, _) = env::host_info(&dir, "vpn.example.com", vec![]);
    let hosts = TlsHostsSettings::builder().main_hosts(vec![info]).build().unwrap();
    credentials_part(&rep, args, &hosts);
    match hosts_info {
        Some((hosts_path, (c, k))) => startup_part(&rep, args, &hosts_path, (&c, &k)),
        None => rep.inconclusive("no wizard-written hosts file available for the start-up matrix"),
    }
    rep.finish()
}
