//! C02 — the TCP tunnel relays the byte stream exactly, both ways.
//!
//! The real `pipe::DuplexPipe::exchange` between four scripted endpoints under the paused clock.
//! Streams are position-coded, so loss / duplication / reordering show as a first mismatch offset.

use crate::common::report::Local;
use crate::common::{self, Args, Reporter, Rng};
use crate::env;
use crate::script::*;
use serde_json::{json, Value};
use std::collections::BTreeMap;
use std::sync::atomic::{AtomicU64, Ordering};
use std::sync::Arc;
use std::time::Duration;
use tokio::time::Instant;
use trusttunnel::verif::pipes::run_duplex_pipe;

pub const TICK_US: u64 = 1_000_000;
/// fractional part so that a timer tick under the paused clock lands strictly after the deadline
pub const FRAC_US: u64 = 370;

#[derive(Clone, Debug, PartialEq, Eq, Hash)]
pub struct Case {
    pub key: u64,
    /// [0] = client -> peer (Outgoing), [1] = peer -> client (Incoming)
    pub src: [SrcScript; 2],
    pub snk: [SinkScript; 2],
    /// idle timeout in µs; 0 = effectively never
    pub timeout_us: u64,
}

pub struct Outcome {
    pub result: Result<(), std::io::ErrorKind>,
    pub stalled: bool,
    pub finished_at: Duration,
    pub src_logs: [SharedLog; 2],
    pub snk_logs: [SharedLog; 2],
    pub metrics: [u64; 2],
}

pub const NEVER_US: u64 = 40_000 * TICK_US;
const OUTER_US: u64 = 200_000 * TICK_US;

pub async fn run_case(case: &Case) -> Outcome {
    let t0 = Instant::now();
    let (s0, ls0) = ScriptSource::new(case.key, 0, &case.src[0], t0);
    let (s1, ls1) = ScriptSource::new(case.key, 1, &case.src[1], t0);
    let (k0, lk0) = ScriptSink::new(&case.snk[0], t0);
    let (k1, lk1) = ScriptSink::new(&case.snk[1], t0);
    let m = Arc::new([AtomicU64::new(0), AtomicU64::new(0)]);
    let m2 = m.clone();
    let timeout = Duration::from_micros(if case.timeout_us == 0 { NEVER_US } else { case.timeout_us });
    // dir 0: client source s0 -> peer sink k0 ; dir 1: peer source s1 -> client sink k1
    let fut = run_duplex_pipe(
        (Box::new(s0), Box::new(k1)),
        (Box::new(s1), Box::new(k0)),
        timeout,
        move |outgoing, n| {
            m2[if outgoing { 0 } else { 1 }].fetch_add(n as u64, Ordering::Relaxed);
        },
    );
    let (result, stalled) = match tokio::time::timeout(Duration::from_micros(OUTER_US), fut).await {
        Ok(r) => (r.map_err(|e| e.kind()), false),
        Err(_) => (Err(std::io::ErrorKind::Other), true),
    };
    Outcome {
        result,
        stalled,
        finished_at: Instant::now().duration_since(t0),
        src_logs: [ls0, ls1],
        snk_logs: [lk0, lk1],
        metrics: [m[0].load(Ordering::Relaxed), m[1].load(Ordering::Relaxed)],
    }
}

fn fault_desc(case: &Case) -> String {
    for d in 0..2 {
        if case.src[d].has_error() {
            return format!("read-error dir{}", d);
        }
        if case.src[d].consume_fault.is_some() {
            return format!("consume-error dir{}", d);
        }
        if let Some(f) = case.snk[d].fault {
            return match f {
                SinkFault::Write(_) => format!("write-error dir{}", d),
                SinkFault::WaitWritable(_) => format!("wait_writable-error dir{}", d),
                SinkFault::Eof => format!("eof-error dir{}", d),
                SinkFault::Flush => format!("flush-error dir{}", d),
            };
        }
    }
    "none".into()
}

pub fn case_json(c: &Case) -> Value {
    let src = |s: &SrcScript| -> Value {
        json!({"steps": s.steps.iter().map(|x| match x {
            SrcStep::Delay(us) => format!("delay {}us", us),
            SrcStep::Chunk(n) => format!("chunk {}", n),
            SrcStep::Eof => "eof".to_string(),
            SrcStep::Error => "error".to_string(),
        }).collect::<Vec<_>>(), "consume_fault": s.consume_fault})
    };
    let snk = |s: &SinkScript| -> Value {
        json!({"quotas": s.quotas.iter().map(|q| if *q == usize::MAX { -1 } else { *q as i64 }).collect::<Vec<_>>(),
               "writable_delays_us": s.writable_delays, "flush_delay_us": s.flush_delay,
               "fault": s.fault.map(|f| format!("{:?}", f))})
    };
    json!({"key": c.key, "client_to_peer": {"source": src(&c.src[0]), "sink": snk(&c.snk[0])},
           "peer_to_client": {"source": src(&c.src[1]), "sink": snk(&c.snk[1])},
           "idle_timeout_us": c.timeout_us})
}

pub fn case_from_json(v: &Value) -> Option<Case> {
    let src = |v: &Value| -> Option<SrcScript> {
        let mut steps = vec![];
        for s in v["steps"].as_array()? {
            let s = s.as_str()?;
            if s == "eof" {
                steps.push(SrcStep::Eof);
            } else if s == "error" {
                steps.push(SrcStep::Error);
            } else if let Some(x) = s.strip_prefix("chunk ") {
                steps.push(SrcStep::Chunk(x.parse().ok()?));
            } else if let Some(x) = s.strip_prefix("delay ") {
                steps.push(SrcStep::Delay(x.trim_end_matches("us").parse().ok()?));
            }
        }
        Some(SrcScript { steps, consume_fault: v["consume_fault"].as_u64().map(|x| x as usize) })
    };
    let snk = |v: &Value| -> Option<SinkScript> {
        let fault = v["fault"].as_str().and_then(|f| {
            if f == "Eof" { Some(SinkFault::Eof) }
            else if f == "Flush" { Some(SinkFault::Flush) }
            else if let Some(x) = f.strip_prefix("Write(") { x.trim_end_matches(')').parse().ok().map(SinkFault::Write) }
            else if let Some(x) = f.strip_prefix("WaitWritable(") { x.trim_end_matches(')').parse().ok().map(SinkFault::WaitWritable) }
            else { None }
        });
        Some(SinkScript {
            quotas: v["quotas"].as_array()?.iter().map(|q| { let q = q.as_i64().unwrap_or(-1); if q < 0 { usize::MAX } else { q as usize } }).collect(),
            writable_delays: v["writable_delays_us"].as_array()?.iter().filter_map(|x| x.as_u64()).collect(),
            flush_delay: v["flush_delay_us"].as_u64().unwrap_or(0),
            fault,
        })
    };
    Some(Case {
        key: v["key"].as_u64()?,
        src: [src(&v["client_to_peer"]["source"])?, src(&v["peer_to_client"]["source"])?],
        snk: [snk(&v["client_to_peer"]["sink"])?, snk(&v["peer_to_client"]["sink"])?],
        timeout_us: v["idle_timeout_us"].as_u64()?,
    })
}

/// Times (µs) at which payload moved: a source delivered a chunk or a sink accepted bytes
pub fn activity_times(o: &Outcome, include_eof: bool) -> Vec<u64> {
    let mut t = vec![];
    for l in o.src_logs.iter().chain(o.snk_logs.iter()) {
        for (at, e) in &l.lock().unwrap().events {
            match e {
                Ev::ReadChunk(_) => t.push(at.as_micros() as u64),
                Ev::ReadEof | Ev::Eof | Ev::Flush if include_eof => t.push(at.as_micros() as u64),
                Ev::Write { accepted, .. } if *accepted > 0 => t.push(at.as_micros() as u64),
                _ => {}
            }
        }
    }
    t.sort();
    t
}

/// The oracle. Returns (signature, detail) for each refuted MUST.
pub fn judge(case: &Case, o: &Outcome, tallies: &mut BTreeMap<String, u64>) -> Vec<(String, Value)> {
    let mut bad: Vec<(String, Value)> = vec![];
    let mut t = |k: &str| *tallies.entry(k.to_string()).or_insert(0) += 1;
    let fault = fault_desc(case);
    let mut fault_fired: Option<Duration> = None;
    for l in o.src_logs.iter().chain(o.snk_logs.iter()) {
        if let Some(at) = l.lock().unwrap().fault_fired_at {
            fault_fired = Some(at);
        }
    }
    let result_s = match &o.result {
        Ok(()) => "Ok".to_string(),
        Err(k) => format!("Err({:?})", k),
    };
    let detail = |what: &str| -> Value {
        json!({"kind": "pipe", "what": what, "case": case_json(case), "result": result_s,
               "stalled": o.stalled, "finished_at_us": o.finished_at.as_micros() as u64,
               "fault_fired_at_us": fault_fired.map(|d| d.as_micros() as u64)})
    };
    for d in 0..2 {
        let src = o.src_logs[d].lock().unwrap();
        let snk = o.snk_logs[d].lock().unwrap();
        let dir = if d == 0 { "client->peer" } else { "peer->client" };
        // 1. content: what the sink received is a prefix of the coded stream
        let want = expected_bytes(case.key, d as u64, snk.received.len());
        if snk.received != want {
            let off = snk.received.iter().zip(want.iter()).position(|(a, b)| a != b).unwrap_or(0);
            bad.push((format!("{}: bytes at the sink differ from the source stream (loss/duplication/reordering)", dir),
                      detail(&format!("first mismatch at offset {}", off))));
        }
        if snk.received.len() > src.produced {
            bad.push((format!("{}: sink received more bytes than the source produced", dir), detail("")));
        }
        // 2. conservation: consume == accepted, metrics == accepted
        let accepted: usize = snk.events.iter().map(|(_, e)| if let Ev::Write { accepted, .. } = e { *accepted } else { 0 }).sum();
        let consume_failed = src.events.iter().any(|(_, e)| matches!(e, Ev::ConsumeErr));
        if src.consumed != accepted && !consume_failed {
            bad.push((format!("{}: receive-window credit (sum of consume) differs from bytes accepted by the sink", dir),
                      detail(&format!("consumed={} accepted={}", src.consumed, accepted))));
        }
        if src.consumed > accepted {
            bad.push((format!("{}: more credit returned than bytes forwarded", dir), detail("")));
        }
        if o.metrics[d] as usize != accepted {
            bad.push((format!("{}: metrics callback total differs from bytes accepted", dir),
                      detail(&format!("metrics={} accepted={}", o.metrics[d], accepted))));
        }
        // 3. per-call conservation is by construction of the sink (offered = accepted + returned)
        // 4. EOF only after every preceding byte was delivered and the source said EOF
        if snk.eof_calls > 0 {
            let total = case.src[d].total_bytes();
            let eof_pos = snk.events.iter().position(|(_, e)| matches!(e, Ev::Eof)).unwrap();
            let accepted_before: usize = snk.events[..eof_pos].iter().map(|(_, e)| if let Ev::Write { accepted, .. } = e { *accepted } else { 0 }).sum();
            let src_eof = src.events.iter().any(|(_, e)| matches!(e, Ev::ReadEof));
            if !src_eof {
                bad.push((format!("{}: end-of-stream signalled to the sink although the source never ended", dir), detail("")));
            } else if accepted_before != total {
                bad.push((format!("{}: end-of-stream passed on before all preceding bytes were delivered", dir),
                          detail(&format!("accepted_before_eof={} stream_len={}", accepted_before, total))));
            }
            if snk.events[eof_pos..].iter().any(|(_, e)| matches!(e, Ev::Write { accepted, .. } if *accepted > 0)) {
                bad.push((format!("{}: data written to the sink after end-of-stream", dir), detail("")));
            }
            if snk.eof_calls > 1 {
                t("observed: eof signalled more than once (not judged)");
            }
        }
        if snk.spin_detected {
            bad.push((format!("{}: more than {} consecutive zero-progress writes without wait_writable (busy loop)", dir, SPIN_BOUND), detail("")));
        }
        if src.events.iter().any(|(_, e)| matches!(e, Ev::ReadCancelled)) || snk.events.iter().any(|(_, e)| matches!(e, Ev::WaitCancelled | Ev::FlushCancelled)) {
            t("observed: copy loop cancelled and restarted by the idle timer");
        }
        if snk.events.iter().any(|(_, e)| matches!(e, Ev::Write { offered, accepted } if accepted < offered)) {
            t("observed: partial write, remainder re-offered later");
        }
        if snk.events.iter().any(|(_, e)| matches!(e, Ev::Write { offered, accepted } if *accepted == 0 && *offered > 0)) {
            t("observed: zero-byte acceptance (full back-pressure)");
        }
        if !src.dropped || !snk.dropped {
            bad.push((format!("{}: endpoint still alive after exchange returned", dir), detail("")));
        }
    }
    // 5. completion
    let both_eof_scripted = case.src[0].ends_with_eof() && case.src[1].ends_with_eof();
    if o.result.is_ok() {
        t("result: Ok");
        for d in 0..2 {
            let snk = o.snk_logs[d].lock().unwrap();
            let total = case.src[d].total_bytes();
            if snk.received.len() != total || snk.eof_calls == 0 || snk.flush_after_eof == 0 {
                bad.push(("clean end reported although a direction was not completely delivered, ended and flushed".into(),
                          detail(&format!("dir{} received={} of {} eof_calls={} flush_after_eof={}", d, snk.received.len(), total, snk.eof_calls, snk.flush_after_eof))));
            }
        }
        if fault_fired.is_some() {
            bad.push((format!("injected {} swallowed: exchange reported a clean end", fault), detail("")));
        }
    } else {
        t(&format!("result: {}", result_s));
    }
    if let Some(at) = fault_fired {
        t(&format!("fault fired: {}", fault));
        // 6. a failure tears the whole tunnel down promptly
        if o.stalled {
            bad.push((format!("after injected {} the exchange never returned (other direction kept alive / stalled)", fault), detail("")));
        } else if o.finished_at > at + Duration::from_micros(TICK_US) {
            bad.push((format!("after injected {} the exchange kept running for more than one tick", fault),
                      detail(&format!("fault at {:?}, returned at {:?}", at, o.finished_at))));
        }
    } else if o.stalled {
        if both_eof_scripted {
            bad.push(("no fault injected, both directions end, but the exchange never finished (stall)".into(), detail("")));
        } else {
            t("observed: idle forever by script (no EOF scripted), outer watchdog");
        }
    } else if let Err(k) = &o.result {
        if *k == std::io::ErrorKind::TimedOut {
            // whether an idle timeout was due is C14's question; here it only ends the case
            t("observed: idle timeout ended the case (judged by C14)");
        } else {
            bad.push((format!("exchange failed with {:?} although no fault was injected", k), detail("")));
        }
    }
    bad
}

fn gen_src(r: &mut Rng, small: bool, allow_fault: bool) -> SrcScript {
    let mut steps = vec![];
    let nchunks = if small { r.below(4) } else { r.range(1, 12) } as usize;
    let mut budget = if small { 6usize } else { 256 * 1024 };
    for _ in 0..nchunks {
        if r.chance(1, 2) {
            steps.push(SrcStep::Delay(r.pick(&[0u64, 1, 2]).to_owned() * TICK_US + if r.chance(1, 4) { r.below(999) } else { 0 }));
        }
        let n = if small { r.range(1, 3) as usize } else { *r.pick(&[1usize, 7, 100, 1460, 16384, 65536]) };
        let n = n.min(budget.max(1));
        budget = budget.saturating_sub(n);
        steps.push(SrcStep::Chunk(n));
    }
    if r.chance(1, 3) {
        steps.push(SrcStep::Delay(r.below(3) * TICK_US));
    }
    if allow_fault {
        let pos = r.below(steps.len() as u64 + 1) as usize;
        steps.insert(pos, SrcStep::Error);
    } else if r.chance(9, 10) {
        steps.push(SrcStep::Eof);
    }
    SrcScript { steps, consume_fault: None }
}

fn gen_snk(r: &mut Rng, small: bool) -> SinkScript {
    let nq = r.below(5) as usize;
    let quotas = (0..nq)
        .map(|_| if small { *r.pick(&[0usize, 1, 2, usize::MAX]) } else { *r.pick(&[0usize, 1, 13, 1000, 16384, usize::MAX]) })
        .collect();
    let nd = r.below(4) as usize;
    let writable_delays = (0..nd).map(|_| *r.pick(&[0u64, 1, 2]) * TICK_US).collect();
    SinkScript {
        quotas,
        writable_delays,
        flush_delay: if r.chance(1, 4) { r.range(1, 2) * TICK_US } else { 0 },
        fault: None,
    }
}

pub fn gen_case(seed: u64, idx: u64, small: bool) -> Case {
    let mut r = Rng::derive(seed, 0xc02, idx);
    let fault_kind = r.below(10); // 0..3 none, others pick a fault site
    let fault_dir = r.below(2) as usize;
    let mut src = [gen_src(&mut r, small, false), gen_src(&mut r, small, false)];
    let mut snk = [gen_snk(&mut r, small), gen_snk(&mut r, small)];
    match fault_kind {
        4 => src[fault_dir] = gen_src(&mut r, small, true),
        5 => snk[fault_dir].fault = Some(SinkFault::Write(r.range(1, 4) as usize)),
        6 => snk[fault_dir].fault = Some(SinkFault::WaitWritable(r.range(1, 3) as usize)),
        7 => snk[fault_dir].fault = Some(SinkFault::Flush),
        8 => snk[fault_dir].fault = Some(SinkFault::Eof),
        9 => src[fault_dir].consume_fault = Some(r.range(1, 3) as usize),
        _ => {}
    }
    let timeout_us = if r.chance(1, 2) { 0 } else { 3 * TICK_US + FRAC_US };
    Case { key: r.next(), src, snk, timeout_us }
}

fn class_of(case: &Case) -> String {
    let chunk = |s: &SrcScript| {
        let n = s.steps.iter().filter(|x| matches!(x, SrcStep::Chunk(_))).count();
        match n { 0 => "empty", 1 => "one", _ => "multi" }
    };
    let bp = |s: &SinkScript| {
        if s.quotas.iter().any(|q| *q == 0) { "zero" } else if s.quotas.iter().any(|q| *q != usize::MAX) { "partial" } else { "free" }
    };
    format!("{}/{}|{}/{}|{}|{}", chunk(&case.src[0]), chunk(&case.src[1]), bp(&case.snk[0]), bp(&case.snk[1]),
            fault_desc(case), if case.timeout_us == 0 { "no-timer" } else { "timer" })
}

pub fn run(args: &Args) -> i32 {
    let rep = Arc::new(Reporter::new(
        args,
        "fault_enumeration",
        "case = (chunking+delays of both sources, acceptance quotas+writability delays of both sinks, idle timer, \
         at most one injected fault: read/consume/write/wait_writable/eof/flush error at a chosen call) drawn from a seeded \
         generator (small scope: streams <= 6 bytes, quotas {0,1,2,inf}, delays {0,1,2} ticks, timer {never, 3 ticks}; large: \
         up to 256 KiB). distinct_nontrivial = distinct case descriptors with at least one byte to move or a fault to hit. \
         L2 (coverage.l2): position-coded streams through real HTTP/1.1 and HTTP/2 tunnels over TLS on loopback.",
    ));
    rep.assume("L1: mirror endpoints implement the pipe::Source/Sink contract (flush after eof succeeds); L2: real codec sinks end to end on loopback, stall = 30 s without a byte of progress in either direction (inconclusive if scheduler lag exceeded 2 s); HTTP/3 tunnels over real QUIC on loopback, incl. a 400 ms window in which every packet from the endpoint is lost");
    rep.assume("virtual time (tokio paused clock); stall = no completion within 200000 virtual seconds");
    if args.has_flag("--only-h3") { crate::props::h3_l2::c02_h3(&rep, args); return rep.finish(); }
    if let Some(p) = &args.replay {
        let v: Value = serde_json::from_str(&std::fs::read_to_string(p).unwrap_or_default()).unwrap_or_default();
        let Some(case) = case_from_json(&v["witness"]["case"]) else {
            println!("cannot parse witness");
            return 2;
        };
        let rt = env::rt_paused();
        let o = rt.block_on(run_case(&case));
        let mut tl = BTreeMap::new();
        rep.evals(1);
        for (sig, d) in judge(&case, &o, &mut tl) {
            rep.violation(&sig, d);
        }
        return rep.finish();
    }
    let n = common::workers();
    let seed = args.seed;
    let (n_small, n_large) = if args.thorough() { (60_000_000u64, 1_000_000u64) } else { (6_000_000u64, 100_000u64) };
    let watch = {
        let rep = rep.clone();
        crate::common::wedge::Watch::start(n, 10, move |_s, idx, small, _c, _d, cpu| {
            let case = gen_case(seed, idx, small == 1);
            rep.violation(
                "pipe wedged: one case consumed more than 10 CPU-seconds (busy loop inside exchange)",
                json!({"kind": "pipe", "case": case_json(&case), "cpu_seconds": cpu}),
            );
            std::process::exit(rep.finish());
        })
    };
    let slots = watch.slots.clone();
    let results = common::parallel(n, move |shard, nshards| {
        let slot = slots[shard].clone();
        slot.attach();
        let rt = env::rt_paused();
        let mut local = Local::default();
        let mut bad: BTreeMap<String, Value> = BTreeMap::new();
        let mut classes: std::collections::HashSet<String> = Default::default();
        let mut samples = vec![];
        for (count, small) in [(n_small, true), (n_large, false)] {
            let mut idx = shard as u64;
            while idx < count {
                let real_idx = idx + if small { 0 } else { 1 << 40 };
                let case = gen_case(seed, real_idx, small);
                slot.set(real_idx, small as u64, 0, 0);
                let o = rt.block_on(run_case(&case));
                local.evals += 1;
                if case.src[0].total_bytes() + case.src[1].total_bytes() > 0 || fault_desc(&case) != "none" {
                    local.distinct.push(common::hash_of(&case));
                }
                classes.insert(class_of(&case));
                for (sig, d) in judge(&case, &o, &mut local.tallies) {
                    bad.entry(sig).or_insert(d);
                }
                if samples.len() < 1 && idx > 100 && fault_desc(&case) != "none" {
                    samples.push(json!({"case": case_json(&case), "result": format!("{:?}", o.result), "finished_at_us": o.finished_at.as_micros() as u64}));
                }
                idx += nshards as u64;
            }
        }
        slot.detach();
        (local, bad, classes, samples)
    });
    let mut classes_all: std::collections::HashSet<String> = Default::default();
    for (local, bad, classes, samples) in results {
        for (sig, d) in bad {
            rep.violation(&sig, d);
        }
        for s in samples {
            rep.sample(s);
        }
        classes_all.extend(classes);
        local.merge_into(&rep);
    }
    rep.set("distinct_case_classes", json!(classes_all.len()));
    rep.tally("distinct (chunking x back-pressure x fault x timer) classes", classes_all.len() as u64);
    crate::props::c02_l2::run_l2(&rep, args);
    rep.finish()
}
