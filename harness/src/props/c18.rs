//! C18 — ping, speedtest and reverse-proxy channels do exactly what is documented.

use crate::common::{self, Args, Reporter, Rng};
use crate::env;
use crate::kit::*;
use crate::tun::*;
use bytes::Bytes;
use serde_json::json;
use std::net::SocketAddr;
use std::sync::Arc;
use std::time::Duration;
use tokio::io::{AsyncReadExt, AsyncWriteExt};
use trusttunnel::verif::ctx::Ctx;
use trusttunnel::verif::net as vnet;
use trusttunnel::verif::tunnel::{make_codec, run_ping, run_reverse_proxy, run_speedtest, Fwd, Policy, Proto};

pub const MIB: usize = 1 << 20;

#[derive(Clone, Copy, Debug, PartialEq, Eq)]
pub enum Via {
    /// handler run directly on the session (what an SNI-selected host gets)
    Direct,
    /// through the main host: Tunnel + HttpDownstream + HttpDemux markers
    MainHost,
}

#[derive(Clone, Copy, Debug, PartialEq, Eq)]
pub enum Handler {
    Ping,
    Speedtest,
}

fn open_handler_session(ctx: &Arc<Ctx>, proto: Proto, handler: Handler, via: Via, fwd: &Arc<RecFwd>, id: u64) -> (tokio::io::DuplexStream, tokio::task::JoinHandle<()>) {
    match via {
        Via::MainHost => {
            let s = open_session(ctx, proto, How::Tunnel(Fwd::Scripted(fwd.clone()), Policy::Default), "main.test", false, id);
            let j = tokio::spawn(async move { let _ = s.server.await; });
            (s.client, j)
        }
        Via::Direct => {
            let (client, server_io) = tokio::io::duplex(256 * 1024);
            let ctx = ctx.clone();
            let peer: SocketAddr = CLIENT_PEER.parse().unwrap();
            let j = tokio::spawn(async move {
                let codec = match make_codec(&ctx, proto, server_io, peer, id) { Ok(c) => c, Err(_) => return };
                match handler {
                    Handler::Ping => run_ping(&ctx, codec, Duration::from_secs(10), id).await,
                    Handler::Speedtest => run_speedtest(&ctx, codec, Duration::from_secs(10), id).await,
                }
            });
            (client, j)
        }
    }
}

struct Obs {
    status: Option<u16>,
    body_len: usize,
    body_nonzero: bool,
    error: Option<String>,
}

/// One request; the body is read with the given pattern (chunk size, virtual pause every n chunks)
async fn request(ctx: &Arc<Ctx>, proto: Proto, handler: Handler, via: Via, fwd: &Arc<RecFwd>, req: &Req, upload: usize, slow: (usize, u64), id: u64) -> Obs {
    let (client, server) = open_handler_session(ctx, proto, handler, via, fwd, id);
    let mut obs = Obs { status: None, body_len: 0, body_nonzero: false, error: None };
    match proto {
        Proto::H1 => {
            let (mut rd, mut wr) = tokio::io::split(client);
            let head = h1_encode(req);
            let up = tokio::spawn(async move {
                let _ = wr.write_all(&head).await;
                let chunk = vec![0x5au8; 64 * 1024];
                let mut left = upload;
                while left > 0 {
                    let n = left.min(chunk.len());
                    if wr.write_all(&chunk[..n]).await.is_err() { break; }
                    left -= n;
                    if slow.1 >= 1000 { let _ = wr.flush().await; tokio::time::sleep(Duration::from_millis(slow.1)).await; }
                }
                let _ = wr.flush().await;
                tokio::time::sleep(Duration::from_secs(3600)).await;
                drop(wr);
            });
            let mut buf = vec![0u8; slow.0.max(1)];
            let mut got: Vec<u8> = vec![];
            let mut head_len = None;
            let mut chunks = 0u64;
            loop {
                match tokio::time::timeout(Duration::from_secs(60), rd.read(&mut buf)).await {
                    Ok(Ok(0)) => break,
                    Ok(Ok(n)) => {
                        if head_len.is_none() {
                            got.extend_from_slice(&buf[..n]);
                            if let Ok(Some(h)) = parse_h1_head(&got) {
                                obs.status = Some(h.status);
                                head_len = Some(h.head_len);
                                obs.body_len = got.len() - h.head_len;
                                obs.body_nonzero |= got[h.head_len..].iter().any(|b| *b != 0);
                            }
                        } else {
                            obs.body_len += n;
                            obs.body_nonzero |= buf[..n].iter().any(|b| *b != 0);
                        }
                        chunks += 1;
                        if slow.1 > 0 && chunks % (if slow.1 >= 1000 { 4 } else { 64 }) == 0 { tokio::time::sleep(Duration::from_millis(slow.1)).await; }
                    }
                    Ok(Err(e)) => { obs.error = Some(e.to_string()); break; }
                    Err(_) => { if head_len.is_none() { obs.error = Some("no response".into()); } break; }
                }
            }
            up.abort();
        }
        _ => {
            let (mut send, conn) = match h2_client(client).await { Ok(x) => x, Err(e) => { obs.error = Some(e); return obs; } };
            let mut b = http::Request::builder().method(req.method.as_str()).uri(req.target.as_str());
            for (n, v) in &req.headers { b = b.header(n.as_str(), http::HeaderValue::from_bytes(v).unwrap()); }
            let _ = futures::future::poll_fn(|cx| send.poll_ready(cx)).await;
            match send.send_request(b.body(()).unwrap(), upload == 0) {
                Ok((fut, mut stream)) => {
                    let up = tokio::spawn(async move {
                        let mut left = upload;
                        while left > 0 {
                            let n = left.min(16 * 1024);
                            stream.reserve_capacity(n);
                            match futures::future::poll_fn(|cx| stream.poll_capacity(cx)).await {
                                Some(Ok(c)) if c > 0 => {
                                    let c = c.min(n);
                                    if stream.send_data(Bytes::from(vec![0x5au8; c]), left == c).is_err() { break; }
                                    left -= c;
                                    if slow.1 >= 1000 { tokio::time::sleep(Duration::from_millis(slow.1 / 4)).await; }
                                }
                                _ => break,
                            }
                        }
                    });
                    match tokio::time::timeout(Duration::from_secs(120), fut).await {
                        Ok(Ok(r)) => {
                            obs.status = Some(r.status().as_u16());
                            let mut body = r.into_body();
                            let mut chunks = 0u64;
                            loop {
                                match tokio::time::timeout(Duration::from_secs(60), body.data()).await {
                                    Ok(Some(Ok(b))) => {
                                        obs.body_len += b.len();
                                        obs.body_nonzero |= b.iter().any(|x| *x != 0);
                                        chunks += 1;
                                        if slow.1 > 0 && chunks % (if slow.1 >= 1000 { 4 } else { 16 }) == 0 { tokio::time::sleep(Duration::from_millis(slow.1)).await; }
                                        let _ = body.flow_control().release_capacity(b.len());
                                    }
                                    Ok(Some(Err(e))) => { obs.error = Some(e.to_string()); break; }
                                    Ok(None) => break,
                                    Err(_) => { obs.error = Some("body stalled".into()); break; }
                                }
                            }
                        }
                        Ok(Err(e)) => obs.error = Some(e.to_string()),
                        Err(_) => obs.error = Some("no response".into()),
                    }
                    up.abort();
                }
                Err(e) => obs.error = Some(e.to_string()),
            }
            conn.abort();
        }
    }
    server.abort();
    obs
}

fn ping_part(rep: &Arc<Reporter>, ctx: &Arc<Ctx>) {
    let rt = env::rt_paused();
    let mut id = 100;
    for proto in [Proto::H1, Proto::H2] {
        for via in [Via::Direct, Via::MainHost] {
            for (method, path, marker) in [("GET", "/", "x-ping"), ("GET", "/", "sec-fetch-mode"), ("HEAD", "/anything?x=1", "x-ping"), ("POST", "/", "x-ping"), ("GET", "/speed/1mb.bin", "x-ping"),
                // authority-form targets bearing a marker: a ping all the same, never a tunnel to the named destination
                ("CONNECT", "steered.example:443", "x-ping"), ("CONNECT", "203.0.113.9:22", "sec-fetch-mode")] {
                id += 1;
                let fwd = RecFwd::new(|_| Outcome::Echo);
                let mut req = if method == "CONNECT" { let mut r = Req::new("CONNECT", path); r.end_stream = false; r } else { Req::new(method, &format!("https://main.test{}", path)) };
                if marker == "x-ping" { req = req.header("x-ping", b"1"); } else { req = req.header("sec-fetch-mode", b"navigate"); }
                if method == "POST" { req = req.header("content-length", b"0"); }
                let o = rt.block_on(request(ctx, proto, Handler::Ping, via, &fwd, &req, 0, (65536, 0), id));
                rep.evals(1);
                rep.distinct(common::fnv(format!("ping|{:?}|{:?}|{}|{}|{}", proto, via, method, path, marker).as_bytes()));
                let w = json!({"kind":"ping","protocol":format!("{:?}", proto),"via":format!("{:?}", via),"method":method,"path":path,"marker":marker,"status":o.status,"body_len":o.body_len,"error":o.error,"forwarder_events":fwd.egress_count()});
                if o.status != Some(200) { rep.violation(&format!("ping request not answered 200 ({:?})", via), w); }
                else if o.body_len != 0 { rep.violation("ping response carries a body", w); }
                else if fwd.egress_count() != 0 { rep.violation("ping request caused egress", w); }
                else { rep.tally(&format!("ping {:?} {:?}: 200, empty, no credentials asked, no egress", proto, via), 1); }
            }
        }
    }
}

fn speedtest_part(rep: &Arc<Reporter>, args: &Args, ctx: &Arc<Ctx>) {
    let rt = env::rt_paused();
    let mut id = 1000;
    let mut rng = Rng::derive(args.seed, 0xc18, 0);
    // (path, expected megabytes or None for 400, either)
    let mut downloads: Vec<(String, Option<usize>, bool)> = vec![
        ("/1mb.bin".into(), Some(1), false), ("/2mb.bin".into(), Some(2), false), ("/0mb.bin".into(), None, false), ("/101mb.bin".into(), None, false),
        ("/1MB.bin".into(), None, false), ("/mb.bin".into(), None, false), ("/-1mb.bin".into(), None, false), ("/1mb.bin.x".into(), None, false),
        ("/1.5mb.bin".into(), None, false), ("/4294967297mb.bin".into(), None, false), ("/01mb.bin".into(), Some(1), true), ("/+1mb.bin".into(), Some(1), true),
        ("/x/1mb.bin".into(), None, false), ("/".into(), None, false),
    ];
    if args.thorough() {
        downloads.push(("/37mb.bin".into(), Some(37), false));
        downloads.push(("/100mb.bin".into(), Some(100), false));
    } else {
        downloads.push(("/100mb.bin".into(), Some(100), false));
    }
    for proto in [Proto::H1, Proto::H2] {
        for via in [Via::Direct, Via::MainHost] {
            for (path, want, either) in &downloads {
                if *want == Some(100) && !(args.thorough() || (proto == Proto::H2 && via == Via::Direct)) { continue; }
                id += 1;
                let fwd = RecFwd::new(|_| Outcome::Echo);
                let full = if via == Via::MainHost { format!("/speed{}", path) } else { path.clone() };
                let req = Req::new("GET", &format!("https://main.test{}", full));
                let slow = *rng.pick(&[(65536usize, 0u64), (1000, 0), (16384, 5), (65536, 50)]);
                let o = rt.block_on(request(ctx, proto, Handler::Speedtest, via, &fwd, &req, 0, slow, id));
                rep.evals(1);
                rep.distinct(common::fnv(format!("dl|{:?}|{:?}|{}", proto, via, path).as_bytes()));
                let w = json!({"kind":"speedtest-download","protocol":format!("{:?}", proto),"via":format!("{:?}", via),"path":full,"read_pattern":format!("{:?}", slow),"status":o.status,"body_len":o.body_len,"error":o.error});
                match want {
                    Some(n) => {
                        if id % 7 == 0 { rep.sample(w.clone()); }
                        if o.status == Some(200) && o.body_len == n * MIB && !o.body_nonzero {
                            rep.tally(&format!("download {:?} {:?}: exact body length", proto, via), 1);
                        } else if *either && o.status == Some(400) {
                            rep.tally("download: either-zone path answered 400", 1);
                        } else if o.status != Some(200) {
                            rep.violation(&format!("valid download request answered {:?}", o.status), w);
                        } else {
                            rep.violation(&format!("download body length wrong ({:?} {:?})", proto, via), w);
                        }
                    }
                    None => {
                        if o.status == Some(400) && o.body_len == 0 { rep.tally("download: out-of-range / malformed path answered 400", 1); }
                        else { rep.violation(&format!("invalid download request not answered 400 (path class {})", path_class(path)), w); }
                    }
                }
                if fwd.egress_count() != 0 { rep.violation("speedtest request caused egress", json!({"path":full})); }
            }
            // a reader so slow that the download outlasts the handler's request timeout (10 s) several times over:
            // the body must still be exactly N MiB (client read pacing is quantified over)
            for (path, n) in [("/1mb.bin", 1usize), ("/2mb.bin", 2)] {
                id += 1;
                let fwd = RecFwd::new(|_| Outcome::Echo);
                let full = if via == Via::MainHost { format!("/speed{}", path) } else { path.to_string() };
                let req = Req::new("GET", &format!("https://main.test{}", full));
                let slow = (16384usize, 1500u64);
                let o = rt.block_on(request(ctx, proto, Handler::Speedtest, via, &fwd, &req, 0, slow, id));
                rep.evals(1);
                rep.distinct(common::fnv(format!("dl-slow|{:?}|{:?}|{}", proto, via, path).as_bytes()));
                let w = json!({"kind":"speedtest-download","protocol":format!("{:?}", proto),"via":format!("{:?}", via),"path":full,"read_pattern":"16 KiB reads, 1.5 s pause every 4 reads (download lasts > 20 virtual seconds; handler timeout 10 s)","status":o.status,"body_len":o.body_len,"expected_body_len":n * MIB,"error":o.error});
                if o.status == Some(200) && o.body_len == n * MIB && !o.body_nonzero { rep.tally(&format!("download {:?} {:?}: exact body length with a reader slower than the request timeout", proto, via), 1); }
                else { rep.violation(&format!("download body length wrong with a reader slower than the handler's request timeout ({:?} {:?})", proto, via), w); }
            }
            // uploads
            let max = 120 * MIB;
            let uploads: Vec<(&str, &str, Option<String>, usize, Option<u16>)> = vec![
                ("POST", "/upload.html", Some("1".into()), 1, Some(200)),
                ("POST", "/upload.html", Some("70000".into()), 70000, Some(200)),
                ("POST", "/upload.html", Some((3 * MIB).to_string()), 3 * MIB, Some(200)),
                ("POST", "/upload.html", Some((max + 1).to_string()), 0, Some(400)),
                ("POST", "/upload.html", Some("0".into()), 0, None),
                ("POST", "/upload.html", None, 0, Some(400)),
                ("POST", "/upload.html", Some("abc".into()), 0, Some(400)),
                ("POST", "/upload.html", Some("-5".into()), 0, Some(400)),
                ("POST", "/upload.htm", Some("10".into()), 0, Some(400)),
                ("POST", "/x/upload.html", Some("10".into()), 0, Some(400)),
                ("PUT", "/upload.html", Some("10".into()), 0, Some(400)),
                ("DELETE", "/1mb.bin", None, 0, Some(400)),
            ];
            for (method, path, cl, send, want) in uploads {
                id += 1;
                let fwd = RecFwd::new(|_| Outcome::Echo);
                let full = if via == Via::MainHost { format!("/speed{}", path) } else { path.to_string() };
                let mut req = Req::new(method, &format!("https://main.test{}", full));
                req.end_stream = send == 0;
                if let Some(cl) = &cl { req = req.header("content-length", cl.as_bytes()); }
                let o = rt.block_on(request(ctx, proto, Handler::Speedtest, via, &fwd, &req, send, (65536, 0), id));
                rep.evals(1);
                rep.distinct(common::fnv(format!("ul|{:?}|{:?}|{}|{}|{:?}", proto, via, method, path, cl).as_bytes()));
                let w = json!({"kind":"speedtest-upload","protocol":format!("{:?}", proto),"via":format!("{:?}", via),"method":method,"path":full,"content_length":cl,"sent":send,"status":o.status,"error":o.error});
                match want {
                    Some(s) if o.status == Some(s) => rep.tally(&format!("upload -> {}", s), 1),
                    // a malformed Content-Length never reaches the handler on HTTP/2: the codec resets the stream (RFC 9113 8.1.1)
                    Some(400) if proto == Proto::H2 && o.status.is_none() && o.error.is_some() && cl_class(&cl) == "non-numeric" => rep.tally("upload: malformed Content-Length reset by the HTTP/2 layer", 1),
                    Some(s) => rep.violation(&format!("speedtest {} {} (content-length class {}) answered {:?} instead of {}", method, path, cl_class(&cl), o.status, s), w),
                    None => rep.tally("upload: Content-Length 0 (either)", 1),
                }
            }
            {
                // a paced upload that lasts longer than the handler's request timeout (10 s): consumed and answered 200 all the same
                id += 1;
                let fwd = RecFwd::new(|_| Outcome::Echo);
                let full = if via == Via::MainHost { "/speed/upload.html".to_string() } else { "/upload.html".to_string() };
                let n = 20 * 64 * 1024;
                let mut req = Req::new("POST", &format!("https://main.test{}", full)).header("content-length", n.to_string().as_bytes());
                req.end_stream = false;
                let o = rt.block_on(request(ctx, proto, Handler::Speedtest, via, &fwd, &req, n, (65536, 1500), id));
                rep.evals(1);
                rep.distinct(common::fnv(format!("ul-slow|{:?}|{:?}", proto, via).as_bytes()));
                let w = json!({"kind":"speedtest-upload","protocol":format!("{:?}", proto),"via":format!("{:?}", via),"path":full,"content_length":n,"pacing":"one 64 KiB piece per 1.5 virtual seconds (upload lasts ~30 s; handler timeout 10 s)","status":o.status,"error":o.error});
                if o.status == Some(200) { rep.tally(&format!("upload {:?} {:?}: paced upload longer than the request timeout answered 200", proto, via), 1); }
                else { rep.violation(&format!("an upload lasting longer than the handler's request timeout was not answered 200 ({:?} {:?})", proto, via), w); }
            }
            if args.thorough() && via == Via::Direct {
                // the documented maximum is accepted and consumed
                id += 1;
                let fwd = RecFwd::new(|_| Outcome::Echo);
                let mut req = Req::new("POST", "https://main.test/upload.html").header("content-length", max.to_string().as_bytes());
                req.end_stream = false;
                let o = rt.block_on(request(ctx, proto, Handler::Speedtest, via, &fwd, &req, max, (65536, 0), id));
                rep.evals(1);
                if o.status != Some(200) { rep.violation("upload of exactly 120 MiB not answered 200", json!({"status":o.status,"error":o.error,"protocol":format!("{:?}", proto)})); }
                else { rep.tally("upload of exactly 120 MiB consumed and answered 200", 1); }
            }
        }
    }
}

fn path_class(p: &str) -> &'static str {
    if p.contains("101") || p.contains("/0mb") || p.contains("4294967297") { "N out of range" } else { "malformed name" }
}

fn cl_class(cl: &Option<String>) -> &'static str {
    match cl { None => "absent", Some(x) if x.parse::<u64>().is_err() => "non-numeric", Some(x) if x.parse::<u64>().unwrap() > 120 * (1 << 20) => "over limit", _ => "in range" }
}

/// Reverse proxy against a real loopback origin (real time)
const RP_BIG: usize = 1 << 20;

fn reverse_proxy_part(rep: &Arc<Reporter>, args: &Args) {
    let dir = env::work_dir(&args.root, "c18");
    let rt = env::rt_current();
    rt.block_on(async {
        let origin = tokio::net::TcpListener::bind("127.0.0.1:0").await.unwrap();
        let origin_addr = origin.local_addr().unwrap();
        let seen: Arc<std::sync::Mutex<Vec<Vec<u8>>>> = Default::default();
        let body_first_before: Arc<std::sync::Mutex<Option<usize>>> = Default::default();
        {
            let seen = seen.clone();
            let body_first_before = body_first_before.clone();
            tokio::spawn(async move {
                loop {
                    let Ok((mut s, _)) = origin.accept().await else { continue };
                    let seen = seen.clone();
                    let body_first_before = body_first_before.clone();
                    tokio::spawn(async move {
                        let mut buf = vec![0u8; 65536];
                        let mut got = vec![];
                        // read the head, answer 101 + echo everything afterwards
                        loop {
                            match s.read(&mut buf).await { Ok(0) | Err(_) => { seen.lock().unwrap().push(got); return; } Ok(n) => got.extend_from_slice(&buf[..n]) }
                            if got.windows(4).any(|w| w == b"\r\n\r\n") { break; }
                        }
                        if got.starts_with(b"POST /rp/body-first") {
                            // like any ordinary HTTP server: the whole request first (up to 3 s of patience), then the response
                            let head_end = got.windows(4).position(|w| w == b"\r\n\r\n").unwrap() + 4;
                            let head = String::from_utf8_lossy(&got[..head_end]).to_lowercase();
                            let want_body: usize = head.lines().find_map(|l| l.strip_prefix("content-length:").and_then(|v| v.trim().parse().ok())).unwrap_or(0);
                            let deadline = tokio::time::Instant::now() + Duration::from_secs(3);
                            while got.len() < head_end + want_body {
                                match tokio::time::timeout_at(deadline, s.read(&mut buf)).await { Ok(Ok(n)) if n > 0 => got.extend_from_slice(&buf[..n]), _ => break }
                            }
                            *body_first_before.lock().unwrap() = Some(got.len() - head_end);
                            let slot = { let mut g = seen.lock().unwrap(); g.push(got.clone()); g.len() - 1 };
                            let _ = s.write_all(b"HTTP/1.1 200 OK\r\nContent-Length: 2\r\n\r\nOK").await;
                            loop {
                                match tokio::time::timeout(Duration::from_secs(5), s.read(&mut buf)).await {
                                    Ok(Ok(n)) if n > 0 => seen.lock().unwrap()[slot].extend_from_slice(&buf[..n]),
                                    _ => break,
                                }
                            }
                            return;
                        }
                        if got.starts_with(b"GET /rp/big") {
                            // a large position-coded response body (the relay must deliver it unchanged)
                            seen.lock().unwrap().push(got.clone());
                            let _ = s.write_all(format!("HTTP/1.1 200 OK\r\nContent-Length: {}\r\n\r\n", RP_BIG).as_bytes()).await;
                            let body = common::prng::coded_stream(0xb16, 1, 0, RP_BIG);
                            let _ = s.write_all(&body).await;
                            let _ = tokio::time::timeout(Duration::from_secs(60), s.read(&mut buf)).await;
                            return;
                        }
                        let _ = s.write_all(b"HTTP/1.1 101 Switching Protocols\r\nUpgrade: websocket\r\nX-Origin: yes\r\nX-Origin-Latin: r\xe9sum\xe9 \xa0\xff\r\n\r\nWELCOME").await;
                        let head_end = got.windows(4).position(|w| w == b"\r\n\r\n").unwrap() + 4;
                        let extra = got[head_end..].to_vec();
                        if !extra.is_empty() { let _ = s.write_all(&extra).await; }
                        // echo until the proxy closes; what the origin has seen so far is shared as it arrives
                        let slot = { let mut g = seen.lock().unwrap(); g.push(got.clone()); g.len() - 1 };
                        loop {
                            match tokio::time::timeout(Duration::from_secs(10), s.read(&mut buf)).await {
                                Ok(Ok(n)) if n > 0 => {
                                    seen.lock().unwrap()[slot].extend_from_slice(&buf[..n]);
                                    let _ = s.write_all(&buf[..n]).await;
                                }
                                _ => break,
                            }
                        }
                    });
                }
            });
        }
        let mut id = 4000u64;
        for (allow_private, via, claim) in [(false, Via::Direct, None), (false, Via::MainHost, None), (true, Via::Direct, None), (true, Via::MainHost, None),
                                            (false, Via::Direct, Some("HTTP3")), (false, Via::MainHost, Some("HTTP2")), (true, Via::Direct, Some("HTTP1"))] {
            {
                id += 1;
                let ctx = Arc::new(env::make_ctx(&dir, env::CtxOpts {
                    allow_private,
                    clients: vec![("u".into(), "p".into())],
                    registry_authenticator: true,
                    tweak: Some(Box::new(move |b| b.reverse_proxy(trusttunnel::settings::ReverseProxySettings::builder().server_address(origin_addr).unwrap().path_mask("/rp".into()).build().unwrap()))),
                    ..Default::default()
                }));
                seen.lock().unwrap().clear();
                vnet::take_connects();
                let fwd = RecFwd::new(|_| Outcome::Echo);
                let client = match via {
                    Via::MainHost => open_session(&ctx, Proto::H1, How::Tunnel(Fwd::Scripted(fwd.clone()), Policy::Default), "main.test", false, id).client,
                    Via::Direct => {
                        let (client, server_io) = tokio::io::duplex(256 * 1024);
                        let ctx2 = ctx.clone();
                        tokio::spawn(async move {
                            let peer: SocketAddr = CLIENT_PEER.parse().unwrap();
                            if let Ok(codec) = make_codec(&ctx2, Proto::H1, server_io, peer, id) { run_reverse_proxy(&ctx2, codec, "rp.test", id).await; }
                        });
                        client
                    }
                };
                let (mut rd, mut wr) = tokio::io::split(client);
                // the client tries to steer the request elsewhere through Host / absolute target
                // ... and to tell the origin which protocol it came in on
                let head = format!("GET /rp/chat?x=1 HTTP/1.1\r\nHost: 10.9.8.7:81\r\nUpgrade: websocket\r\nConnection: Upgrade\r\nX-Client-Header: abc\r\n{}\r\n", claim.map(|c: &str| format!("X-Original-Protocol: {}\r\n", c)).unwrap_or_default());
                let _ = wr.write_all(head.as_bytes()).await;
                let _ = wr.write_all(b"PAYLOAD-1").await;
                let (got, _) = read_until_quiet(&mut rd, Duration::from_millis(700), 1 << 20).await;
                let _ = wr.write_all(b"PAYLOAD-2").await;
                let (got2, _) = read_until_quiet(&mut rd, Duration::from_millis(700), 1 << 20).await;
                drop(wr);
                tokio::time::sleep(Duration::from_millis(600)).await;
                rep.evals(1);
                rep.distinct(common::fnv(format!("rp|{}|{:?}|{:?}", allow_private, via, claim).as_bytes()));
                let connects = vnet::take_connects();
                let origin_saw = seen.lock().unwrap().clone();
                let origin_text = origin_saw.first().map(|b| String::from_utf8_lossy(b).to_string()).unwrap_or_default();
                let resp_text = String::from_utf8_lossy(&[got.clone(), got2.clone()].concat()).to_string();
                let w = json!({"kind":"reverse-proxy","allow_private_network_connections":allow_private,"via":format!("{:?}", via),"origin":origin_addr.to_string(),
                    "origin_received":origin_text.chars().take(400).collect::<String>(),"client_received":resp_text.chars().take(300).collect::<String>(),"connects":connects.iter().map(|c| c.to_string()).collect::<Vec<_>>()});
                if connects.iter().any(|c| *c != origin_addr) || fwd.egress_count() > 0 {
                    rep.violation("reverse-proxy request reached a destination other than the configured origin", w.clone());
                }
                if origin_saw.is_empty() {
                    rep.violation(&format!("reverse-proxy request not delivered to the origin (private-network policy for client destinations = {})", if allow_private { "allow" } else { "deny" }), w);
                    continue;
                }
                let lower = origin_text.to_lowercase();
                let ok_req = origin_text.starts_with("GET /rp/chat?x=1 HTTP/1.1\r\n") && lower.contains("x-original-protocol: http1") && lower.contains("x-client-header: abc") && lower.contains("upgrade: websocket");
                if !ok_req { rep.violation("origin did not receive an equivalent HTTP/1.1 request with X-Original-Protocol", w.clone()); }
                let head_only = lower.split("\r\n\r\n").next().unwrap_or("").to_string();
                let xop: Vec<&str> = head_only.lines().filter(|l| l.starts_with("x-original-protocol:")).collect();
                if xop.len() != 1 || xop[0].trim() != "x-original-protocol: http1" {
                    let mut w2 = w.clone(); w2["client_claimed"] = json!(claim); w2["x_original_protocol_lines_at_origin"] = json!(xop);
                    rep.violation("origin received an X-Original-Protocol value supplied by the client (not exactly one header with the endpoint's value)", w2);
                } else if claim.is_some() { rep.tally("reverse proxy: client-supplied X-Original-Protocol replaced by the endpoint's value", 1); }
                if !origin_text.contains("PAYLOAD-1") || !origin_text.contains("PAYLOAD-2") { rep.violation("bytes following the request were not relayed to the origin", w.clone()); }
                if !(resp_text.starts_with("HTTP/1.1 101") && resp_text.contains("WELCOME") && resp_text.contains("PAYLOAD-1") && resp_text.contains("PAYLOAD-2") && resp_text.to_lowercase().contains("x-origin: yes")) {
                    rep.violation("origin's response and subsequent bytes were not relayed unchanged to the client", w.clone());
                } else if ok_req {
                    rep.tally(&format!("reverse proxy {:?} allow_private={}: request, response and payload relayed", via, allow_private), 1);
                }
            }
        }
        // the origin's response relayed to a client that reads more slowly than the session's
        // request timeout (set to 1 s here): every byte must still arrive, in order
        for via in [Via::Direct, Via::MainHost] {
            id += 1;
            let ctx = Arc::new(env::make_ctx(&dir, env::CtxOpts {
                clients: vec![("u".into(), "p".into())],
                registry_authenticator: true,
                tweak: Some(Box::new(move |b| b.connection_establishment_timeout(Duration::from_secs(1)).reverse_proxy(trusttunnel::settings::ReverseProxySettings::builder().server_address(origin_addr).unwrap().path_mask("/rp".into()).build().unwrap()))),
                ..Default::default()
            }));
            seen.lock().unwrap().clear();
            vnet::take_connects();
            let fwd = RecFwd::new(|_| Outcome::Echo);
            let client = match via {
                Via::MainHost => open_session(&ctx, Proto::H1, How::Tunnel(Fwd::Scripted(fwd.clone()), Policy::Default), "main.test", false, id).client,
                Via::Direct => {
                    let (client, server_io) = tokio::io::duplex(64 * 1024);
                    let ctx2 = ctx.clone();
                    tokio::spawn(async move {
                        let peer: SocketAddr = CLIENT_PEER.parse().unwrap();
                        if let Ok(codec) = make_codec(&ctx2, Proto::H1, server_io, peer, id) { run_reverse_proxy(&ctx2, codec, "rp.test", id).await; }
                    });
                    client
                }
            };
            let (mut rd, mut wr) = tokio::io::split(client);
            let _ = wr.write_all(b"GET /rp/big HTTP/1.1\r\nHost: rp.test\r\nUpgrade: websocket\r\nConnection: Upgrade\r\n\r\n").await;
            let mut got: Vec<u8> = vec![];
            let mut buf = vec![0u8; 32 * 1024];
            let started = std::time::Instant::now();
            let mut head_end = None;
            loop {
                match tokio::time::timeout(Duration::from_secs(8), rd.read(&mut buf)).await {
                    Ok(Ok(n)) if n > 0 => got.extend_from_slice(&buf[..n]),
                    _ => break,
                }
                if head_end.is_none() { head_end = got.windows(4).position(|w| w == b"\r\n\r\n").map(|p| p + 4); }
                if let Some(h) = head_end { if got.len() >= h + RP_BIG { break; } }
                // ~128 KiB per second: the 1 MiB body takes about 8 s, the session timeout fires several times meanwhile
                tokio::time::sleep(Duration::from_millis(250)).await;
            }
            drop(wr);
            rep.evals(1);
            rep.distinct(common::fnv(format!("rp-slow|{:?}", via).as_bytes()));
            let body = head_end.map(|h| got[h..].to_vec()).unwrap_or_default();
            let want = common::prng::coded_stream(0xb16, 1, 0, RP_BIG);
            let first_bad = body.iter().zip(want.iter()).position(|(a, b)| a != b);
            let w = json!({"kind":"reverse-proxy","case":"slow reader","via":format!("{:?}", via),"session_timeout_secs":1,"read_pattern":"32 KiB per 250 ms","elapsed_ms":started.elapsed().as_millis() as u64,
                "head":String::from_utf8_lossy(&got[..head_end.unwrap_or(got.len().min(200))]).to_string(),"body_len":body.len(),"expected_body_len":RP_BIG,"first_differing_offset":first_bad});
            if head_end.is_none() || body.len() != RP_BIG || first_bad.is_some() {
                rep.violation(&format!("origin's response was not relayed unchanged to a client reading more slowly than the session's request timeout ({:?})", via), w);
            } else { rep.tally(&format!("reverse proxy {:?}: 1 MiB response relayed intact to a reader slower than the session timeout", via), 1); }
        }
        // an origin that, like any ordinary HTTP server, reads the whole request before it answers: the body
        // must reach it without waiting for its response
        {
            id += 1;
            let ctx = Arc::new(env::make_ctx(&dir, env::CtxOpts {
                clients: vec![("u".into(), "p".into())],
                registry_authenticator: true,
                tweak: Some(Box::new(move |b| b.reverse_proxy(trusttunnel::settings::ReverseProxySettings::builder().server_address(origin_addr).unwrap().path_mask("/rp".into()).build().unwrap()))),
                ..Default::default()
            }));
            seen.lock().unwrap().clear();
            *body_first_before.lock().unwrap() = None;
            let (client, server_io) = tokio::io::duplex(256 * 1024);
            let ctx2 = ctx.clone();
            tokio::spawn(async move {
                let peer: SocketAddr = CLIENT_PEER.parse().unwrap();
                if let Ok(codec) = make_codec(&ctx2, Proto::H1, server_io, peer, id) { run_reverse_proxy(&ctx2, codec, "rp.test", id).await; }
            });
            let (mut rd, mut wr) = tokio::io::split(client);
            let body = common::prng::coded_stream(0xb0d, 1, 0, 5000);
            let _ = wr.write_all(format!("POST /rp/body-first HTTP/1.1\r\nHost: rp.test\r\nContent-Length: {}\r\n\r\n", body.len()).as_bytes()).await;
            tokio::time::sleep(Duration::from_millis(100)).await;
            let _ = wr.write_all(&body).await;
            let (got, _) = read_until_quiet(&mut rd, Duration::from_millis(4500), 1 << 20).await;
            tokio::time::sleep(Duration::from_millis(300)).await;
            drop(wr);
            rep.evals(1);
            rep.distinct(common::fnv(b"rp-body-first"));
            let origin_saw = seen.lock().unwrap().clone();
            let before = *body_first_before.lock().unwrap();
            let at_origin = origin_saw.first().and_then(|g| g.windows(4).position(|w| w == b"\r\n\r\n").map(|p| g[p + 4..].to_vec())).unwrap_or_default();
            let w = json!({"kind":"reverse-proxy","case":"origin answers after the whole request","body_sent_len":body.len(),"body_at_origin_before_it_answered":before,"body_at_origin_in_the_end":at_origin.len(),"origin_patience_secs":3,
                "client_received":String::from_utf8_lossy(&got).chars().take(120).collect::<String>()});
            if origin_saw.is_empty() { rep.violation("reverse-proxy request not delivered to the origin: POST to an origin that answers after the whole request", w); }
            else if at_origin != body { rep.violation("request body did not reach the reverse-proxy origin unchanged", w); }
            else if before.unwrap_or(0) < body.len() { rep.violation("reverse proxy (HTTP/1.1): request body withheld from the origin until the origin has answered", w); }
            else if !got.starts_with(b"HTTP/1.1 200") { rep.violation("origin's response and subsequent bytes were not relayed unchanged to the client", w); }
            else { rep.tally("reverse proxy: request body delivered before the origin answered", 1); }
        }
        // (a) a request body that arrives in the same write as the head must reach the origin;
        // (b) a path that merely *contains* the mask is not a reverse-proxy request
        for (name, via, raw, must_reach, want_body) in [
            ("POST with its body in the same write as the head", Via::Direct, &b"POST /rp/submit HTTP/1.1\r\nHost: rp.test\r\nContent-Length: 11\r\n\r\nhello world"[..], true, Some(&b"hello world"[..])),
            ("path containing the mask elsewhere than at its start", Via::MainHost, &b"GET /app/rp/x HTTP/1.1\r\nHost: main.test\r\n\r\n"[..], false, None),
            ("header values outside ASCII (obs-text) in both directions", Via::Direct, &b"GET /rp/latin HTTP/1.1\r\nHost: rp.test\r\nUpgrade: websocket\r\nConnection: Upgrade\r\nX-Client-Latin: caf\xe9 \xa0\xff\r\n\r\n"[..], true, None),
            ("path equal to the mask", Via::MainHost, &b"GET /rp HTTP/1.1\r\nHost: main.test\r\nUpgrade: websocket\r\nConnection: Upgrade\r\n\r\n"[..], true, None),
        ] {
            id += 1;
            let ctx = Arc::new(env::make_ctx(&dir, env::CtxOpts {
                clients: vec![("u".into(), "p".into())],
                registry_authenticator: true,
                tweak: Some(Box::new(move |b| b.reverse_proxy(trusttunnel::settings::ReverseProxySettings::builder().server_address(origin_addr).unwrap().path_mask("/rp".into()).build().unwrap()))),
                ..Default::default()
            }));
            seen.lock().unwrap().clear();
            vnet::take_connects();
            let fwd = RecFwd::new(|_| Outcome::Echo);
            let client = match via {
                Via::MainHost => open_session(&ctx, Proto::H1, How::Tunnel(Fwd::Scripted(fwd.clone()), Policy::Default), "main.test", false, id).client,
                Via::Direct => {
                    let (client, server_io) = tokio::io::duplex(256 * 1024);
                    let ctx2 = ctx.clone();
                    tokio::spawn(async move {
                        let peer: SocketAddr = CLIENT_PEER.parse().unwrap();
                        if let Ok(codec) = make_codec(&ctx2, Proto::H1, server_io, peer, id) { run_reverse_proxy(&ctx2, codec, "rp.test", id).await; }
                    });
                    client
                }
            };
            let (mut rd, mut wr) = tokio::io::split(client);
            let _ = wr.write_all(raw).await;
            let (got, _) = read_until_quiet(&mut rd, Duration::from_millis(700), 1 << 20).await;
            drop(wr);
            tokio::time::sleep(Duration::from_millis(300)).await;
            rep.evals(1);
            rep.distinct(common::fnv(format!("rp-extra|{}", name).as_bytes()));
            let origin_saw = seen.lock().unwrap().clone();
            let origin_text = origin_saw.first().map(|b| String::from_utf8_lossy(b).to_string()).unwrap_or_default();
            let w = json!({"kind":"reverse-proxy","case":name,"origin_received":origin_text.chars().take(300).collect::<String>(),"client_received":String::from_utf8_lossy(&got).chars().take(200).collect::<String>()});
            let contains = |hay: &[u8], needle: &[u8]| hay.windows(needle.len()).any(|x| x == needle);
            if must_reach && origin_saw.is_empty() { rep.violation(&format!("reverse-proxy request not delivered to the origin: {}", name), w); }
            else if name.starts_with("header values outside ASCII") {
                let at_origin = origin_saw.first().cloned().unwrap_or_default();
                let mut w2 = w.clone(); w2["origin_received_hex"] = json!(common::hex(&at_origin[..at_origin.len().min(300)])); w2["client_received_hex"] = json!(common::hex(&got[..got.len().min(300)]));
                if !contains(&at_origin, b": caf\xe9 \xa0\xff\r\n") { rep.violation("reverse proxy: request header value altered on its way to the origin", w2); }
                else if !contains(&got, b": r\xe9sum\xe9 \xa0\xff\r\n") { rep.violation("reverse proxy: origin's response header value altered on its way to the client", w2); }
                else { rep.tally("reverse proxy: header values outside ASCII relayed byte for byte in both directions", 1); }
            }
            else if !must_reach && !origin_saw.is_empty() { rep.violation("a request whose path only contains the reverse-proxy mask (not at its start) was proxied to the origin", w); }
            else if let Some(b) = want_body { if !origin_text.ends_with(&String::from_utf8_lossy(b).to_string()) { rep.violation("request body sent together with the head did not reach the reverse-proxy origin", w); } else { rep.tally("reverse proxy: body in the same write as the head reached the origin", 1); } }
            else { rep.tally(&format!("reverse proxy: {} -> {}", name, if must_reach { "proxied" } else { "not proxied" }), 1); }
        }
    });
}

pub fn run_all(rep: &Arc<Reporter>, args: &Args) {
    let dir = env::work_dir(&args.root, "c18");
    // credentials ARE configured: none of these channels may ask for them
    let ctx = Arc::new(env::make_ctx(&dir, env::CtxOpts {
        clients: vec![("u".into(), "p".into())],
        registry_authenticator: true,
        tweak: Some(Box::new(|b| b.speedtest_enable(true))),
        ..Default::default()
    }));
    ping_part(rep, &ctx);
    speedtest_part(rep, args, &ctx);
    reverse_proxy_part(rep, args);
}

pub fn run(args: &Args) -> i32 {
    let rep = Arc::new(Reporter::new(
        args,
        "exploration",
        "ping: methods/paths x markers x {direct handler, main host via HttpDemux} x {H1, H2}; speedtest: download paths around the documented \
         ones (N in {0,1,2,100,101}, case, prefixes, overflow) with exact body-length counting under four client read patterns, uploads with \
         Content-Length at and beyond the bounds, wrong paths/methods; reverse proxy: real loopback origin x both values of the egress policy x \
         {direct, main host + Upgrade}, with the client trying to steer Host. Credentials are configured and never supplied. \
         distinct_nontrivial = distinct request tuples.",
    ));
    rep.assume("L = 0 and numeric forms like 01/+1 are EITHER; HTTP/3: ping, speedtest and reverse proxy (by SNI and by path mask) over real QUIC on loopback");
    rep.assume("ping/speedtest under the paused clock over in-memory sessions; reverse proxy in real time on loopback");
    if !args.has_flag("--only-h3rp") {
        run_all(&rep, args);
        crate::props::h3_l2::c18_h3(&rep, args);
    }
    crate::props::h3_l2::c18_h3_rp(&rep, args);
    rep.finish()
}
