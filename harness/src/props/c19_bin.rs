//! C19 (c): the real trusttunnel_endpoint binary with an open HTTP/2 session receives SIGINT;
//! the client must see a graceful end (GOAWAY) rather than an abrupt close.

use crate::common::{Args, Reporter};
use crate::env;
use crate::l2::*;
use serde_json::json;
use std::process::{Command, Stdio};
use std::sync::Arc;
use std::time::Duration;

pub fn run_bin(rep: &Arc<Reporter>, args: &Args) {
    let bins = args.root.join("harness").join("target").join("repo-bins").join("release");
    let out = Command::new("cargo").current_dir("/repo").args(["build", "--release", "--offline", "-p", "trusttunnel_endpoint", "--target-dir"]).arg(args.root.join("harness").join("target").join("repo-bins")).output();
    if !matches!(&out, Ok(o) if o.status.success()) {
        println!("BUILD-FAILURE property=C19 trusttunnel_endpoint does not build");
        std::process::exit(3);
    }
    let dir = env::work_dir(&args.root, "c19").join("bin");
    let _ = std::fs::create_dir_all(&dir);
    let (cert, key, _) = env::make_cert(&dir, "main.test", &[]);
    let rounds = args.qt(3, 25);
    let rt = env::rt_multi(2);
    for round in 0..rounds {
        let port = free_port(false);
        std::fs::write(dir.join("vpn.toml"), format!("listen_address = \"127.0.0.1:{}\"\nallow_private_network_connections = true\n[listen_protocols]\n[listen_protocols.http1]\n[listen_protocols.http2]\n", port)).unwrap();
        std::fs::write(dir.join("hosts.toml"), format!("[[main_hosts]]\nhostname = \"main.test\"\ncert_chain_path = \"{}\"\nprivate_key_path = \"{}\"\n", cert, key)).unwrap();
        let mut child = match Command::new(bins.join("trusttunnel_endpoint")).current_dir(&dir).args(["vpn.toml", "hosts.toml", "-l", "info"]).stdin(Stdio::null()).stdout(Stdio::null()).stderr(Stdio::null()).spawn() {
            Ok(c) => c,
            Err(e) => { rep.inconclusive(&format!("cannot start the endpoint binary: {}", e)); return; }
        };
        let pid = child.id() as i32;
        let verdict = rt.block_on(async {
            let addr: std::net::SocketAddr = format!("127.0.0.1:{}", port).parse().unwrap();
            let mut o = None;
            for _ in 0..100 {
                let t = tls_connect(addr, Some("main.test"), &[b"h2"], Duration::from_secs(2)).await;
                if t.stream.is_some() { o = t.stream; break; }
                tokio::time::sleep(Duration::from_millis(30)).await;
            }
            let Some(stream) = o else { return Err("endpoint binary did not accept TLS connections".to_string()); };
            let (mut send, conn) = h2::client::handshake(stream).await.map_err(|e| e.to_string())?;
            let watcher = tokio::spawn(async move { conn.await });
            // an open stream: health check keeps nothing open, so open a CONNECT to an echo listener
            let l = tokio::net::TcpListener::bind("127.0.0.1:0").await.unwrap();
            let echo = l.local_addr().unwrap();
            tokio::spawn(async move { loop { if let Ok((mut s, _)) = l.accept().await { tokio::spawn(async move { let (mut r, mut w) = s.split(); let _ = tokio::io::copy(&mut r, &mut w).await; }); } } });
            let _ = futures::future::poll_fn(|cx| send.poll_ready(cx)).await;
            let (fut, tx) = send.send_request(http::Request::builder().method("CONNECT").uri(echo.to_string()).body(()).unwrap(), false).map_err(|e| e.to_string())?;
            let resp = tokio::time::timeout(Duration::from_secs(3), fut).await.map_err(|_| "no response")?.map_err(|e| e.to_string())?;
            if resp.status() != 200 { return Err(format!("CONNECT answered {}", resp.status())); }
            tokio::time::sleep(Duration::from_millis(100 * (round % 3) as u64)).await;
            unsafe { libc::kill(pid, libc::SIGINT); }
            // release our stream shortly after, as a client reacting to GOAWAY would
            let rel = tokio::spawn(async move { tokio::time::sleep(Duration::from_millis(200)).await; drop(tx); drop(send); drop(resp); });
            let r = tokio::time::timeout(Duration::from_secs(8), watcher).await;
            rel.abort();
            match r {
                Ok(Ok(Ok(()))) => Ok("graceful".to_string()),
                Ok(Ok(Err(e))) => Ok(format!("abrupt: {}", e)),
                Ok(Err(_)) => Err("watcher failed".to_string()),
                Err(_) => Ok("no end of session within 8 s".to_string()),
            }
        });
        let mut exited = None;
        for _ in 0..100 { if let Ok(Some(st)) = child.try_wait() { exited = Some(st); break; } std::thread::sleep(Duration::from_millis(50)); }
        if exited.is_none() { let _ = child.kill(); let _ = child.wait(); }
        rep.evals(1);
        rep.distinct(crate::common::fnv(format!("sigint|{}", round).as_bytes()));
        let w = json!({"kind":"shutdown-binary","round":round,"client_saw":verdict.clone().unwrap_or_else(|e| e),"exit":exited.map(|s| s.code())});
        match verdict {
            Err(e) => rep.inconclusive(&format!("binary scenario could not be driven: {}", e)),
            Ok(v) if v == "graceful" => rep.tally("binary: client saw GOAWAY / graceful end after SIGINT", 1),
            Ok(v) if v.starts_with("abrupt") => rep.violation("endpoint process exits on SIGINT without letting HTTP/2 sessions wind down (no GOAWAY)", w),
            Ok(_) => rep.violation("endpoint process does not end an HTTP/2 session after SIGINT", w),
        }
        if exited.is_none() { rep.violation("endpoint process still running 5 s after SIGINT with all sessions released", json!({"round":round})); }
    }
}
