//! C20 — secrets never reach the log, at any level.
//!
//! A capturing `log::Log` at Trace records everything the library logs while the scenarios of
//! C01 / C10 / C18 / C08 (and a dedicated sweep of error paths) run with unique canaries planted
//! in Proxy-Authorization, Authorization, Cookie, SNI credential labels and configured passwords.

use crate::common::{self, logcap, Args, Reporter};
use crate::env;
use crate::kit::*;
use crate::secrets;
use crate::tun::*;
use serde_json::json;
use std::collections::BTreeMap;
use std::sync::Arc;
use std::time::Duration;
use trusttunnel::verif::tunnel::{Fwd, Policy, Proto};

fn normalise(msg: &str, needles: &[String]) -> String {
    let mut m = msg.to_string();
    for n in needles {
        if n.len() >= 6 {
            m = m.replace(n.as_str(), "<S>");
        }
    }
    // canary-bearing words (user names, tokens) collapse to <S>
    let m: String = m
        .split(' ')
        .map(|w| if w.contains(secrets::MARKER) { "<S>".to_string() } else { w.to_string() })
        .collect::<Vec<_>>()
        .join(" ");
    let m: String = m.chars().map(|c| if c.is_ascii_digit() { '#' } else { c }).collect();
    // drop the "[CLIENT=#/TUN=#] " id prefix
    let m = match m.find("] ") {
        Some(i) if m.starts_with('[') => m[i + 2..].to_string(),
        _ => m,
    };
    // the call site: text before the first ':' or '{'
    let cut = m.find(|c| c == ':' || c == '{').unwrap_or(m.len());
    m[..cut].trim().chars().take(48).collect()
}

/// Requests that exercise rejected / malformed / failed paths with secrets in every field
fn error_path_sweep(_rep: &Arc<Reporter>, args: &Args) -> u64 {
    let dir = env::work_dir(&args.root, "c20");
    let ctx = Arc::new(env::make_ctx(&dir, env::CtxOpts {
        clients: vec![("dave-CANARYU9".into(), "pw-CANARYP9".into())],
        registry_authenticator: true,
        tweak: Some(Box::new(|b| b.speedtest_enable(true))),
        ..Default::default()
    }));
    let rt = env::rt_paused();
    let ok = format!("Basic {}", basic("dave-CANARYU9", "pw-CANARYP9"));
    let bad = format!("Basic {}", basic("dave-CANARYU9", "wrong-CANARYPX"));
    let mut n = 0u64;
    let auths: Vec<Option<Vec<u8>>> = vec![None, Some(ok.clone().into_bytes()), Some(bad.into_bytes()), Some(b"Bearer CANARYBEARER-token".to_vec()), Some([b"Basic ".to_vec(), vec![0xff, 0xfe], b"CANARYRAW".to_vec()].concat()),
        // values without a space between "scheme" and secret: the whole value is the secret
        Some(basic("dave-CANARYU9", "pw-CANARYP9").into_bytes()), Some(format!("Basic:{}", basic("dave-CANARYU9", "pw-CANARYP9")).into_bytes()),
        Some(format!("Basic\t{}", basic("dave-CANARYU9", "pw-CANARYP9")).into_bytes()), Some(format!("Basic{}", basic("dave-CANARYU9", "pw-CANARYP9")).into_bytes()),
        Some(format!("Negotiate,{}", basic("dave-CANARYU9", "pw-CANARYP9")).into_bytes())];
    // the bare token must be found even when the log shows it inside a longer word
    secrets::plant_str(&basic("dave-CANARYU9", "pw-CANARYP9"));
    let targets: Vec<(&str, String)> = vec![
        ("CONNECT", "ok.dest.test:443".into()), ("CONNECT", "noport.dest.test".into()), ("CONNECT", "_check".into()), ("CONNECT", "_udp2".into()),
        ("GET", "http://_check/".into()), ("GET", "http://origin.dest.test/path?token=public".into()), ("POST", "http://origin.dest.test/submit".into()),
        ("GET", "https://main.test/speed/1mb.bin".into()), ("GET", "https://main.test/speed/999mb.bin".into()), ("OPTIONS", "http://origin.dest.test/".into()),
    ];
    for proto in [Proto::H1, Proto::H2] {
        for outcome in [Outcome::Canned(b"HTTP/1.1 200 OK\r\nContent-Length: 0\r\n\r\n".to_vec()), Outcome::Fail(trusttunnel::verif::ctx::ConnErr::DnsLoopback), Outcome::Fail(trusttunnel::verif::ctx::ConnErr::Timeout)] {
            for a in &auths {
                for (method, target) in &targets {
                    n += 1;
                    let oc = outcome.clone();
                    let fwd = RecFwd::new(move |_| oc.clone());
                    let mut req = Req::new(method, target);
                    if *method == "CONNECT" { req.end_stream = false; }
                    if *method == "POST" { req = req.header("content-length", b"0"); }
                    if let Some(a) = a { req = req.header("proxy-authorization", a); }
                    if n % 3 == 0 { req = req.header("x-ping", b"1"); }
                    let how = How::Tunnel(Fwd::Scripted(fwd), Policy::Default);
                    rt.block_on(async {
                        match proto {
                            Proto::H1 => { h1_roundtrip(&ctx, how, "main.test", &req, Duration::from_secs(40), 60_000 + n).await; }
                            _ => { h2_session(&ctx, how, "main.test", std::slice::from_ref(&req), Duration::from_secs(40), 60_000 + n).await; }
                        }
                    });
                }
            }
        }
    }
    // raw garbage and half-requests on HTTP/1.1 carrying secrets
    for raw in [
        format!("GET / HTTP/1.1\r\nHost: x\r\nCookie: {}\r\nProxy-Authorization: {}\r\nBad Header\r\n\r\n", secrets::COOKIE, ok),
        format!("CONNECT a.test:1 HTTP/1.1\r\nProxy-Authorization: {}\r\nExpect: 100-continue\r\n\r\n", ok),
        format!("CONNECT a.test:1 HTTP/3.0\r\nProxy-Authorization: {}\r\n\r\n", ok),
        format!("GET http://a b/ HTTP/1.1\r\nAuthorization: {}\r\n\r\n", secrets::AUTHZ),
    ] {
        n += 1;
        secrets::plant(ok.as_bytes());
        let fwd = RecFwd::new(|_| Outcome::Echo);
        rt.block_on(async {
            let s = open_session(&ctx, Proto::H1, How::Tunnel(Fwd::Scripted(fwd), Policy::Default), "main.test", true, 70_000 + n);
            let (mut rd, mut wr) = tokio::io::split(s.client);
            use tokio::io::AsyncWriteExt;
            let _ = wr.write_all(raw.as_bytes()).await;
            let _ = read_until_quiet(&mut rd, Duration::from_secs(5), 1 << 16).await;
        });
    }
    n
}

/// Requests through the real SOCKS5 forwarder (TCP CONNECT, UDP ASSOCIATE for `_udp2`, plain HTTP) against a permissive
/// scripted SOCKS5 server: the upstream path formats connection metadata and relayed credentials of its own.
fn socks5_paths(args: &Args) -> u64 {
    use tokio::io::{AsyncReadExt, AsyncWriteExt};
    let dir = env::work_dir(&args.root, "c20");
    let rt = env::rt_current();
    let mut n = 0u64;
    rt.block_on(async {
        let listener = tokio::net::TcpListener::bind("127.0.0.1:0").await.unwrap();
        let addr = listener.local_addr().unwrap();
        let relay = tokio::net::UdpSocket::bind("127.0.0.1:0").await.unwrap();
        let relay_port = relay.local_addr().unwrap().port();
        tokio::spawn(async move { let mut b = vec![0u8; 65536]; loop { if let Ok((k, from)) = relay.recv_from(&mut b).await { let _ = relay.send_to(&b[..k], from).await; } } });
        tokio::spawn(async move {
            loop {
                let Ok((mut s, _)) = listener.accept().await else { continue };
                tokio::spawn(async move {
                    let mut b = [0u8; 2];
                    if s.read_exact(&mut b).await.is_err() { return; }
                    let mut m = vec![0u8; b[1] as usize];
                    if s.read_exact(&mut m).await.is_err() { return; }
                    // prefer an authenticating method when one is offered
                    let method = if m.contains(&2) { 2 } else if m.contains(&0x80) { 0x80 } else { 0 };
                    let _ = s.write_all(&[5, method]).await;
                    if method == 2 {
                        let mut h = [0u8; 2];
                        if s.read_exact(&mut h).await.is_err() { return; }
                        let mut u = vec![0u8; h[1] as usize];
                        let _ = s.read_exact(&mut u).await;
                        let mut l = [0u8; 1];
                        let _ = s.read_exact(&mut l).await;
                        let mut p = vec![0u8; l[0] as usize];
                        let _ = s.read_exact(&mut p).await;
                        let _ = s.write_all(&[1, 0]).await;
                    } else if method == 0x80 {
                        // extended authentication: read what arrives within a moment, then accept
                        let mut junk = [0u8; 2048];
                        let _ = tokio::time::timeout(Duration::from_millis(100), s.read(&mut junk)).await;
                        let _ = s.write_all(&[1, 0]).await;
                    }
                    let mut h = [0u8; 4];
                    if s.read_exact(&mut h).await.is_err() { return; }
                    let alen = match h[3] { 1 => 4, 4 => 16, _ => { let mut l = [0u8; 1]; let _ = s.read_exact(&mut l).await; l[0] as usize } };
                    let mut rest = vec![0u8; alen + 2];
                    let _ = s.read_exact(&mut rest).await;
                    let _ = s.write_all(&[5, 0, 0, 1, 127, 0, 0, 1, (relay_port >> 8) as u8, relay_port as u8]).await;
                    let mut buf = [0u8; 4096];
                    loop { match s.read(&mut buf).await { Ok(k) if k > 0 => { let _ = s.write_all(b"HTTP/1.1 200 OK\r\nContent-Length: 0\r\n\r\n").await; } _ => break } }
                });
            }
        });
        let ctx = Arc::new(env::make_ctx(&dir, env::CtxOpts {
            clients: vec![("dave-CANARYU9".into(), "pw-CANARYP9".into())],
            registry_authenticator: true,
            tweak: Some(Box::new(move |b| b.forwarder_settings(trusttunnel::settings::ForwardProtocolSettings::Socks5(
                trusttunnel::settings::Socks5ForwarderSettings::builder().server_address(addr).unwrap().build().unwrap())))),
            ..Default::default()
        }));
        let ok = format!("Basic {}", basic("dave-CANARYU9", "pw-CANARYP9"));
        for proto in [Proto::H1, Proto::H2] {
            for sni in ["main.test", "tok-CANARYSNI.main.test"] {
                for (method, target) in [("CONNECT", "dest.example.org:443"), ("CONNECT", "_udp2"), ("CONNECT", "_check"), ("GET", "http://origin.dest.test/p"), ("POST", "http://origin.dest.test/submit")] {
                    for with_auth in [true, false] {
                        n += 1;
                        let mut req = Req::new(method, target);
                        if method == "CONNECT" { req.end_stream = false; }
                        if method == "POST" { req = req.header("content-length", b"0"); }
                        if with_auth { req = req.header("proxy-authorization", ok.as_bytes()); }
                        let how = How::Tunnel(Fwd::Real, Policy::Default);
                        match proto {
                            Proto::H1 => { h1_roundtrip(&ctx, how, sni, &req, Duration::from_millis(500), 80_000 + n).await; }
                            _ => { h2_session(&ctx, how, sni, std::slice::from_ref(&req), Duration::from_millis(700), 80_000 + n).await; }
                        }
                    }
                }
            }
        }
    });
    n
}

pub fn run(args: &Args) -> i32 {
    let rep = Arc::new(Reporter::new(
        args,
        "exploration",
        "every log record (Trace and above) emitted by the library while the C01, C10, C18, C08 and C05-L2 (real TLS front end) scenario sets and a dedicated error-path sweep \
         run, with Authorization/Cookie canaries added to every request and every Proxy-Authorization value registered as planted; a record is a \
         leak if it contains a planted value, its marker, or the decoded user/password halves. evaluations = records scanned; \
         distinct_nontrivial = distinct normalised record templates seen.",
    ));
    rep.assume("records whose target is the client-side TLS/HTTP stack of the harness itself are excluded; a record counts as emitted iff the endpoint's own logger (trusttunnel::log_utils::StdoutLogger::enabled at max level Trace) accepts it; in addition every record is handed to the real FileLogger and StdoutLogger (Log::log, as the log macros do) and the lines they actually write are scanned");
    rep.assume("scenarios are those of C01/C10/C18/C08, the C05 L2 scenarios (real TLS front end with an SNI credentials label), the error-path sweep and the SOCKS5 upstream path (real Socks5Forwarder against a permissive scripted server)");
    logcap::install(true);
    // the endpoint's real file and stdout loggers receive every record as well; what they write is scanned too
    let tee = logcap::install_tee(&env::work_dir(&args.root, "c20logs"));
    if tee.is_none() { rep.inconclusive("the endpoint's real loggers could not be set up (their output is not scanned)"); }
    let mut real_offsets = [0usize; 2];
    let mut real_leaks: BTreeMap<String, (u64, serde_json::Value)> = BTreeMap::new();
    let mut real_lines = [0u64; 2];
    secrets::set_extra_headers(vec![
        ("authorization".into(), secrets::AUTHZ.as_bytes().to_vec()),
        ("cookie".into(), secrets::COOKIE.as_bytes().to_vec()),
    ]);
    secrets::plant_str("tokA-CANARYSNI");
    secrets::plant_str("tokBad-CANARYSNI");
    secrets::plant_str("tok-CANARYSNI");
    secrets::plant_str("tok-canarysni");
    // the scenario sets judge their own properties into a scratch reporter that is discarded
    let scratch_args = Args { id: "C20-scratch".into(), replay: Some("/dev/null".into()), ..args.clone() };
    let scratch = Arc::new(Reporter::new(&scratch_args, "exploration", "scratch"));
    let mut scenarios = 0u64;
    let mut swept = 0u64;
    let mut templates: BTreeMap<String, u64> = BTreeMap::new();
    let mut leaks: BTreeMap<String, (u64, serde_json::Value)> = BTreeMap::new();
    let mut by_level: BTreeMap<String, u64> = BTreeMap::new();
    let mut total_records = 0usize;
    let mut planted = 0usize;
    // thorough = the same scenario sets at several seeds; records are scanned and dropped after every set (bounded memory)
    let rounds = args.qt(1u64, 12u64);
    for round in 0..rounds {
        let quick_args = Args { tier: crate::common::report::Tier::Quick, seed: args.seed.wrapping_add(round * 7919), ..args.clone() };
        for set in 0..6 {
            match set {
                0 => crate::props::c01::scenarios(&scratch, &quick_args),
                1 => crate::props::c10::scenarios(&scratch, &quick_args),
                2 => crate::props::c18::run_all(&scratch, &quick_args),
                // real TLS front end (Core::listen): SNI-borne credentials label, every host class, refused handshakes
                3 => crate::props::c05_l2::run_l2(&scratch, &quick_args),
                4 => { if round == 0 { swept = error_path_sweep(&rep, args); } }
                // the SOCKS5 upstream path (TCP CONNECT, UDP ASSOCIATE, plain HTTP) with credentials and an SNI credentials label
                _ => { if round == 0 { swept += socks5_paths(args); } }
            }
            scenarios += 1;
            // ---- scan what this set logged
            let needles = secrets::needles();
            // decoded halves of every planted Basic token
            let mut all_needles = needles.clone();
            for n in &needles {
                use base64::Engine;
                if let Ok(d) = base64::engine::general_purpose::STANDARD.decode(n) {
                    if let Ok(s) = String::from_utf8(d) {
                        for half in s.splitn(2, ':') {
                            if half.len() >= 8 { all_needles.push(half.to_string()); }
                        }
                    }
                }
            }
            all_needles.sort();
            all_needles.dedup();
            planted = planted.max(all_needles.len());
            // ---- what the endpoint's real loggers wrote during this set
            if let Some(t) = tee {
                logcap::tee_flush();
                for (k, (which, path)) in [("file logger", &t.file_path), ("stdout logger", &t.stdout_path)].into_iter().enumerate() {
                    let Ok(bytes) = std::fs::read(path) else { continue };
                    let fresh = String::from_utf8_lossy(&bytes[real_offsets[k].min(bytes.len())..]).to_string();
                    real_offsets[k] = bytes.len();
                    for line in fresh.lines() {
                        // time [ThreadId(n)] [LEVEL] [target] message
                        let target = line.splitn(4, "] [").nth(2).map(|x| x.split(']').next().unwrap_or("")).unwrap_or("");
                        if target.starts_with("rustls::client") || target.starts_with("tt_verif") || target.starts_with("h2::client") { continue; }
                        real_lines[k] += 1;
                        if let Some(n) = all_needles.iter().find(|n| line.contains(n.as_str())) {
                            let e = real_leaks.entry(format!("secret written by the endpoint's {}: target {}", which, target)).or_insert_with(|| (0, json!({"kind":"log-leak","logger":which,"target":target,
                                "line":line.chars().take(500).collect::<String>(),"matched":if n.len() > 12 { format!("{}...", n.chars().take(12).collect::<String>()) } else { n.clone() }})));
                            e.0 += 1;
                        }
                    }
                }
            }
            let records = logcap::drain();
            total_records += records.len();
            for r in &records {
                if r.target.starts_with("rustls::client") || r.target.starts_with("tt_verif") || r.target.starts_with("h2::client") {
                    continue;
                }
                if !r.emitted {
                    // the endpoint's own logger (the real trusttunnel::log_utils logger at max level Trace) refuses this record
                    rep.tally(&format!("records the endpoint's logger does not write: target {}", r.target.split("::").next().unwrap_or("")), 1);
                    continue;
                }
                rep.evals(1);
                *by_level.entry(r.level.to_string()).or_insert(0) += 1;
                let t = format!("{} | {}", r.target, normalise(&r.message, &all_needles));
                *templates.entry(t.clone()).or_insert(0) += 1;
                if let Some(n) = all_needles.iter().find(|n| r.message.contains(n.as_str())) {
                    let e = leaks.entry(t).or_insert_with(|| (0, json!({"kind":"log-leak","level":r.level.to_string(),"target":r.target,
                        "message":r.message.chars().take(500).collect::<String>(),"matched":if n.len() > 12 { format!("{}...", n.chars().take(12).collect::<String>()) } else { n.clone() }})));
                    e.0 += 1;
                }
            }
        }
    }
    rep.tally("scenario sets driven", scenarios);
    rep.tally("error-path sweep requests", swept);
    secrets::set_extra_headers(vec![]);
    logcap::tee_off();
    logcap::disable();
    rep.tally("lines written by the endpoint's real file logger (scanned)", real_lines[0]);
    rep.tally("lines written by the endpoint's real stdout logger (scanned)", real_lines[1]);
    if tee.is_some() && (real_lines[0] == 0 || real_lines[1] == 0) { rep.inconclusive("a real logger of the endpoint wrote nothing"); }
    for (sig, (count, w)) in real_leaks { let mut w = w; w["occurrences"] = json!(count); rep.violation(&sig, w); }
    rep.tally("planted secret values", planted as u64);
    for (k, v) in &by_level { rep.tally(&format!("records at level {}", k), *v); }
    rep.distinct_many(templates.keys().map(|k| common::fnv(k.as_bytes())));
    rep.set("distinct_record_templates", json!(templates.len()));
    let mut top: Vec<(&String, &u64)> = templates.iter().collect();
    top.sort_by(|a, b| b.1.cmp(a.1));
    for (t, c) in top.iter().take(5) { rep.sample(json!({"template": t, "count": c})); }
    for (t, (count, w)) in leaks {
        let mut w = w;
        w["occurrences"] = json!(count);
        rep.violation(&format!("secret in log: {}", t), w);
    }
    if total_records == 0 {
        rep.inconclusive("no log records captured");
    }
    rep.finish()
}
