//! C16 — metrics equal the live objects and relayed bytes, and are exported.
//!
//! The real Core::listen on loopback with the metrics listener; histories of session / tunnel /
//! UDP-flow / transfer steps; after each step the monitor waits for quiescence (two identical
//! snapshots), compares the in-process values with its model, then fetches /metrics over HTTP and
//! compares the exported text with the same values.

use crate::common::{self, Args, Reporter, Rng};
use crate::env;
use crate::kit::{parse_h1_head, read_until_quiet};
use crate::l2::*;
use bytes::Bytes;
use serde_json::{json, Value};
use std::collections::HashMap;
use std::net::SocketAddr;
use std::sync::Arc;
use std::time::Duration;
use tokio::io::{AsyncReadExt, AsyncWriteExt};
use tokio::net::{TcpListener, TcpStream, UdpSocket};
use trusttunnel::verif::misc::{metrics_snapshot, MetricsSnapshot};

/// Server protocol: [u32 up][u32 down] header, then `up` bytes are read and `down` bytes are sent.
async fn transfer_server(l: TcpListener) {
    loop {
        let Ok((mut s, _)) = l.accept().await else { continue };
        tokio::spawn(async move {
            loop {
                let mut h = [0u8; 8];
                if s.read_exact(&mut h).await.is_err() { return; }
                let up = u32::from_be_bytes([h[0], h[1], h[2], h[3]]) as usize;
                let down = u32::from_be_bytes([h[4], h[5], h[6], h[7]]) as usize;
                if up == 0xffff_ffff {
                    // "half-close" mode: read the client's end-of-stream, keep the connection for `down` ms, answer late, close
                    let mut b = [0u8; 64];
                    loop { match s.read(&mut b).await { Ok(0) | Err(_) => break, Ok(_) => {} } }
                    tokio::time::sleep(Duration::from_millis(down as u64)).await;
                    let _ = s.write_all(b"LATE").await;
                    return;
                }
                let mut buf = vec![0u8; 65536];
                let mut left = up;
                while left > 0 { match s.read(&mut buf[..left.min(65536)]).await { Ok(0) | Err(_) => return, Ok(n) => left -= n } }
                let chunk = vec![0xd0u8; 65536];
                let mut left = down;
                while left > 0 { let n = left.min(65536); if s.write_all(&chunk[..n]).await.is_err() { return; } left -= n; }
            }
        });
    }
}

#[derive(Default, Clone, Debug, PartialEq)]
struct Model {
    sessions: [i64; 2],
    tcp: i64,
    udp: i64,
    up: [u64; 2],
    down: [u64; 2],
}

enum Tun {
    H1 { stream: tokio_rustls::client::TlsStream<Tap> },
    H2 { send: h2::SendStream<Bytes>, recv: h2::RecvStream },
}

struct Session {
    proto: usize, // 0 = h1, 1 = h2
    h1: Option<tokio_rustls::client::TlsStream<Tap>>,
    h2: Option<(h2::client::SendRequest<Bytes>, tokio::task::JoinHandle<()>)>,
    tunnels: Vec<Tun>,
    udp: Option<(h2::SendStream<Bytes>, h2::RecvStream)>,
    udp_flows: std::collections::HashSet<u16>,
}

async fn wait_quiescent(ctx: &trusttunnel::verif::ctx::Ctx, want: &Model) -> (MetricsSnapshot, bool) {
    let mut last = metrics_snapshot(ctx);
    let mut same = 0;
    for _ in 0..200 {
        tokio::time::sleep(Duration::from_millis(15)).await;
        let s = metrics_snapshot(ctx);
        if matches_model(&s, want) { return (s, true); }
        if s == last { same += 1; } else { same = 0; last = s; }
        if same >= 12 { return (last, true); }
    }
    (last, false)
}

fn matches_model(s: &MetricsSnapshot, m: &Model) -> bool {
    s.sessions[0] == m.sessions[0] && s.sessions[1] == m.sessions[1] && s.outbound_tcp == m.tcp && s.outbound_udp == m.udp
        && s.traffic[0].0 == m.up[0] && s.traffic[1].0 == m.up[1] && s.traffic[0].1 == m.down[0] && s.traffic[1].1 == m.down[1]
}

fn parse_metrics(text: &str) -> HashMap<String, f64> {
    let mut m = HashMap::new();
    for l in text.lines() {
        if l.starts_with('#') || l.trim().is_empty() { continue; }
        if let Some((k, v)) = l.rsplit_once(' ') { if let Ok(x) = v.parse::<f64>() { m.insert(k.trim().to_lowercase(), x); } }
    }
    m
}

async fn http_get_once(addr: SocketAddr, path: &str, patience: u64) -> Option<(u16, String)> {
    let mut s = tokio::time::timeout(Duration::from_secs(2 * patience), TcpStream::connect(addr)).await.ok()?.ok()?;
    s.write_all(format!("GET {} HTTP/1.1\r\nHost: metrics\r\n\r\n", path).as_bytes()).await.ok()?;
    let (got, _) = read_until_quiet(&mut s, Duration::from_millis(500 * patience), 1 << 20).await;
    let h = parse_h1_head(&got).ok()??;
    Some((h.status, String::from_utf8_lossy(&got[h.head_len..]).to_string()))
}

/// None = no parseable answer in three attempts with growing patience (a wall-clock matter: inconclusive, unless it never answers at all)
async fn http_get(addr: SocketAddr, path: &str) -> Option<(u16, String)> {
    for patience in [1u64, 3, 8] {
        if let Some(x) = http_get_once(addr, path, patience).await { return Some(x); }
    }
    None
}

fn compare(rep: &Reporter, step: &str, history: u64, snap: &MetricsSnapshot, stable: bool, model: &Model, trace: &[String]) {
    if !stable { rep.inconclusive("metrics did not become quiescent"); return; }
    let w = || json!({"kind":"metrics","history":history,"after_step":step,"steps":trace,"model":format!("{:?}", model),"in_process":format!("{:?}", snap)});
    for (p, name) in [(0usize, "HTTP1"), (1, "HTTP2")] {
        if snap.sessions[p] != model.sessions[p] { rep.violation(&format!("client_sessions{{{}}} differs from the number of live sessions after '{}'", name, step_class(step)), w()); }
        if snap.traffic[p].0 != model.up[p] || snap.traffic[p].1 != model.down[p] {
            let swapped = snap.traffic[p].0 == model.down[p] && snap.traffic[p].1 == model.up[p] && model.up[p] != model.down[p];
            rep.violation(&format!("traffic counters differ from the payload bytes relayed ({})", if swapped { "inbound and outbound swapped" } else { step_class(step) }), w());
        }
    }
    if snap.outbound_tcp != model.tcp { rep.violation(&format!("outbound_tcp_sockets differs from the number of live outbound connections after '{}'", step_class(step)), w()); }
    if snap.outbound_udp != model.udp { rep.violation(&format!("outbound_udp_sockets differs from the number of live UDP flows after '{}'", step_class(step)), w()); }
}

fn step_class(s: &str) -> &str { s.split(' ').next().unwrap_or(s) }

async fn run_history(rep: &Reporter, dir: &std::path::Path, seed: u64, h: u64, transfer_addr: SocketAddr, udp_echo: SocketAddr, closed_port: u16, idle_mode: bool) {
    let mut r = Rng::derive(seed, 0xc16, h);
    let hosts = Hosts { main: vec![("main.test".into(), vec![])], ..Default::default() };
    let mport = free_port(false);
    let maddr: SocketAddr = format!("127.0.0.1:{}", mport).parse().unwrap();
    let ep = start_endpoint(dir, "127.0.0.1", &hosts, None, vec![], (true, true, false), move |b| {
        b.allow_private_network_connections(true)
            .tcp_connections_timeout(if idle_mode { Duration::from_millis(2500) } else { Duration::from_secs(120) })
            .udp_connections_timeout(if idle_mode { Duration::from_millis(2000) } else { Duration::from_secs(120) })
            .metrics(trusttunnel::settings::MetricsSettings::builder().listen_address(maddr).unwrap().build().unwrap())
    }).await;
    let mut model = Model::default();
    let mut sessions: Vec<Session> = vec![];
    let mut trace: Vec<String> = vec![];
    // idle mode: a fixed short scenario under small timeouts; otherwise seeded steps under long timeouts
    // every sixth history is a fixed one around half-closed tunnels (the seeded ones reach that step too rarely)
    let half_mode = !idle_mode && h % 6 == 4;
    let script: Vec<u64> = if idle_mode { vec![1, 2, 4, 8, 7, 0, 2, 4, 8, 11] } else if half_mode { vec![1, 2, 2, 4, 14, 2, 14, 4, 14, 9] } else { (0..r.range(6, 14)).map(|_| { let c = r.below(13); if c == 7 { 6 } else if c == 12 { 14 } else if c >= 10 { 13 } else { c } }).collect() };
    for choice in script {
        let choice = if idle_mode && choice == 1 { 0 } else { choice };
        let force_h2 = idle_mode || half_mode;
        let step: String;
        match choice {
            0 | 1 => {
                // open a session
                let p = if force_h2 { 1 } else { r.below(2) as usize };
                let alpn: Vec<&[u8]> = if p == 0 { vec![b"http/1.1"] } else { vec![b"h2"] };
                let o = tls_connect(ep.addr, Some("main.test"), &alpn, Duration::from_secs(3)).await;
                let Some(stream) = o.stream else { rep.inconclusive("TLS connect failed"); continue; };
                step = format!("open-session {}", if p == 0 { "h1" } else { "h2" });
                if p == 0 { sessions.push(Session { proto: 0, h1: Some(stream), h2: None, tunnels: vec![], udp: None, udp_flows: Default::default() }); }
                else {
                    let Ok((send, conn)) = h2::client::handshake(stream).await else { rep.inconclusive("h2 handshake failed"); continue; };
                    let j = tokio::spawn(async move { let _ = conn.await; });
                    sessions.push(Session { proto: 1, h1: None, h2: Some((send, j)), tunnels: vec![], udp: None, udp_flows: Default::default() });
                }
                model.sessions[p] += 1;
            }
            2 | 3 => {
                // open a tunnel to the transfer server (or a failing one)
                if sessions.is_empty() { continue; }
                let si = r.below(sessions.len() as u64) as usize;
                let fail = !idle_mode && r.chance(1, 4);
                let target = if fail { format!("127.0.0.1:{}", closed_port) } else { transfer_addr.to_string() };
                let s = &mut sessions[si];
                if s.proto == 0 {
                    let Some(mut st) = s.h1.take() else { continue };
                    let _ = st.write_all(format!("CONNECT {} HTTP/1.1\r\nHost: {}\r\n\r\n", target, target).as_bytes()).await;
                    let mut buf = vec![0u8; 4096];
                    let n = tokio::time::timeout(Duration::from_secs(3), st.read(&mut buf)).await.ok().and_then(|x| x.ok()).unwrap_or(0);
                    let ok = buf[..n].starts_with(b"HTTP/1.1 200");
                    if fail { step = "failed-connect h1".into(); /* the session ends with the failed request on HTTP/1.1 */ model.sessions[0] -= 1; drop(st); sessions.remove(si); }
                    else if ok { step = "open-tunnel h1".into(); s.tunnels.push(Tun::H1 { stream: st }); model.tcp += 1; }
                    else { rep.inconclusive("CONNECT over h1 did not answer 200"); model.sessions[0] -= 1; sessions.remove(si); continue; }
                } else {
                    let (send, _) = s.h2.as_mut().unwrap();
                    let req = http::Request::builder().method("CONNECT").uri(target.as_str()).body(()).unwrap();
                    let _ = futures::future::poll_fn(|cx| send.poll_ready(cx)).await;
                    let Ok((fut, tx)) = send.send_request(req, false) else { continue };
                    match tokio::time::timeout(Duration::from_secs(3), fut).await {
                        Ok(Ok(resp)) if resp.status() == 200 && !fail => { step = "open-tunnel h2".into(); s.tunnels.push(Tun::H2 { send: tx, recv: resp.into_body() }); model.tcp += 1; }
                        Ok(Ok(_)) if fail => { step = "failed-connect h2".into(); }
                        _ => { rep.inconclusive("CONNECT over h2 got no usable answer"); continue; }
                    }
                }
            }
            4 | 5 => {
                // transfer on a random tunnel
                let cands: Vec<(usize, usize)> = sessions.iter().enumerate().flat_map(|(i, s)| (0..s.tunnels.len()).map(move |j| (i, j))).collect();
                if cands.is_empty() { continue; }
                let (si, ti) = *r.pick(&cands);
                let up = *r.pick(&[0usize, 1, 1000, 70_000]);
                let down = *r.pick(&[0usize, 3, 5000, 200_000]);
                let p = sessions[si].proto;
                let mut header = vec![];
                header.extend_from_slice(&(up as u32).to_be_bytes());
                header.extend_from_slice(&(down as u32).to_be_bytes());
                header.extend(vec![0x55u8; up]);
                let ok = match &mut sessions[si].tunnels[ti] {
                    Tun::H1 { stream } => {
                        let _ = stream.write_all(&header).await;
                        let mut left = down; let mut buf = vec![0u8; 65536]; let mut ok = true;
                        while left > 0 { match tokio::time::timeout(Duration::from_secs(5), stream.read(&mut buf)).await { Ok(Ok(n)) if n > 0 => left -= n.min(left), _ => { ok = false; break; } } }
                        ok
                    }
                    Tun::H2 { send, recv } => {
                        let mut data = Bytes::from(header);
                        let mut ok = true;
                        while !data.is_empty() {
                            send.reserve_capacity(data.len());
                            match tokio::time::timeout(Duration::from_secs(5), futures::future::poll_fn(|cx| send.poll_capacity(cx))).await {
                                Ok(Some(Ok(c))) if c > 0 => { let chunk = data.split_to(c.min(data.len())); if send.send_data(chunk, false).is_err() { ok = false; break; } }
                                _ => { ok = false; break; }
                            }
                        }
                        let mut left = down;
                        while ok && left > 0 { match tokio::time::timeout(Duration::from_secs(5), recv.data()).await { Ok(Some(Ok(b))) => { let _ = recv.flow_control().release_capacity(b.len()); left -= b.len().min(left); } _ => { ok = false; } } }
                        ok
                    }
                };
                if !ok { rep.inconclusive("transfer did not complete"); return; }
                step = format!("transfer up={} down={}", up + 8, down);
                model.up[p] += (up + 8) as u64;
                model.down[p] += down as u64;
            }
            6 => {
                // close a tunnel: gracefully (half-close) or by reset
                let cands: Vec<(usize, usize)> = sessions.iter().enumerate().flat_map(|(i, s)| (0..s.tunnels.len()).map(move |j| (i, j))).collect();
                if cands.is_empty() { continue; }
                let (si, ti) = *r.pick(&cands);
                let t = sessions[si].tunnels.remove(ti);
                match t {
                    Tun::H1 { mut stream } => { step = "close-tunnel h1 (session ends)".into(); let _ = stream.shutdown().await; drop(stream); model.sessions[0] -= 1; sessions.remove(si); }
                    Tun::H2 { mut send, recv } => {
                        if r.chance(1, 2) { step = "close-tunnel h2 graceful".into(); let _ = send.send_data(Bytes::new(), true); tokio::time::sleep(Duration::from_millis(50)).await; drop(recv); }
                        else { step = "close-tunnel h2 reset".into(); send.send_reset(h2::Reason::CANCEL); drop(recv); }
                    }
                }
                model.tcp -= 1;
            }
            14 => {
                // half-closed tunnel: the client ends its direction, the destination keeps the connection for 1.2 s and answers late.
                // While the tunnel is half-closed the outbound connection is still alive and must still be counted.
                let cands: Vec<(usize, usize)> = sessions.iter().enumerate().flat_map(|(i, s)| (0..s.tunnels.len()).filter(move |j| matches!(s.tunnels[*j], Tun::H2 { .. })).map(move |j| (i, j))).collect();
                if cands.is_empty() { continue; }
                let (si, ti) = *r.pick(&cands);
                let Tun::H2 { mut send, mut recv } = sessions[si].tunnels.remove(ti) else { continue };
                let mut header = vec![];
                header.extend_from_slice(&0xffff_ffffu32.to_be_bytes());
                header.extend_from_slice(&1200u32.to_be_bytes());
                send.reserve_capacity(8);
                let _ = futures::future::poll_fn(|cx| send.poll_capacity(cx)).await;
                let _ = send.send_data(Bytes::from(header), true);
                model.up[1] += 8;
                tokio::time::sleep(Duration::from_millis(300)).await;
                {
                    let (snap, stable) = wait_quiescent(&ep.ctx, &model).await;
                    rep.evals(1);
                    let mut tr = trace.clone();
                    tr.push("half-close h2 tunnel (client ended its direction, destination still open)".into());
                    compare(rep, "half-closed-tunnel h2 (destination still open)", h, &snap, stable, &model, &tr);
                }
                // the late answer, then the destination closes
                let mut got = 0usize;
                while let Ok(Some(Ok(b))) = tokio::time::timeout(Duration::from_secs(4), recv.data()).await { let _ = recv.flow_control().release_capacity(b.len()); got += b.len(); }
                if got != 4 { rep.inconclusive("half-closed tunnel: late answer of the destination not received"); }
                model.down[1] += got as u64;
                model.tcp -= 1;
                step = "half-closed tunnel ended by the destination".into();
            }
            7 | 11 => {
                // idle timeout (idle mode only): every open tunnel and UDP flow is closed by the endpoint
                step = "idle-timeout (wait 2T)".into();
                tokio::time::sleep(Duration::from_millis(2 * 2500 + 500)).await;
                model.tcp = 0;
                model.udp = 0;
                for s in sessions.iter_mut() { s.tunnels.clear(); s.udp_flows.clear(); }
            }
            8 => {
                // UDP flow on an h2 session
                let Some(si) = sessions.iter().position(|s| s.proto == 1) else { continue };
                let s = &mut sessions[si];
                if s.udp.is_none() {
                    let (send, _) = s.h2.as_mut().unwrap();
                    let req = http::Request::builder().method("CONNECT").uri("_udp2").body(()).unwrap();
                    let _ = futures::future::poll_fn(|cx| send.poll_ready(cx)).await;
                    let Ok((fut, tx)) = send.send_request(req, false) else { continue };
                    match tokio::time::timeout(Duration::from_secs(3), fut).await { Ok(Ok(resp)) if resp.status() == 200 => s.udp = Some((tx, resp.into_body())), _ => { rep.inconclusive("_udp2 not accepted"); continue; } }
                }
                let (tx, rx) = s.udp.as_mut().unwrap();
                let port = 41000 + r.below(3) as u16;
                let payload = vec![0x77u8; *r.pick(&[1usize, 200, 1200])];
                let rec = crate::props::c06::encode_63(format!("10.8.0.2:{}", port).parse().unwrap(), udp_echo, b"app", &payload, None);
                let fresh_key = format!("udp:{}", port);
                tx.reserve_capacity(rec.len());
                let _ = futures::future::poll_fn(|cx| tx.poll_capacity(cx)).await;
                if tx.send_data(Bytes::from(rec), false).is_err() { rep.inconclusive("udp stream send failed"); continue; }
                // read the echoed record back
                let mut got = 0usize;
                let want = 4 + 36 + payload.len();
                while got < want { match tokio::time::timeout(Duration::from_secs(3), rx.data()).await { Ok(Some(Ok(b))) => { let _ = rx.flow_control().release_capacity(b.len()); got += b.len(); } _ => break } }
                if got < want { rep.inconclusive("udp echo did not come back"); continue; }
                step = format!("udp-datagram {} ({} bytes)", fresh_key, payload.len());
                if s.udp_flows.insert(port) { model.udp += 1; }
                model.up[1] += payload.len() as u64;
                model.down[1] += payload.len() as u64;
            }
            13 => {
                // connections that never become sessions: they must leave no trace in any gauge
                let kind = r.below(4);
                match kind {
                    0 => { if let Ok(mut t) = TcpStream::connect(ep.addr).await { let _ = t.write_all(b"GET / HTTP/1.1\r\nHost: x\r\n\r\n").await; let mut b = [0u8; 64]; let _ = tokio::time::timeout(Duration::from_millis(300), t.read(&mut b)).await; } step = "failed-handshake not-tls".into(); }
                    1 => { let o = tls_connect(ep.addr, Some("unknown.test"), &[b"h2"], Duration::from_secs(2)).await; drop(o); step = "failed-handshake unknown-sni".into(); }
                    2 => { if let Ok(mut t) = TcpStream::connect(ep.addr).await { let hello = crate::props::c12::rustls_hello("main.test", &[b"h2"]).bytes; let _ = t.write_all(&hello[..hello.len() / 2]).await; tokio::time::sleep(Duration::from_millis(30)).await; } step = "failed-handshake client-gone-mid-hello".into(); }
                    _ => { let o = tls_connect(ep.addr, Some("main.test"), &[b"spdy/3"], Duration::from_secs(2)).await; drop(o); step = "failed-handshake unknown-alpn".into(); }
                }
                tokio::time::sleep(Duration::from_millis(50)).await;
            }
            _ => {
                // close a session: all its tunnels and UDP flows go with it
                if sessions.is_empty() { continue; }
                let si = r.below(sessions.len() as u64) as usize;
                let s = sessions.remove(si);
                step = format!("close-session {}", if s.proto == 0 { "h1" } else { "h2" });
                model.sessions[s.proto] -= 1;
                model.tcp -= s.tunnels.len() as i64;
                model.udp -= s.udp_flows.len() as i64;
                if let Some((send, j)) = s.h2 { drop(send); j.abort(); }
                drop(s.h1);
                drop(s.tunnels);
                drop(s.udp);
            }
        }
        trace.push(step.clone());
        rep.tally(&format!("step driven: {}", step_class(&step)), 1);
        let (snap, stable) = wait_quiescent(&ep.ctx, &model).await;
        let m2 = model.clone();
        rep.evals(1);
        compare(rep, &step, h, &snap, stable, &m2, &trace);
        // exported text == in-process values
        if r.chance(1, 2) || step.starts_with("transfer") {
            match http_get(maddr, "/metrics").await {
                Some((200, body)) => {
                    let m = parse_metrics(&body);
                    let snap2 = metrics_snapshot(&ep.ctx);
                    let mut missing = vec![];
                    let mut wrong = vec![];
                    let mut chk = |key: &str, want: f64, must: bool| match m.get(key) { Some(v) if (*v - want).abs() < 0.5 => {}, Some(v) => wrong.push(format!("{} = {} (in-process {})", key, v, want)), None => if must || want != 0.0 { missing.push(key.to_string()) } };
                    chk("outbound_tcp_sockets", snap2.outbound_tcp as f64, true);
                    chk("outbound_udp_sockets", snap2.outbound_udp as f64, true);
                    for (p, name) in [(0usize, "http1"), (1, "http2")] {
                        chk(&format!("client_sessions{{protocol_type=\"{}\"}}", name), snap2.sessions[p] as f64, false);
                        chk(&format!("inbound_traffic_bytes{{protocol_type=\"{}\"}}", name), snap2.traffic[p].0 as f64, false);
                        chk(&format!("outbound_traffic_bytes{{protocol_type=\"{}\"}}", name), snap2.traffic[p].1 as f64, false);
                    }
                    if !missing.is_empty() { rep.violation("documented series missing from GET /metrics", json!({"kind":"metrics-export","missing":missing,"body_prefix":body.chars().take(400).collect::<String>(),"history":h})); }
                    else if !wrong.is_empty() && metrics_snapshot(&ep.ctx) == snap2 { rep.violation("value exported by GET /metrics differs from the in-process value", json!({"kind":"metrics-export","wrong":wrong,"history":h})); }
                    else { rep.tally("GET /metrics: all documented series present with the in-process values", 1); }
                }
                None => { rep.inconclusive("GET /metrics: no answer within the harness's patience"); rep.tally("GET /metrics: no answer", 1); }
                Some((code, _)) => rep.violation("GET /metrics on the metrics listener did not answer 200", json!({"kind":"metrics-export","got":code,"history":h})),
            }
            match http_get(maddr, "/health-check").await {
                Some((200, _)) => rep.tally("/health-check: 200", 1),
                None => { rep.inconclusive("/health-check: no answer within the harness's patience"); rep.tally("/health-check: no answer", 1); }
                Some((code, _)) => rep.violation("/health-check did not answer 200", json!({"got":code})),
            }
        }
    }
    // everything closed: gauges return to zero
    for s in sessions.drain(..) { if let Some((send, j)) = s.h2 { drop(send); j.abort(); } }
    let zero = Model { up: model.up, down: model.down, ..Default::default() };
    tokio::time::sleep(Duration::from_millis(100)).await;
    let (snap, stable) = wait_quiescent(&ep.ctx, &zero).await;
    rep.evals(1);
    compare(rep, "all-clients-gone", h, &snap, stable, &zero, &trace);
    rep.distinct(common::fnv(trace.join("|").as_bytes()));
    if rep.want_sample() { rep.sample(json!({"history": h, "steps": trace, "final_in_process": format!("{:?}", snap)})); }
    ep.task.abort();
}

// ------------------------------------------------------------------ UDP byte accounting (L1, virtual time)

/// Scripted forwarder side: byte 0 of a client datagram says whether the "socket" sends (0) or drops (1) it,
/// byte 1 how many reply datagrams come back, byte 2 whether the client's sink accepts (0) or drops (1) them.
struct ScriptedPeer {
    replies_tx: tokio::sync::mpsc::UnboundedSender<trusttunnel::verif::misc::UdpPeerEvent>,
    replies_rx: tokio::sync::Mutex<tokio::sync::mpsc::UnboundedReceiver<trusttunnel::verif::misc::UdpPeerEvent>>,
    sent_bytes: std::sync::atomic::AtomicU64,
    sent: std::sync::atomic::AtomicU64,
    dropped: std::sync::atomic::AtomicU64,
    refuse_new_on_port: u16,
}

#[async_trait::async_trait]
impl trusttunnel::verif::misc::VUdpPeer for ScriptedPeer {
    async fn on_new(&self, _source: SocketAddr, destination: SocketAddr) -> std::io::Result<()> {
        if destination.port() == self.refuse_new_on_port { Err(std::io::Error::from(std::io::ErrorKind::PermissionDenied)) } else { Ok(()) }
    }
    fn on_closed(&self, _source: SocketAddr, _destination: SocketAddr) {}
    async fn read(&self) -> std::io::Result<trusttunnel::verif::misc::UdpPeerEvent> {
        self.replies_rx.lock().await.recv().await.ok_or_else(|| std::io::Error::from(std::io::ErrorKind::UnexpectedEof))
    }
    async fn write(&self, d: trusttunnel::verif::pure::UdpIn) -> std::io::Result<bool> {
        use std::sync::atomic::Ordering::SeqCst;
        let code = d.payload.first().copied().unwrap_or(0);
        if code == 1 { self.dropped.fetch_add(1, SeqCst); return Ok(false); }
        self.sent.fetch_add(1, SeqCst);
        self.sent_bytes.fetch_add(d.payload.len() as u64, SeqCst);
        let nrep = d.payload.get(1).copied().unwrap_or(0) % 3;
        for k in 0..nrep {
            let mut p = vec![d.payload.get(2).copied().unwrap_or(0); 1 + (d.payload.len() * (k as usize + 1)) % 900];
            p[0] = d.payload.get(2).copied().unwrap_or(0);
            let _ = self.replies_tx.send(trusttunnel::verif::misc::UdpPeerEvent::Datagram(trusttunnel::verif::misc::UdpOut { source: d.destination, destination: d.source, payload: Bytes::from(p) }));
        }
        Ok(true)
    }
}

struct AcctSource(tokio::sync::mpsc::UnboundedReceiver<trusttunnel::verif::pure::UdpIn>);
#[async_trait::async_trait]
impl trusttunnel::verif::misc::VUdpSource for AcctSource {
    async fn read(&mut self) -> std::io::Result<trusttunnel::verif::pure::UdpIn> { self.0.recv().await.ok_or_else(|| std::io::Error::from(std::io::ErrorKind::UnexpectedEof)) }
}
struct AcctSink { accepted_bytes: Arc<std::sync::atomic::AtomicU64>, accepted: Arc<std::sync::atomic::AtomicU64>, dropped: Arc<std::sync::atomic::AtomicU64> }
#[async_trait::async_trait]
impl trusttunnel::verif::misc::VUdpSink for AcctSink {
    async fn write(&mut self, d: trusttunnel::verif::misc::UdpOut) -> std::io::Result<bool> {
        use std::sync::atomic::Ordering::SeqCst;
        if d.payload.first().copied().unwrap_or(0) == 1 { self.dropped.fetch_add(1, SeqCst); return Ok(false); }
        self.accepted.fetch_add(1, SeqCst);
        self.accepted_bytes.fetch_add(d.payload.len() as u64, SeqCst);
        Ok(true)
    }
}

/// "traffic counters equal the payload bytes actually relayed" for UDP: the real udp_pipe::DuplexPipe between a mirror
/// client and a scripted forwarder side whose per-datagram outcome (sent / dropped) the harness chooses; the callback the
/// tunnel feeds the counters with must add up to exactly the bytes of the datagrams that were sent, per direction.
fn udp_accounting_part(rep: &Arc<Reporter>, args: &Args) {
    use std::sync::atomic::{AtomicU64, Ordering::SeqCst};
    let rt = crate::env::rt_paused();
    let n = args.qt(300u64, 20_000u64);
    for h in 0..n {
        let mut r = Rng::derive(args.seed, 0xc16acc, h);
        let (rtx, rrx) = tokio::sync::mpsc::unbounded_channel();
        let peer = Arc::new(ScriptedPeer { replies_tx: rtx, replies_rx: tokio::sync::Mutex::new(rrx), sent_bytes: AtomicU64::new(0), sent: AtomicU64::new(0), dropped: AtomicU64::new(0), refuse_new_on_port: 9 });
        let (ctx_tx, crx) = tokio::sync::mpsc::unbounded_channel();
        let (ab, ac, ad) = (Arc::new(AtomicU64::new(0)), Arc::new(AtomicU64::new(0)), Arc::new(AtomicU64::new(0)));
        let counted = Arc::new((AtomicU64::new(0), AtomicU64::new(0), AtomicU64::new(0), AtomicU64::new(0))); // up bytes, up calls, down bytes, down calls
        let ndg = r.range(1, 30) as usize;
        let mut plan = vec![];
        for _ in 0..ndg {
            let flow = r.below(4);
            let to_refused = r.chance(1, 12);
            let len = *r.pick(&[3usize, 4, 50, 512, 1400]);
            let mut payload = r.bytes(len);
            payload[0] = if r.chance(1, 3) { 1 } else { 0 };
            payload[1] = r.below(3) as u8;
            payload[2] = if r.chance(1, 3) { 1 } else { 0 };
            plan.push((flow, to_refused, payload));
        }
        let mut refused_bytes = 0u64;
        let res = rt.block_on(async {
            let (peer2, counted2) = (peer.clone(), counted.clone());
            let sink = AcctSink { accepted_bytes: ab.clone(), accepted: ac.clone(), dropped: ad.clone() };
            let pipe = tokio::spawn(async move {
                trusttunnel::verif::misc::run_udp_pipe_scripted((Box::new(AcctSource(crx)), Box::new(sink)), peer2, Duration::from_secs(60), move |outgoing, n| {
                    if outgoing { counted2.0.fetch_add(n as u64, SeqCst); counted2.1.fetch_add(1, SeqCst); } else { counted2.2.fetch_add(n as u64, SeqCst); counted2.3.fetch_add(1, SeqCst); }
                }).await
            });
            for (flow, to_refused, payload) in &plan {
                let destination: SocketAddr = if *to_refused { "203.0.113.9:9".parse().unwrap() } else { format!("203.0.113.{}:{}", 10 + flow, if *flow >= 2 { 53 } else { 4000 }).parse().unwrap() }; // flows 2 and 3 are plain-DNS flows (closed by the reply that answers the last outstanding query)
                if *to_refused { refused_bytes += payload.len() as u64; }
                let _ = ctx_tx.send(trusttunnel::verif::pure::UdpIn { source: format!("10.8.0.2:{}", 5000 + flow).parse().unwrap(), destination, app_name: None, payload: Bytes::from(payload.clone()) });
                if r.chance(1, 3) { tokio::time::sleep(Duration::from_millis(r.below(20_000))).await; }
            }
            tokio::time::sleep(Duration::from_secs(5)).await;
            drop(ctx_tx);
            tokio::time::timeout(Duration::from_secs(600), pipe).await
        });
        rep.evals(1);
        rep.distinct(common::fnv(format!("acct|{:?}", plan.iter().map(|(f, t, p)| (*f, *t, p.len(), p[0], p[1], p[2])).collect::<Vec<_>>()).as_bytes()));
        let (up_b, up_c, down_b, down_c) = (counted.0.load(SeqCst), counted.1.load(SeqCst), counted.2.load(SeqCst), counted.3.load(SeqCst));
        let w = json!({"kind":"udp-accounting","history":h,"datagrams":plan.iter().map(|(f, t, p)| json!({"flow":f,"to_unconnectable":t,"len":p.len(),"peer_socket":if p[0] == 1 {"drops"} else {"sends"},"replies":p[1] % 3,"client_sink":if p[2] == 1 {"drops"} else {"accepts"}})).collect::<Vec<_>>(),
            "counted_up_bytes":up_b,"sent_to_peers_bytes":peer.sent_bytes.load(SeqCst),"counted_down_bytes":down_b,"accepted_by_client_bytes":ab.load(SeqCst),"dropped_by_peer_socket":peer.dropped.load(SeqCst),"dropped_by_client_sink":ad.load(SeqCst)});
        if rep.want_sample() { rep.sample(w.clone()); }
        if !matches!(res, Ok(Ok(Ok(())))) && !matches!(res, Ok(Ok(Err(_)))) { rep.violation("udp accounting: the multiplexer did not end when the client stream closed", w.clone()); continue; }
        if up_b != peer.sent_bytes.load(SeqCst) || up_c != peer.sent.load(SeqCst) {
            rep.violation("UDP upload bytes counted differ from the bytes of the datagrams actually sent to peers", w.clone());
        } else if down_b != ab.load(SeqCst) || down_c != ac.load(SeqCst) {
            rep.violation("UDP download bytes counted differ from the bytes of the datagrams actually delivered to the client", w.clone());
        } else {
            rep.tally("udp accounting: counters == bytes actually relayed (both directions)", 1);
            rep.tally("udp accounting: datagrams dropped by the peer-side socket (not counted)", peer.dropped.load(SeqCst));
            rep.tally("udp accounting: datagrams dropped by the client sink (not counted)", ad.load(SeqCst));
            let _ = refused_bytes;
        }
    }
}

/// The metrics listener under every combination of listen protocols: /metrics answers 200 with the documented series
/// and /health-check answers 200 whichever client-facing protocols are enabled.
fn listener_configs_part(rep: &Arc<Reporter>, args: &Args) {
    let rt = env::rt_multi(2);
    rt.block_on(async {
        for (k, protocols) in [(true, true, false), (false, true, false), (true, false, false), (false, true, true), (false, false, true)].into_iter().enumerate() {
            let dir = env::work_dir(&args.root, &format!("c16cfg{}", k));
            let hosts = Hosts { main: vec![("main.test".into(), vec![])], ..Default::default() };
            let mport = free_port(false);
            let maddr: SocketAddr = format!("127.0.0.1:{}", mport).parse().unwrap();
            let ep = start_endpoint(&dir, "127.0.0.1", &hosts, None, vec![], protocols, move |b| {
                b.metrics(trusttunnel::settings::MetricsSettings::builder().listen_address(maddr).unwrap().build().unwrap())
            }).await;
            // the metrics listener comes up with the endpoint: wait for it to accept (a wall-clock matter)
            let mut up = false;
            for _ in 0..300 { if let Ok(s) = TcpStream::connect(maddr).await { drop(s); up = true; break; } tokio::time::sleep(Duration::from_millis(10)).await; }
            let name = format!("http1={} http2={} quic={}", protocols.0, protocols.1, protocols.2);
            rep.evals(1);
            rep.distinct(common::fnv(format!("metrics-cfg|{}", name).as_bytes()));
            if !up { rep.inconclusive("metrics listener did not accept within 3 s"); ep.task.abort(); continue; }
            let m = http_get(maddr, "/metrics").await;
            let hc = http_get(maddr, "/health-check").await;
            let w = json!({"kind":"metrics-listener","listen_protocols":name,"metrics_status":m.as_ref().map(|x| x.0),"metrics_has_client_sessions":m.as_ref().map(|x| x.1.contains("client_sessions")),"health_check_status":hc.as_ref().map(|x| x.0)});
            match (&m, &hc) {
                (None, _) | (_, None) => rep.violation(&format!("the metrics listener does not answer with listen protocols {}", if protocols.0 { "including HTTP/1.1" } else { "without HTTP/1.1" }), w),
                // (series with label sets that were never touched are legitimately absent from the text: only the status is judged here)
                (Some((200, _)), Some((200, _))) => rep.tally("metrics listener answers /metrics and /health-check under this set of listen protocols", 1),
                _ => rep.violation("GET /metrics or /health-check not answered 200", w),
            }
            ep.task.abort();
        }
    });
}

pub fn run(args: &Args) -> i32 {
    let rep = Arc::new(Reporter::new(
        args,
        "exploration",
        "history = 6-14 steps against the real Core::listen on loopback (TLS, HTTP/1.1 and HTTP/2, metrics listener): open/close session, open tunnel to a \
         transfer server, failed connect, asymmetric transfer (up N+8 / down M bytes), graceful close / reset, a half-closed tunnel (client ended, destination answers 1.2 s later), idle timeout, connections that never become sessions (not TLS, unknown SNI, unknown ALPN, client gone mid-hello), _udp2 datagrams on up to 3 flows, \
         UDP expiry; after every step: quiescence (two identical snapshots), in-process gauges/counters vs the model, GET /metrics text vs in-process values, \
         /health-check. Plus (L1, virtual time) UDP byte accounting: the real udp_pipe::DuplexPipe between a mirror client and a scripted forwarder side that sends or drops each datagram as the harness chooses; the counter callback must add up to the bytes actually relayed. distinct_nontrivial = distinct step sequences / datagram plans.",
    ));
    rep.assume("label values are compared case-insensitively (HTTP1 in code, http1 in METRICS.md)");
    rep.assume("ordinary histories run under long idle timeouts (120 s) so nothing expires on its own; expiry is exercised by dedicated histories with T_tcp = 2.5 s / T_udp = 2 s and a wait of 2T + 500 ms");
    udp_accounting_part(&rep, args);
    listener_configs_part(&rep, args);
    let dir = env::work_dir(&args.root, "c16");
    let n = args.qt(24u64, 600u64);
    let seed = args.seed;
    let rt = env::rt_multi(6);
    rt.block_on(async {
        let l = TcpListener::bind("127.0.0.1:0").await.unwrap();
        let transfer_addr = l.local_addr().unwrap();
        tokio::spawn(transfer_server(l));
        let u = Arc::new(UdpSocket::bind("127.0.0.1:0").await.unwrap());
        let udp_echo = u.local_addr().unwrap();
        { let u = u.clone(); tokio::spawn(async move { let mut b = vec![0u8; 65536]; loop { if let Ok((n, from)) = u.recv_from(&mut b).await { let _ = u.send_to(&b[..n], from).await; } } }); }
        let closed_port = free_port(false);
        // 4 histories at a time (each has its own endpoint and metrics)
        let mut h = 0;
        while h < n {
            let mut js = vec![];
            for k in 0..4.min(n - h) {
                let (rep, dir) = (rep.clone(), dir.clone());
                js.push(tokio::spawn(async move { run_history(&rep, &dir, seed, h + k, transfer_addr, udp_echo, closed_port, (h + k) % 6 == 5).await }));
            }
            for j in js { let _ = j.await; }
            h += 4;
        }
    });
    crate::props::h3_l2::c16_h3(&rep, args);
    if rep.get_tally("GET /metrics: all documented series present with the in-process values") == 0 && rep.violation_count() == 0 {
        rep.violation("the metrics listener never answered GET /metrics in the whole run", json!({"kind":"metrics-export","no_answer":rep.get_tally("GET /metrics: no answer")}));
    }
    rep.finish()
}
