//! Verdict accounting, known-finding matching and evidence writing.

use serde_json::{json, Map, Value};
use std::collections::{BTreeMap, HashSet};
use std::path::PathBuf;
use std::sync::Mutex;
use std::time::Instant;

#[derive(Clone, Copy, PartialEq, Eq, Debug)]
pub enum Tier {
    Quick,
    Thorough,
}

#[derive(Clone, Debug)]
pub struct Args {
    pub id: String,
    pub tier: Tier,
    pub seed: u64,
    pub replay: Option<PathBuf>,
    pub root: PathBuf,
    pub extra: Vec<String>,
}

impl Args {
    pub fn parse() -> Args {
        let argv: Vec<String> = std::env::args().collect();
        let mut id = String::new();
        let mut tier = match std::env::var("VERIF_TIER").ok().as_deref() {
            Some("thorough") => Tier::Thorough,
            _ => Tier::Quick,
        };
        let mut replay = None;
        let mut extra = vec![];
        let mut i = 1;
        while i < argv.len() {
            match argv[i].as_str() {
                "--tier" => {
                    i += 1;
                    tier = if argv.get(i).map(String::as_str) == Some("thorough") {
                        Tier::Thorough
                    } else {
                        Tier::Quick
                    };
                }
                "--replay" => {
                    i += 1;
                    replay = argv.get(i).map(PathBuf::from);
                }
                x if id.is_empty() && !x.starts_with("--") => id = x.to_string(),
                x => extra.push(x.to_string()),
            }
            i += 1;
        }
        let seed = std::env::var("VERIF_SEED")
            .ok()
            .and_then(|s| s.trim().parse::<i64>().ok())
            .map(|x| x as u64)
            .unwrap_or(1);
        let root = std::env::var("VERIF_ROOT")
            .map(PathBuf::from)
            .unwrap_or_else(|_| PathBuf::from("/verif"));
        Args {
            id,
            tier,
            seed,
            replay,
            root,
            extra,
        }
    }

    pub fn thorough(&self) -> bool {
        self.tier == Tier::Thorough
    }

    /// quick-or-thorough scalar
    pub fn qt<T>(&self, q: T, t: T) -> T {
        if self.thorough() {
            t
        } else {
            q
        }
    }

    pub fn has_flag(&self, f: &str) -> bool {
        self.extra.iter().any(|x| x == f)
    }
}

const MAX_SAMPLES: usize = 6;
const MAX_DISTINCT_SET: usize = 4_000_000;

struct Violation {
    count: u64,
    detail: Value,
}

#[derive(Default)]
struct Inner {
    evaluations: u64,
    distinct: HashSet<u64>,
    distinct_by_construction: u64,
    samples: Vec<Value>,
    tallies: BTreeMap<String, u64>,
    extra: Map<String, Value>,
    assumptions: Vec<String>,
    violations: BTreeMap<String, Violation>,
    inconclusive: BTreeMap<String, u64>,
    exhaustive: Option<bool>,
}

pub struct Reporter {
    pub args: Args,
    level: String,
    rule: String,
    inner: Mutex<Inner>,
    start: Instant,
}

impl Reporter {
    pub fn new(args: &Args, level: &str, rule: &str) -> Self {
        Self {
            args: args.clone(),
            level: level.to_string(),
            rule: rule.to_string(),
            inner: Mutex::new(Inner::default()),
            start: Instant::now(),
        }
    }

    pub fn evals(&self, n: u64) {
        self.inner.lock().unwrap().evaluations += n;
    }

    /// One non-trivial case identified by a hash of its content
    pub fn distinct(&self, h: u64) {
        let mut g = self.inner.lock().unwrap();
        if g.distinct.len() < MAX_DISTINCT_SET {
            g.distinct.insert(h);
        }
    }

    pub fn distinct_many(&self, hs: impl IntoIterator<Item = u64>) {
        let mut g = self.inner.lock().unwrap();
        for h in hs {
            if g.distinct.len() >= MAX_DISTINCT_SET {
                break;
            }
            g.distinct.insert(h);
        }
    }

    /// Cases that are distinct by construction (an enumeration that never repeats an input);
    /// counted by the enumerator itself.
    pub fn distinct_by_construction(&self, n: u64) {
        self.inner.lock().unwrap().distinct_by_construction += n;
    }

    pub fn sample(&self, v: Value) {
        let mut g = self.inner.lock().unwrap();
        if g.samples.len() < MAX_SAMPLES {
            g.samples.push(v);
        }
    }

    pub fn want_sample(&self) -> bool {
        self.inner.lock().unwrap().samples.len() < MAX_SAMPLES
    }

    pub fn tally(&self, k: &str, n: u64) {
        *self.inner.lock().unwrap().tallies.entry(k.to_string()).or_insert(0) += n;
    }

    pub fn tally_map(&self, m: &BTreeMap<String, u64>) {
        let mut g = self.inner.lock().unwrap();
        for (k, n) in m {
            *g.tallies.entry(k.clone()).or_insert(0) += n;
        }
    }

    pub fn get_tally(&self, k: &str) -> u64 {
        self.inner.lock().unwrap().tallies.get(k).copied().unwrap_or(0)
    }

    pub fn set(&self, k: &str, v: Value) {
        self.inner.lock().unwrap().extra.insert(k.to_string(), v);
    }

    pub fn exhaustive(&self, x: bool) {
        self.inner.lock().unwrap().exhaustive = Some(x);
    }

    pub fn assume(&self, s: &str) {
        let mut g = self.inner.lock().unwrap();
        if !g.assumptions.iter().any(|x| x == s) {
            g.assumptions.push(s.to_string());
        }
    }

    /// A refuted MUST. `sig` is the stable signature (input class + wrong outcome) that
    /// known findings are keyed on; `detail` is the replayable witness.
    pub fn violation(&self, sig: &str, detail: Value) {
        let mut g = self.inner.lock().unwrap();
        match g.violations.get_mut(sig) {
            Some(v) => v.count += 1,
            None => {
                g.violations.insert(
                    sig.to_string(),
                    Violation { count: 1, detail },
                );
            }
        }
    }

    pub fn violation_count(&self) -> usize {
        self.inner.lock().unwrap().violations.len()
    }

    pub fn inconclusive(&self, why: &str) {
        *self
            .inner
            .lock()
            .unwrap()
            .inconclusive
            .entry(why.to_string())
            .or_insert(0) += 1;
    }

    fn load_known(&self) -> (Vec<(String, String)>, Vec<(String, String)>) {
        // (signature, what) of known findings / fixed entries of this property
        let p = self.args.root.join("known_findings.json");
        let mut known = vec![];
        let mut fixed = vec![];
        if let Ok(s) = std::fs::read_to_string(&p) {
            if let Ok(v) = serde_json::from_str::<Value>(&s) {
                for e in v["findings"].as_array().cloned().unwrap_or_default() {
                    if e["property"].as_str() == Some(&self.args.id) {
                        known.push((
                            e["signature"].as_str().unwrap_or("").to_string(),
                            e["what"].as_str().unwrap_or("").to_string(),
                        ));
                    }
                }
                for e in v["fixed"].as_array().cloned().unwrap_or_default() {
                    if e["property"].as_str() == Some(&self.args.id) {
                        fixed.push((
                            e["signature"].as_str().unwrap_or("").to_string(),
                            e["what"].as_str().unwrap_or("").to_string(),
                        ));
                    }
                }
            }
        }
        (known, fixed)
    }

    /// Write the evidence file, print verdict lines, return the process exit code.
    pub fn finish(&self) -> i32 {
        let g = self.inner.lock().unwrap();
        let id = &self.args.id;
        let (known, _fixed) = self.load_known();
        let replay_dir = self.args.root.join("evidence").join("replays");
        // witnesses of earlier runs of this property are stale
        if let Ok(rd) = std::fs::read_dir(&replay_dir) {
            for e in rd.flatten() {
                if e.file_name().to_string_lossy().starts_with(&format!("{}-", id)) {
                    let _ = std::fs::remove_file(e.path());
                }
            }
        }
        let mut unknown = 0usize;
        let mut known_hits = vec![];
        let mut violation_summaries = vec![];
        for (sig, v) in &g.violations {
            if let Some((_, what)) = known.iter().find(|(s, _)| s == sig) {
                println!("KNOWN-FINDING: property={} {} [{}] (x{})", id, what, sig, v.count);
                known_hits.push(json!({"signature": sig, "count": v.count}));
                continue;
            }
            unknown += 1;
            let _ = std::fs::create_dir_all(&replay_dir);
            let path = replay_dir.join(format!(
                "{}-{:016x}.json",
                id,
                super::fnv(sig.as_bytes())
            ));
            let doc = json!({
                "property": id,
                "signature": sig,
                "count": v.count,
                "tier": format!("{:?}", self.args.tier).to_lowercase(),
                "seed": self.args.seed as i64,
                "witness": v.detail,
            });
            let _ = std::fs::write(&path, serde_json::to_string_pretty(&doc).unwrap());
            println!("VIOLATION property={} replay={}", id, path.display());
            println!("  signature: {}", sig);
            let d = serde_json::to_string(&v.detail).unwrap_or_default();
            println!("  witness: {}", if d.len() > 600 { let mut k = 600; while !d.is_char_boundary(k) { k -= 1; } &d[..k] } else { &d });
            violation_summaries.push(json!({"signature": sig, "count": v.count}));
        }
        let distinct_n = g.distinct.len() as u64 + g.distinct_by_construction;
        let inconclusive_total: u64 = g.inconclusive.values().sum();
        let mut coverage = Map::new();
        coverage.insert("evaluations".into(), json!(g.evaluations));
        coverage.insert("distinct_nontrivial".into(), json!(distinct_n));
        coverage.insert("rule".into(), json!(self.rule));
        coverage.insert("samples".into(), Value::Array(g.samples.clone()));
        if let Some(x) = g.exhaustive {
            coverage.insert("exhaustive".into(), json!(x));
        }
        coverage.insert(
            "observed".into(),
            Value::Object(g.tallies.iter().map(|(k, v)| (k.clone(), json!(v))).collect()),
        );
        coverage.insert(
            "inconclusive".into(),
            Value::Object(
                g.inconclusive
                    .iter()
                    .map(|(k, v)| (k.clone(), json!(v)))
                    .collect(),
            ),
        );
        coverage.insert("known_finding_hits".into(), Value::Array(known_hits));
        coverage.insert("violation_signatures".into(), Value::Array(violation_summaries));
        for (k, v) in &g.extra {
            coverage.insert(k.clone(), v.clone());
        }
        let doc = json!({
            "property_id": id,
            "tier": if self.args.thorough() { "thorough" } else { "quick" },
            "seed": self.args.seed as i64,
            "level": self.level,
            "coverage": Value::Object(coverage),
            "assumptions": g.assumptions,
            "wall_s": (self.start.elapsed().as_millis() as f64) / 1000.0,
            "violations": unknown,
        });
        if self.args.replay.is_none() {
            let dir = self.args.root.join("evidence");
            let _ = std::fs::create_dir_all(&dir);
            let path = dir.join(format!("{}.json", id));
            if let Err(e) = std::fs::write(&path, serde_json::to_string_pretty(&doc).unwrap() + "\n")
            {
                eprintln!("cannot write evidence {}: {}", path.display(), e);
                return 2;
            }
        }
        println!(
            "{} {}: evaluations={} distinct_nontrivial={} violations={} known_findings={} inconclusive={} wall={:.1}s",
            id,
            if self.args.thorough() { "thorough" } else { "quick" },
            g.evaluations,
            distinct_n,
            unknown,
            g.violations.len() - unknown,
            inconclusive_total,
            self.start.elapsed().as_secs_f64()
        );
        for (k, v) in &g.tallies {
            println!("  observed {} = {}", k, v);
        }
        for (k, v) in &g.inconclusive {
            println!("  inconclusive {} = {}", k, v);
        }
        if unknown > 0 {
            return 1;
        }
        if self.args.replay.is_none() && g.samples.is_empty() {
            println!("BROKEN-RUN property={} no sample case was recorded", id);
            return 2;
        }
        if self.args.replay.is_none() && (g.evaluations == 0 || distinct_n < 2) {
            println!(
                "BROKEN-RUN property={} the monitor observed nothing (evaluations={}, distinct={})",
                id, g.evaluations, distinct_n
            );
            return 2;
        }
        0
    }
}

/// Thread-local accumulator merged into a [`Reporter`] at the end of a shard
#[derive(Default)]
pub struct Local {
    pub evals: u64,
    pub distinct_by_construction: u64,
    pub distinct: Vec<u64>,
    pub tallies: BTreeMap<String, u64>,
}

impl Local {
    pub fn tally(&mut self, k: &str, n: u64) {
        *self.tallies.entry(k.to_string()).or_insert(0) += n;
    }

    pub fn merge_into(self, r: &Reporter) {
        r.evals(self.evals);
        r.distinct_by_construction(self.distinct_by_construction);
        r.distinct_many(self.distinct);
        r.tally_map(&self.tallies);
    }
}
