//! Wedge detection: a worker that burns CPU on ONE tiny case for seconds is stuck inside the
//! library (a loop that does not consume input). The verdict is taken from the worker thread's
//! CPU clock, not from wall time, so machine load cannot cause it; the budget is ~10^6 times a
//! normal case.

use std::sync::atomic::{AtomicI32, AtomicU64, Ordering};
use std::sync::Arc;

pub struct Slot {
    seq: AtomicU64,
    pub a: AtomicU64,
    pub b: AtomicU64,
    pub c: AtomicU64,
    pub d: AtomicU64,
    clock: AtomicI32,
    active: AtomicU64,
}

impl Slot {
    /// Called by the worker (on its own thread) before each case
    #[inline]
    pub fn set(&self, a: u64, b: u64, c: u64, d: u64) {
        self.a.store(a, Ordering::Relaxed);
        self.b.store(b, Ordering::Relaxed);
        self.c.store(c, Ordering::Relaxed);
        self.d.store(d, Ordering::Relaxed);
        self.seq.fetch_add(1, Ordering::Release);
    }

    /// Cheap progress mark without changing the case descriptor
    #[inline]
    pub fn tick(&self) {
        self.seq.fetch_add(1, Ordering::Release);
    }

    /// Register the calling thread's CPU clock
    pub fn attach(&self) {
        let mut cid: libc::clockid_t = 0;
        unsafe {
            libc::pthread_getcpuclockid(libc::pthread_self(), &mut cid);
        }
        self.clock.store(cid, Ordering::Release);
        self.active.store(1, Ordering::Release);
    }

    pub fn detach(&self) {
        self.active.store(0, Ordering::Release);
    }
}

pub struct Watch {
    pub slots: Vec<Arc<Slot>>,
}

fn cpu_ns(cid: libc::clockid_t) -> u64 {
    let mut ts = libc::timespec {
        tv_sec: 0,
        tv_nsec: 0,
    };
    unsafe {
        if libc::clock_gettime(cid, &mut ts) != 0 {
            return 0;
        }
    }
    ts.tv_sec as u64 * 1_000_000_000 + ts.tv_nsec as u64
}

impl Watch {
    /// `on_wedge(slot_index, a, b, c, d, cpu_seconds)` runs on the watchdog thread and is expected
    /// to report and terminate the process.
    pub fn start(
        n: usize,
        cpu_budget_s: u64,
        on_wedge: impl Fn(usize, u64, u64, u64, u64, f64) + Send + 'static,
    ) -> Watch {
        let slots: Vec<Arc<Slot>> = (0..n)
            .map(|_| {
                Arc::new(Slot {
                    seq: AtomicU64::new(0),
                    a: AtomicU64::new(0),
                    b: AtomicU64::new(0),
                    c: AtomicU64::new(0),
                    d: AtomicU64::new(0),
                    clock: AtomicI32::new(0),
                    active: AtomicU64::new(0),
                })
            })
            .collect();
        let watched = slots.clone();
        std::thread::spawn(move || {
            let mut last_seq = vec![u64::MAX; watched.len()];
            let mut cpu_at_change = vec![0u64; watched.len()];
            loop {
                std::thread::sleep(std::time::Duration::from_millis(250));
                for (i, s) in watched.iter().enumerate() {
                    if s.active.load(Ordering::Acquire) == 0 {
                        last_seq[i] = u64::MAX;
                        continue;
                    }
                    let seq = s.seq.load(Ordering::Acquire);
                    let now = cpu_ns(s.clock.load(Ordering::Acquire));
                    if seq != last_seq[i] {
                        last_seq[i] = seq;
                        cpu_at_change[i] = now;
                        continue;
                    }
                    let burnt = now.saturating_sub(cpu_at_change[i]);
                    if burnt > cpu_budget_s * 1_000_000_000 {
                        on_wedge(
                            i,
                            s.a.load(Ordering::Relaxed),
                            s.b.load(Ordering::Relaxed),
                            s.c.load(Ordering::Relaxed),
                            s.d.load(Ordering::Relaxed),
                            burnt as f64 / 1e9,
                        );
                        last_seq[i] = u64::MAX;
                    }
                }
            }
        });
        Watch { slots }
    }
}
