//! Capturing logger installed in every harness process (C20 rides on every workload).

use std::sync::atomic::{AtomicBool, AtomicU64, Ordering};
use std::sync::Mutex;

pub struct Captured {
    pub level: log::Level,
    pub target: String,
    pub message: String,
    /// would the endpoint's own logger (trusttunnel::log_utils, max level Trace) have written this record?
    pub emitted: bool,
}

struct Cap {
    records: Mutex<Vec<Captured>>,
    enabled: AtomicBool,
    count: AtomicU64,
    keep: AtomicBool,
}

static CAP: Cap = Cap {
    records: Mutex::new(Vec::new()),
    enabled: AtomicBool::new(false),
    count: AtomicU64::new(0),
    keep: AtomicBool::new(false),
};

impl log::Log for Cap {
    fn enabled(&self, _m: &log::Metadata) -> bool {
        self.enabled.load(Ordering::Relaxed)
    }

    fn log(&self, record: &log::Record) {
        if !self.enabled.load(Ordering::Relaxed) {
            return;
        }
        self.count.fetch_add(1, Ordering::Relaxed);
        // formatting the arguments is itself part of the workload (Debug impls can panic)
        let message = format!("{}", record.args());
        if self.keep.load(Ordering::Relaxed) {
            self.records.lock().unwrap().push(Captured {
                level: record.level(),
                target: record.target().to_string(),
                message,
                emitted: trusttunnel::log_utils::make_stdout_logger().enabled(record.metadata()),
            });
        }
    }

    fn flush(&self) {}
}

/// Install the capturing logger. `keep` = store records for later scanning.
pub fn install(keep: bool) {
    let _ = log::set_logger(&CAP);
    log::set_max_level(log::LevelFilter::Trace);
    CAP.keep.store(keep, Ordering::Relaxed);
    CAP.enabled.store(true, Ordering::Relaxed);
}

pub fn disable() {
    CAP.enabled.store(false, Ordering::Relaxed);
    log::set_max_level(log::LevelFilter::Off);
}

pub fn drain() -> Vec<Captured> {
    std::mem::take(&mut *CAP.records.lock().unwrap())
}

pub fn count() -> u64 {
    CAP.count.load(Ordering::Relaxed)
}
