//! Capturing logger installed in every harness process (C20 rides on every workload).

use std::sync::atomic::{AtomicBool, AtomicU64, Ordering};
use std::sync::Mutex;

pub struct Captured {
    pub level: log::Level,
    pub target: String,
    pub message: String,
    /// would the endpoint's own logger (trusttunnel::log_utils, max level Trace) have written this record?
    pub emitted: bool,
}

struct Cap {
    records: Mutex<Vec<Captured>>,
    enabled: AtomicBool,
    count: AtomicU64,
    keep: AtomicBool,
}

static CAP: Cap = Cap {
    records: Mutex::new(Vec::new()),
    enabled: AtomicBool::new(false),
    count: AtomicU64::new(0),
    keep: AtomicBool::new(false),
};

impl log::Log for Cap {
    fn enabled(&self, _m: &log::Metadata) -> bool {
        self.enabled.load(Ordering::Relaxed)
    }

    fn log(&self, record: &log::Record) {
        if !self.enabled.load(Ordering::Relaxed) {
            return;
        }
        self.count.fetch_add(1, Ordering::Relaxed);
        tee(record);
        // formatting the arguments is itself part of the workload (Debug impls can panic)
        let message = format!("{}", record.args());
        if self.keep.load(Ordering::Relaxed) {
            self.records.lock().unwrap().push(Captured {
                level: record.level(),
                target: record.target().to_string(),
                message,
                emitted: trusttunnel::log_utils::make_stdout_logger().enabled(record.metadata()),
            });
        }
    }

    fn flush(&self) {}
}

/// The endpoint's two real loggers, fed every record exactly as the `log` macros feed an installed logger (a call of
/// `Log::log` for every record within `log::max_level()`, without asking `enabled()` first). What they write - the file
/// logger to its file, the stdout logger to file descriptor 1, pointed at a capture file for the duration of the call -
/// is what an operator would find in the log.
pub struct Tee {
    file_logger: &'static dyn log::Log,
    stdout_logger: &'static dyn log::Log,
    cap_fd: i32,
    saved_fd: i32,
    pub file_path: std::path::PathBuf,
    pub stdout_path: std::path::PathBuf,
}

static TEE: std::sync::OnceLock<Tee> = std::sync::OnceLock::new();
static TEE_ON: AtomicBool = AtomicBool::new(false);
static TEE_LOCK: Mutex<()> = Mutex::new(());

/// Create the real loggers (once per process) and start feeding them. Returns the tee, or None if it could not be set up.
pub fn install_tee(dir: &std::path::Path) -> Option<&'static Tee> {
    if TEE.get().is_none() {
        use std::os::fd::IntoRawFd;
        let file_path = dir.join("endpoint-file-logger.log");
        let stdout_path = dir.join("endpoint-stdout-logger.log");
        let file_logger: &'static dyn log::Log = trusttunnel::log_utils::make_file_logger(&file_path.to_string_lossy()).ok()?;
        let stdout_logger: &'static dyn log::Log = trusttunnel::log_utils::make_stdout_logger();
        let cap_fd = std::fs::OpenOptions::new().create(true).append(true).open(&stdout_path).ok()?.into_raw_fd();
        let saved_fd = unsafe { libc::dup(1) };
        if saved_fd < 0 { return None; }
        let _ = TEE.set(Tee { file_logger, stdout_logger, cap_fd, saved_fd, file_path, stdout_path });
    }
    TEE_ON.store(true, Ordering::SeqCst);
    TEE.get()
}

pub fn tee_off() { TEE_ON.store(false, Ordering::SeqCst); }

/// flush what the real loggers have buffered
pub fn tee_flush() {
    if let Some(t) = TEE.get() { t.file_logger.flush(); }
}

fn tee(record: &log::Record) {
    if !TEE_ON.load(Ordering::Relaxed) { return; }
    let Some(t) = TEE.get() else { return };
    t.file_logger.log(record);
    use std::io::Write;
    let _g = TEE_LOCK.lock().unwrap_or_else(|e| e.into_inner());
    let _ = std::io::stdout().flush();
    unsafe { libc::dup2(t.cap_fd, 1); }
    t.stdout_logger.log(record);
    let _ = std::io::stdout().flush();
    unsafe { libc::dup2(t.saved_fd, 1); }
}

/// Install the capturing logger. `keep` = store records for later scanning.
pub fn install(keep: bool) {
    let _ = log::set_logger(&CAP);
    log::set_max_level(log::LevelFilter::Trace);
    CAP.keep.store(keep, Ordering::Relaxed);
    CAP.enabled.store(true, Ordering::Relaxed);
}

pub fn disable() {
    CAP.enabled.store(false, Ordering::Relaxed);
    log::set_max_level(log::LevelFilter::Off);
}

pub fn drain() -> Vec<Captured> {
    std::mem::take(&mut *CAP.records.lock().unwrap())
}

pub fn count() -> u64 {
    CAP.count.load(Ordering::Relaxed)
}
