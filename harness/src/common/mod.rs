pub mod logcap;
pub mod prng;
pub mod report;
pub mod wedge;

pub use prng::Rng;
pub use report::{Args, Reporter};

use std::hash::{Hash, Hasher};

/// Stable 64-bit FNV-1a, used for case hashes and replay file names
pub fn fnv(bytes: &[u8]) -> u64 {
    let mut h: u64 = 0xcbf29ce484222325;
    for b in bytes {
        h ^= *b as u64;
        h = h.wrapping_mul(0x100000001b3);
    }
    h
}

pub struct Fnv(pub u64);
impl Default for Fnv {
    fn default() -> Self {
        Fnv(0xcbf29ce484222325)
    }
}
impl Hasher for Fnv {
    fn finish(&self) -> u64 {
        self.0
    }
    fn write(&mut self, bytes: &[u8]) {
        for b in bytes {
            self.0 ^= *b as u64;
            self.0 = self.0.wrapping_mul(0x100000001b3);
        }
    }
}

pub fn hash_of<T: Hash>(x: &T) -> u64 {
    let mut h = Fnv::default();
    x.hash(&mut h);
    h.finish()
}

pub fn hex(b: &[u8]) -> String {
    let mut s = String::with_capacity(b.len() * 2);
    for x in b {
        s.push_str(&format!("{:02x}", x));
    }
    s
}

pub fn unhex(s: &str) -> Vec<u8> {
    (0..s.len() / 2)
        .map(|i| u8::from_str_radix(&s[2 * i..2 * i + 2], 16).unwrap_or(0))
        .collect()
}

/// Number of worker threads for CPU-bound sweeps
pub fn workers() -> usize {
    std::thread::available_parallelism()
        .map(|x| x.get())
        .unwrap_or(4)
        .min(16)
}

/// Run `f(shard, nshards)` on `n` threads and collect the results
pub fn parallel<T: Send + 'static>(
    n: usize,
    f: impl Fn(usize, usize) -> T + Send + Sync + 'static,
) -> Vec<T> {
    let f = std::sync::Arc::new(f);
    let hs: Vec<_> = (0..n)
        .map(|i| {
            let f = f.clone();
            std::thread::Builder::new()
                .stack_size(16 << 20)
                .spawn(move || f(i, n))
                .unwrap()
        })
        .collect();
    hs.into_iter().map(|h| h.join().expect("worker panicked")).collect()
}

/// Run a closure catching panics; returns the panic message and location on panic.
pub fn catch<T>(f: impl FnOnce() -> T) -> Result<T, String> {
    match std::panic::catch_unwind(std::panic::AssertUnwindSafe(f)) {
        Ok(x) => Ok(x),
        Err(e) => {
            let msg = if let Some(s) = e.downcast_ref::<&str>() {
                s.to_string()
            } else if let Some(s) = e.downcast_ref::<String>() {
                s.clone()
            } else {
                "<non-string panic>".to_string()
            };
            let loc = LAST_PANIC_LOCATION.with(|l| l.borrow_mut().take());
            Err(match loc {
                Some(l) => format!("{} @ {}", msg, l),
                None => msg,
            })
        }
    }
}

/// Every panic of the process (any thread), in order: (location, message). Read by the
/// top-level guard in main when a panic escapes a check.
pub static PANIC_LOG: std::sync::Mutex<Vec<(String, String)>> = std::sync::Mutex::new(Vec::new());

thread_local! {
    pub static LAST_PANIC_LOCATION: std::cell::RefCell<Option<String>> = const { std::cell::RefCell::new(None) };
}

/// Install a panic hook that records the location (file:line) per thread and stays quiet.
pub fn install_quiet_panic_hook() {
    std::panic::set_hook(Box::new(|info| {
        let loc = info
            .location()
            .map(|l| format!("{}:{}", l.file(), l.line()));
        if std::env::var("VERIF_DEBUG_PANIC").is_ok() {
            eprintln!("panic: {}", info);
        }
        if let Ok(mut log) = PANIC_LOG.lock() {
            if log.len() < 64 {
                log.push((loc.clone().unwrap_or_default(), info.to_string()));
            }
        }
        LAST_PANIC_LOCATION.with(|l| *l.borrow_mut() = loc);
    }));
}

/// Panic location with line numbers stripped to the file (stable signature)
pub fn panic_file(msg: &str) -> String {
    match msg.rsplit_once(" @ ") {
        Some((_, loc)) => loc.rsplit_once(':').map(|x| x.0).unwrap_or(loc).to_string(),
        None => "unknown".to_string(),
    }
}
