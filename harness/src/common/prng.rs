/// xoshiro256** seeded through splitmix64; deterministic and dependency-free.
#[derive(Clone, Debug)]
pub struct Rng {
    s: [u64; 4],
}

fn splitmix(x: &mut u64) -> u64 {
    *x = x.wrapping_add(0x9e3779b97f4a7c15);
    let mut z = *x;
    z = (z ^ (z >> 30)).wrapping_mul(0xbf58476d1ce4e5b9);
    z = (z ^ (z >> 27)).wrapping_mul(0x94d049bb133111eb);
    z ^ (z >> 31)
}

impl Rng {
    pub fn new(seed: u64) -> Self {
        let mut x = seed;
        Self {
            s: [
                splitmix(&mut x),
                splitmix(&mut x),
                splitmix(&mut x),
                splitmix(&mut x),
            ],
        }
    }

    /// Independent stream for (seed, a, b)
    pub fn derive(seed: u64, a: u64, b: u64) -> Self {
        Self::new(
            seed ^ a.wrapping_mul(0x9e3779b97f4a7c15) ^ b.wrapping_mul(0xc2b2ae3d27d4eb4f).rotate_left(17),
        )
    }

    pub fn next(&mut self) -> u64 {
        let r = self.s[1].wrapping_mul(5).rotate_left(7).wrapping_mul(9);
        let t = self.s[1] << 17;
        self.s[2] ^= self.s[0];
        self.s[3] ^= self.s[1];
        self.s[1] ^= self.s[2];
        self.s[0] ^= self.s[3];
        self.s[2] ^= t;
        self.s[3] = self.s[3].rotate_left(45);
        r
    }

    /// Uniform in 0..n (n > 0)
    pub fn below(&mut self, n: u64) -> u64 {
        self.next() % n.max(1)
    }

    pub fn range(&mut self, lo: u64, hi_incl: u64) -> u64 {
        lo + self.below(hi_incl - lo + 1)
    }

    pub fn chance(&mut self, num: u64, den: u64) -> bool {
        self.below(den) < num
    }

    pub fn pick<'a, T>(&mut self, xs: &'a [T]) -> &'a T {
        &xs[self.below(xs.len() as u64) as usize]
    }

    pub fn bytes(&mut self, n: usize) -> Vec<u8> {
        let mut v = Vec::with_capacity(n);
        while v.len() < n {
            let x = self.next().to_le_bytes();
            let k = (n - v.len()).min(8);
            v.extend_from_slice(&x[..k]);
        }
        v
    }

    pub fn state(&self) -> [u64; 4] {
        self.s
    }
}

/// Position-coded byte: byte `i` of stream `d` under `key`
#[inline]
pub fn coded_byte(key: u64, d: u64, i: u64) -> u8 {
    let mut x = key ^ d.wrapping_mul(0x9e3779b97f4a7c15) ^ i.wrapping_mul(0xd6e8feb86659fd93);
    x ^= x >> 32;
    x = x.wrapping_mul(0xd6e8feb86659fd93);
    x ^= x >> 32;
    x as u8
}

pub fn coded_stream(key: u64, d: u64, from: u64, len: usize) -> Vec<u8> {
    (0..len as u64).map(|i| coded_byte(key, d, from + i)).collect()
}
