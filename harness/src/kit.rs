//! Tunnel kit: in-memory sessions against the real Tunnel/HttpDownstream/codecs, a recording
//! scripted forwarder, raw HTTP/1.1 and h2 clients.

use async_trait::async_trait;
use bytes::Bytes;
use std::io;
use std::net::{IpAddr, SocketAddr};
use std::pin::Pin;
use std::sync::atomic::{AtomicU64, Ordering};
use std::sync::{Arc, Mutex};
use std::task::{Context, Poll};
use std::time::Duration;
use tokio::io::{AsyncRead, AsyncReadExt, AsyncWrite, AsyncWriteExt, DuplexStream, ReadBuf};
use trusttunnel::verif::ctx::{ConnErr, Ctx};
use trusttunnel::verif::pipes::{VSink, VSource};
use trusttunnel::verif::spin;
use trusttunnel::verif::tunnel::{
    make_codec, run_tunnel, run_tunnel_request, AuthView, ConnMeta, Fwd, MuxChoice, Policy, Proto,
    VForwarder,
};

/// Server-side transport wrapper: marks I/O progress for the spin detector and counts bytes
pub struct Probe<T> {
    inner: T,
    pub pulled: Arc<AtomicU64>,
    pub pushed: Arc<AtomicU64>,
}

impl<T> Probe<T> {
    pub fn new(inner: T) -> Self {
        Self {
            inner,
            pulled: Default::default(),
            pushed: Default::default(),
        }
    }
}

impl<T: AsyncRead + Unpin> AsyncRead for Probe<T> {
    fn poll_read(mut self: Pin<&mut Self>, cx: &mut Context<'_>, buf: &mut ReadBuf<'_>) -> Poll<io::Result<()>> {
        let before = buf.filled().len();
        let r = Pin::new(&mut self.inner).poll_read(cx, buf);
        let n = buf.filled().len() - before;
        // a read that returns bytes, waits or fails is progress; one that reports end-of-stream again and again is not
        // (a loop re-reading an ended transport must trip the spin bound - seeded change C08e)
        if n > 0 || !matches!(r, Poll::Ready(Ok(()))) { spin::progress(); }
        self.pulled.fetch_add(n as u64, Ordering::Relaxed);
        r
    }
}

impl<T: AsyncWrite + Unpin> AsyncWrite for Probe<T> {
    fn poll_write(mut self: Pin<&mut Self>, cx: &mut Context<'_>, data: &[u8]) -> Poll<io::Result<usize>> {
        spin::progress();
        let r = Pin::new(&mut self.inner).poll_write(cx, data);
        if let Poll::Ready(Ok(n)) = &r {
            self.pushed.fetch_add(*n as u64, Ordering::Relaxed);
        }
        r
    }
    fn poll_flush(mut self: Pin<&mut Self>, cx: &mut Context<'_>) -> Poll<io::Result<()>> {
        spin::progress();
        Pin::new(&mut self.inner).poll_flush(cx)
    }
    fn poll_shutdown(mut self: Pin<&mut Self>, cx: &mut Context<'_>) -> Poll<io::Result<()>> {
        spin::progress();
        Pin::new(&mut self.inner).poll_shutdown(cx)
    }
}

// ---------------------------------------------------------------------------------------
// Recording forwarder
// ---------------------------------------------------------------------------------------

#[derive(Clone, Debug)]
pub enum Outcome {
    /// connected; whatever the tunnel writes is echoed back
    Echo,
    /// connected; sends these bytes then EOF; discards what it receives
    Canned(Vec<u8>),
    /// connected; silent, never ends
    Silent,
    Fail(ConnErr),
    /// never completes
    Never,
    /// completes with the inner outcome after this many (virtual or real) milliseconds
    Delayed(u64, Box<Outcome>),
}

#[derive(Clone, Debug)]
pub enum FwdEvent {
    Connect(ConnMeta),
    CheckAuth(AuthView),
    UdpMux(Option<AuthView>),
    IcmpMux,
}

pub struct RecFwd {
    pub log: Mutex<Vec<FwdEvent>>,
    pub decide: Box<dyn Fn(&ConnMeta) -> Outcome + Send + Sync>,
    pub udp: MuxChoice,
    pub icmp: MuxChoice,
    pub check_auth_err: Option<ConnErr>,
    /// bytes received by connected peers, per connect (in order of connects)
    pub received: Mutex<Vec<Arc<Mutex<Vec<u8>>>>>,
    /// connect futures that were dropped before completing (abandoned attempts)
    pub abandoned: Arc<AtomicU64>,
}

impl RecFwd {
    pub fn new(decide: impl Fn(&ConnMeta) -> Outcome + Send + Sync + 'static) -> Arc<Self> {
        Arc::new(Self {
            log: Default::default(),
            decide: Box::new(decide),
            udp: MuxChoice::Real,
            icmp: MuxChoice::NotConfigured,
            check_auth_err: None,
            received: Default::default(),
            abandoned: Default::default(),
        })
    }

    pub fn events(&self) -> Vec<FwdEvent> {
        self.log.lock().unwrap().clone()
    }

    pub fn connects(&self) -> Vec<ConnMeta> {
        self.events()
            .into_iter()
            .filter_map(|e| if let FwdEvent::Connect(m) = e { Some(m) } else { None })
            .collect()
    }

    pub fn egress_count(&self) -> usize {
        self.events().len()
    }
}

struct ChanSource {
    rx: tokio::sync::mpsc::UnboundedReceiver<Option<Bytes>>,
    done: bool,
}
struct ChanSink {
    tx: Option<tokio::sync::mpsc::UnboundedSender<Option<Bytes>>>,
    seen: Arc<Mutex<Vec<u8>>>,
}

#[async_trait]
impl VSource for ChanSource {
    async fn read(&mut self) -> io::Result<Option<Bytes>> {
        if self.done {
            return Ok(None);
        }
        match self.rx.recv().await {
            Some(Some(b)) => Ok(Some(b)),
            Some(None) | None => {
                self.done = true;
                Ok(None)
            }
        }
    }
    fn consume(&mut self, _n: usize) -> io::Result<()> {
        Ok(())
    }
}

#[async_trait]
impl VSink for ChanSink {
    fn write(&mut self, data: Bytes) -> io::Result<Bytes> {
        self.seen.lock().unwrap().extend_from_slice(&data);
        if let Some(tx) = &self.tx {
            let _ = tx.send(Some(data));
        }
        Ok(Bytes::new())
    }
    fn eof(&mut self) -> io::Result<()> {
        if let Some(tx) = self.tx.take() {
            let _ = tx.send(None);
        }
        Ok(())
    }
    async fn wait_writable(&mut self) -> io::Result<()> {
        Ok(())
    }
    async fn flush(&mut self) -> io::Result<()> {
        Ok(())
    }
}

struct SilentSource;
#[async_trait]
impl VSource for SilentSource {
    async fn read(&mut self) -> io::Result<Option<Bytes>> {
        futures::future::pending().await
    }
    fn consume(&mut self, _n: usize) -> io::Result<()> {
        Ok(())
    }
}

struct CannedSource(Option<Bytes>);
#[async_trait]
impl VSource for CannedSource {
    async fn read(&mut self) -> io::Result<Option<Bytes>> {
        Ok(self.0.take().filter(|b| !b.is_empty()))
    }
    fn consume(&mut self, _n: usize) -> io::Result<()> {
        Ok(())
    }
}

#[async_trait]
impl VForwarder for RecFwd {
    async fn connect(&self, meta: ConnMeta) -> Result<(Box<dyn VSource>, Box<dyn VSink>), ConnErr> {
        self.log.lock().unwrap().push(FwdEvent::Connect(meta.clone()));
        let seen: Arc<Mutex<Vec<u8>>> = Default::default();
        struct Abandon(Arc<AtomicU64>, bool);
        impl Drop for Abandon { fn drop(&mut self) { if !self.1 { self.0.fetch_add(1, Ordering::SeqCst); } } }
        let mut guard = Abandon(self.abandoned.clone(), false);
        let mut outcome = (self.decide)(&meta);
        while let Outcome::Delayed(ms, inner) = outcome {
            tokio::time::sleep(Duration::from_millis(ms)).await;
            outcome = *inner;
        }
        if !matches!(outcome, Outcome::Never) { guard.1 = true; }
        match outcome {
            Outcome::Echo => {
                let (tx, rx) = tokio::sync::mpsc::unbounded_channel();
                self.received.lock().unwrap().push(seen.clone());
                Ok((Box::new(ChanSource { rx, done: false }), Box::new(ChanSink { tx: Some(tx), seen })))
            }
            Outcome::Canned(b) => {
                self.received.lock().unwrap().push(seen.clone());
                Ok((Box::new(CannedSource(Some(Bytes::from(b)))), Box::new(ChanSink { tx: None, seen })))
            }
            Outcome::Silent => {
                self.received.lock().unwrap().push(seen.clone());
                Ok((Box::new(SilentSource), Box::new(ChanSink { tx: None, seen })))
            }
            Outcome::Fail(e) => Err(e),
            Outcome::Never => { let _g = guard; futures::future::pending().await }
            Outcome::Delayed(..) => unreachable!(),
        }
    }

    async fn check_auth(&self, _c: IpAddr, _d: String, auth: AuthView, _ua: Option<String>) -> Result<(), ConnErr> {
        self.log.lock().unwrap().push(FwdEvent::CheckAuth(auth));
        match &self.check_auth_err {
            Some(e) => Err(e.clone()),
            None => Ok(()),
        }
    }

    fn udp_mux(&self, _c: IpAddr, auth: Option<AuthView>) -> MuxChoice {
        self.log.lock().unwrap().push(FwdEvent::UdpMux(auth));
        self.udp
    }

    fn icmp_mux(&self) -> MuxChoice {
        self.log.lock().unwrap().push(FwdEvent::IcmpMux);
        self.icmp
    }
}

// ---------------------------------------------------------------------------------------
// Sessions
// ---------------------------------------------------------------------------------------

pub const CLIENT_PEER: &str = "198.51.100.7:40000";

pub struct Session {
    pub client: DuplexStream,
    pub server: tokio::task::JoinHandle<io::Result<()>>,
    pub pulled: Arc<AtomicU64>,
}

pub enum How {
    /// `Tunnel::listen` with the given forwarder and policy
    Tunnel(Fwd, Policy),
    /// the real `Core::on_tunnel_request` (SNI authentication + real forwarder)
    TunnelRequest(Option<String>),
}

/// Open an in-memory session: the server side runs the real codec + downstream + tunnel.
pub fn open_session(ctx: &Arc<Ctx>, proto: Proto, how: How, sni: &str, arm_spin: bool, id: u64) -> Session {
    let (client, server_io) = tokio::io::duplex(256 * 1024);
    let probe = Probe::new(server_io);
    let pulled = probe.pulled.clone();
    let ctx = ctx.clone();
    let sni = sni.to_string();
    let peer: SocketAddr = CLIENT_PEER.parse().unwrap();
    let server = tokio::spawn(async move {
        if arm_spin {
            spin::arm(true);
        }
        let codec = make_codec(&ctx, proto, probe, peer, id)?;
        match how {
            How::Tunnel(fwd, policy) => run_tunnel(&ctx, codec, &sni, fwd, policy, id).await,
            How::TunnelRequest(creds) => {
                run_tunnel_request(&ctx, codec, &sni, creds, id).await;
                Ok(())
            }
        }
    });
    Session { client, server, pulled }
}

// ---------------------------------------------------------------------------------------
// HTTP/1.1 raw client helpers
// ---------------------------------------------------------------------------------------

#[derive(Debug, Clone, PartialEq, Eq)]
pub struct H1Head {
    pub status: u16,
    pub version: u8,
    pub headers: Vec<(String, String)>,
    pub head_len: usize,
}

impl H1Head {
    pub fn header(&self, name: &str) -> Option<&str> {
        self.headers
            .iter()
            .find(|(n, _)| n.eq_ignore_ascii_case(name))
            .map(|(_, v)| v.as_str())
    }
}

/// Parse one response head at the start of `buf`. Err = malformed.
pub fn parse_h1_head(buf: &[u8]) -> Result<Option<H1Head>, String> {
    let mut headers = [httparse::EMPTY_HEADER; 64];
    let mut r = httparse::Response::new(&mut headers);
    match r.parse(buf) {
        Ok(httparse::Status::Complete(n)) => Ok(Some(H1Head {
            status: r.code.unwrap_or(0),
            version: r.version.unwrap_or(9),
            headers: r
                .headers
                .iter()
                .map(|h| (h.name.to_string(), String::from_utf8_lossy(h.value).to_string()))
                .collect(),
            head_len: n,
        })),
        Ok(httparse::Status::Partial) => Ok(None),
        Err(e) => Err(e.to_string()),
    }
}

/// Read until the peer closes or `idle` of (virtual or real) time passes without data.
pub async fn read_until_quiet(io: &mut (impl AsyncRead + Unpin), idle: Duration, max: usize) -> (Vec<u8>, bool) {
    let mut out = vec![];
    let mut buf = vec![0u8; 65536];
    loop {
        match tokio::time::timeout(idle, io.read(&mut buf)).await {
            Ok(Ok(0)) => return (out, true),
            Ok(Ok(n)) => {
                out.extend_from_slice(&buf[..n]);
                if out.len() >= max {
                    return (out, false);
                }
            }
            Ok(Err(_)) => return (out, true),
            Err(_) => return (out, false),
        }
    }
}

/// Write `data` in the given segments with `gap` between them
pub async fn write_segments(io: &mut (impl AsyncWrite + Unpin), data: &[u8], cuts: &[usize], gap: Duration) -> io::Result<()> {
    let mut prev = 0;
    for c in cuts.iter().chain(std::iter::once(&data.len())) {
        if *c > prev {
            io.write_all(&data[prev..*c]).await?;
            io.flush().await?;
            if !gap.is_zero() {
                tokio::time::sleep(gap).await;
            } else {
                tokio::task::yield_now().await;
            }
        }
        prev = *c;
    }
    Ok(())
}

pub fn basic(user: &str, pass: &str) -> String {
    use base64::Engine;
    base64::engine::general_purpose::STANDARD.encode(format!("{}:{}", user, pass))
}

// ---------------------------------------------------------------------------------------
// h2 client
// ---------------------------------------------------------------------------------------

pub async fn h2_client(
    io: DuplexStream,
) -> Result<(h2::client::SendRequest<Bytes>, tokio::task::JoinHandle<()>), String> {
    let (send, conn) = h2::client::handshake(io).await.map_err(|e| e.to_string())?;
    let j = tokio::spawn(async move {
        let _ = conn.await;
    });
    Ok((send, j))
}
