//! A small, conforming SOCKS5 proxy (RFC 1928/1929) on loopback for the scenarios that drive the endpoint's
//! real `Socks5Forwarder`: CONNECT really connects and relays (half-close and resets passed on), UDP ASSOCIATE
//! really relays datagrams through one outbound socket per association. Everything it sees is recorded, and
//! its behaviour can be bent per scenario (credentials rejected, reply codes, the first bytes of the
//! destination coalesced with the CONNECT reply into one write).

use std::collections::HashMap;
use std::net::{IpAddr, Ipv4Addr, Ipv6Addr, SocketAddr};
use std::sync::atomic::{AtomicI64, AtomicU64, Ordering};
use std::sync::{Arc, Mutex};
use std::time::Duration;
use tokio::io::{AsyncReadExt, AsyncWriteExt};
use tokio::net::{TcpListener, TcpStream, UdpSocket};

#[derive(Clone, Debug, PartialEq, Eq)]
pub enum S5AuthMode {
    /// "no authentication required" when offered; an authenticating method is accepted with any credentials
    Open,
    /// insists on an authenticating method and rejects whatever is presented (RFC 1929 status 1)
    RejectCredentials,
    /// answers the method negotiation with 0xFF
    NoAcceptableMethod,
}

#[derive(Clone, Debug)]
pub struct S5Opts {
    pub auth: S5AuthMode,
    /// reply code for CONNECT: 0 = really connect
    pub connect_code: u8,
    /// wait up to 150 ms for the destination's first bytes and send them in the same write as the reply
    pub coalesce_first_bytes: bool,
    /// host names the proxy "resolves"
    pub names: HashMap<String, SocketAddr>,
}

impl Default for S5Opts {
    fn default() -> Self { S5Opts { auth: S5AuthMode::Open, connect_code: 0, coalesce_first_bytes: false, names: HashMap::new() } }
}

#[derive(Clone, Debug)]
pub enum S5Event {
    Credentials { method: u8, user: Vec<u8>, pass: Vec<u8> },
    Connect { dest: String },
    Associate { assoc: u64 },
    /// endpoint -> destination through the relay
    UdpOut { assoc: u64, dest: SocketAddr, payload: Vec<u8> },
    /// destination -> endpoint through the relay
    UdpBack { assoc: u64, from: SocketAddr, payload: Vec<u8> },
    /// a datagram on the relay socket that is not a well-formed RFC 1928 section 7 datagram
    UdpMalformed { assoc: u64, bytes: Vec<u8> },
    AssocClosed { assoc: u64 },
}

pub struct S5Server {
    pub addr: SocketAddr,
    pub opts: Arc<Mutex<S5Opts>>,
    pub log: Arc<Mutex<Vec<S5Event>>>,
    /// UDP associations whose control connection is open
    pub live_assocs: Arc<AtomicI64>,
    /// CONNECT relays in progress
    pub live_relays: Arc<AtomicI64>,
    pub control_connections: Arc<AtomicU64>,
    /// associations whose relay is to die (its UDP sockets are closed; the control connection stays open)
    pub kill_relays: Arc<Mutex<std::collections::HashSet<u64>>>,
    task: tokio::task::JoinHandle<()>,
}

impl Drop for S5Server {
    fn drop(&mut self) { self.task.abort(); }
}

fn wrap(from: SocketAddr, payload: &[u8]) -> Vec<u8> {
    let mut v = vec![0u8, 0, 0];
    match from.ip() {
        IpAddr::V4(a) => { v.push(1); v.extend_from_slice(&a.octets()); }
        IpAddr::V6(a) => { v.push(4); v.extend_from_slice(&a.octets()); }
    }
    v.extend_from_slice(&from.port().to_be_bytes());
    v.extend_from_slice(payload);
    v
}

/// (destination, offset of the payload) of a relay datagram; None if malformed / fragmented / a domain we do not know
fn unwrap(d: &[u8], names: &HashMap<String, SocketAddr>) -> Option<(SocketAddr, usize)> {
    if d.len() < 4 || d[0] != 0 || d[1] != 0 || d[2] != 0 { return None; }
    match d[3] {
        1 if d.len() >= 10 => Some((SocketAddr::new(IpAddr::V4(Ipv4Addr::new(d[4], d[5], d[6], d[7])), u16::from_be_bytes([d[8], d[9]])), 10)),
        4 if d.len() >= 22 => { let mut a = [0u8; 16]; a.copy_from_slice(&d[4..20]); Some((SocketAddr::new(IpAddr::V6(Ipv6Addr::from(a)), u16::from_be_bytes([d[20], d[21]])), 22)) }
        3 if d.len() >= 5 && d.len() >= 5 + d[4] as usize + 2 => {
            let n = d[4] as usize;
            let name = String::from_utf8_lossy(&d[5..5 + n]).to_string();
            let port = u16::from_be_bytes([d[5 + n], d[6 + n]]);
            names.get(&name).map(|a| (SocketAddr::new(a.ip(), port), 7 + n))
        }
        _ => None,
    }
}

async fn read_addr(s: &mut TcpStream, atyp: u8) -> Option<(String, Option<IpAddr>, u16)> {
    match atyp {
        1 => { let mut a = [0u8; 6]; s.read_exact(&mut a).await.ok()?; let ip = IpAddr::V4(Ipv4Addr::new(a[0], a[1], a[2], a[3])); Some((ip.to_string(), Some(ip), u16::from_be_bytes([a[4], a[5]]))) }
        4 => { let mut a = [0u8; 18]; s.read_exact(&mut a).await.ok()?; let mut o = [0u8; 16]; o.copy_from_slice(&a[..16]); let ip = IpAddr::V6(Ipv6Addr::from(o)); Some((ip.to_string(), Some(ip), u16::from_be_bytes([a[16], a[17]]))) }
        3 => { let mut l = [0u8; 1]; s.read_exact(&mut l).await.ok()?; let mut n = vec![0u8; l[0] as usize + 2]; s.read_exact(&mut n).await.ok()?; let k = l[0] as usize; Some((String::from_utf8_lossy(&n[..k]).to_string(), None, u16::from_be_bytes([n[k], n[k + 1]]))) }
        _ => None,
    }
}

fn reset(s: TcpStream) { let _ = s.set_linger(Some(Duration::ZERO)); drop(s); }

/// relay until both directions have ended; a reset on one side is passed on as a reset
async fn relay(client: TcpStream, dest: TcpStream) {
    let (mut cr, mut cw) = client.into_split();
    let (mut dr, mut dw) = dest.into_split();
    let failed = {
        let up = async {
            let mut b = vec![0u8; 64 * 1024];
            loop {
                match cr.read(&mut b).await {
                    Ok(0) => { let _ = dw.shutdown().await; return Ok::<(), ()>(()); }
                    Ok(n) => { if dw.write_all(&b[..n]).await.is_err() { return Err(()); } }
                    Err(_) => return Err(()),
                }
            }
        };
        let down = async {
            let mut b = vec![0u8; 64 * 1024];
            loop {
                match dr.read(&mut b).await {
                    Ok(0) => { let _ = cw.shutdown().await; return Ok::<(), ()>(()); }
                    Ok(n) => { if cw.write_all(&b[..n]).await.is_err() { return Err(()); } }
                    Err(_) => return Err(()),
                }
            }
        };
        tokio::pin!(up);
        tokio::pin!(down);
        let (mut up_done, mut down_done, mut failed) = (false, false, false);
        while !failed && !(up_done && down_done) {
            tokio::select! {
                r = &mut up, if !up_done => { up_done = true; failed |= r.is_err(); }
                r = &mut down, if !down_done => { down_done = true; failed |= r.is_err(); }
            }
        }
        failed
    };
    // a failure on one side ends the other at once, as a reset
    if failed {
        if let (Ok(c), Ok(d)) = (cr.reunite(cw), dr.reunite(dw)) { reset(c); reset(d); }
    }
}

impl S5Server {
    pub async fn start(opts: S5Opts) -> S5Server {
        let listener = TcpListener::bind("127.0.0.1:0").await.expect("bind");
        let addr = listener.local_addr().unwrap();
        let opts = Arc::new(Mutex::new(opts));
        let log: Arc<Mutex<Vec<S5Event>>> = Default::default();
        let live_assocs = Arc::new(AtomicI64::new(0));
        let live_relays = Arc::new(AtomicI64::new(0));
        let control_connections = Arc::new(AtomicU64::new(0));
        let next_assoc = Arc::new(AtomicU64::new(0));
        let kill_relays: Arc<Mutex<std::collections::HashSet<u64>>> = Default::default();
        let task = {
            let (opts, log, live_assocs, live_relays, control_connections, kill_relays) = (opts.clone(), log.clone(), live_assocs.clone(), live_relays.clone(), control_connections.clone(), kill_relays.clone());
            tokio::spawn(async move {
                loop {
                    let Ok((s, _)) = listener.accept().await else { continue };
                    let _ = s.set_nodelay(true);
                    control_connections.fetch_add(1, Ordering::SeqCst);
                    let (opts, log, live_assocs, live_relays, next_assoc, kill_relays) = (opts.clone(), log.clone(), live_assocs.clone(), live_relays.clone(), next_assoc.clone(), kill_relays.clone());
                    tokio::spawn(async move { Self::serve(s, opts, log, live_assocs, live_relays, next_assoc, kill_relays).await; });
                }
            })
        };
        S5Server { addr, opts, log, live_assocs, live_relays, control_connections, kill_relays, task }
    }

    pub fn events(&self) -> Vec<S5Event> { self.log.lock().unwrap().clone() }

    #[allow(clippy::too_many_arguments)]
    async fn serve(mut s: TcpStream, opts: Arc<Mutex<S5Opts>>, log: Arc<Mutex<Vec<S5Event>>>, live_assocs: Arc<AtomicI64>, live_relays: Arc<AtomicI64>, next_assoc: Arc<AtomicU64>, kill_relays: Arc<Mutex<std::collections::HashSet<u64>>>) {
        let o = opts.lock().unwrap().clone();
        let mut b = [0u8; 2];
        if s.read_exact(&mut b).await.is_err() || b[0] != 5 { return; }
        let mut methods = vec![0u8; b[1] as usize];
        if s.read_exact(&mut methods).await.is_err() { return; }
        let authenticating = if methods.contains(&2) { Some(2u8) } else if methods.contains(&0x80) { Some(0x80) } else { None };
        let method = match (&o.auth, authenticating) {
            (S5AuthMode::NoAcceptableMethod, _) => 0xff,
            (S5AuthMode::RejectCredentials, Some(m)) => m,
            (S5AuthMode::RejectCredentials, None) => 0xff,
            (S5AuthMode::Open, Some(m)) => m,
            (S5AuthMode::Open, None) => if methods.contains(&0) { 0 } else { 0xff },
        };
        if s.write_all(&[5, method]).await.is_err() || method == 0xff { return; }
        if method == 2 {
            let mut h = [0u8; 2];
            if s.read_exact(&mut h).await.is_err() { return; }
            let mut user = vec![0u8; h[1] as usize];
            if s.read_exact(&mut user).await.is_err() { return; }
            let mut l = [0u8; 1];
            if s.read_exact(&mut l).await.is_err() { return; }
            let mut pass = vec![0u8; l[0] as usize];
            if s.read_exact(&mut pass).await.is_err() { return; }
            log.lock().unwrap().push(S5Event::Credentials { method, user, pass });
            let status = if o.auth == S5AuthMode::RejectCredentials { 1 } else { 0 };
            if s.write_all(&[1, status]).await.is_err() || status != 0 { return; }
        } else if method == 0x80 {
            // extended authentication: a sequence of (type, length, value) terminated by type 0 - read what arrives within a moment
            let mut junk = vec![0u8; 4096];
            let n = tokio::time::timeout(Duration::from_millis(150), s.read(&mut junk)).await.ok().and_then(|r| r.ok()).unwrap_or(0);
            log.lock().unwrap().push(S5Event::Credentials { method, user: junk[..n].to_vec(), pass: vec![] });
            let status = if o.auth == S5AuthMode::RejectCredentials { 1 } else { 0 };
            if s.write_all(&[1, status]).await.is_err() || status != 0 { return; }
        }
        let mut h = [0u8; 4];
        if s.read_exact(&mut h).await.is_err() || h[0] != 5 { return; }
        let Some((host, ip, port)) = read_addr(&mut s, h[3]).await else { let _ = s.write_all(&[5, 8, 0, 1, 0, 0, 0, 0, 0, 0]).await; return; };
        match h[1] {
            1 => {
                log.lock().unwrap().push(S5Event::Connect { dest: format!("{}:{}", host, port) });
                if o.connect_code != 0 { let _ = s.write_all(&[5, o.connect_code, 0, 1, 0, 0, 0, 0, 0, 0]).await; return; }
                let target = match ip { Some(ip) => Some(SocketAddr::new(ip, port)), None => o.names.get(&host).map(|a| SocketAddr::new(a.ip(), port)) };
                let Some(target) = target else { let _ = s.write_all(&[5, 4, 0, 1, 0, 0, 0, 0, 0, 0]).await; return; };
                let mut dest = match tokio::time::timeout(Duration::from_secs(5), TcpStream::connect(target)).await {
                    Ok(Ok(d)) => d,
                    Ok(Err(e)) => { let code = if e.kind() == std::io::ErrorKind::ConnectionRefused { 5 } else { 4 }; let _ = s.write_all(&[5, code, 0, 1, 0, 0, 0, 0, 0, 0]).await; return; }
                    Err(_) => { let _ = s.write_all(&[5, 6, 0, 1, 0, 0, 0, 0, 0, 0]).await; return; }
                };
                let _ = dest.set_nodelay(true);
                let mut reply = vec![5u8, 0, 0, 1, 127, 0, 0, 1];
                reply.extend_from_slice(&dest.local_addr().map(|a| a.port()).unwrap_or(0).to_be_bytes());
                if o.coalesce_first_bytes {
                    let mut first = vec![0u8; 16 * 1024];
                    if let Ok(Ok(n)) = tokio::time::timeout(Duration::from_millis(150), dest.read(&mut first)).await { reply.extend_from_slice(&first[..n]); }
                }
                if s.write_all(&reply).await.is_err() { return; }
                live_relays.fetch_add(1, Ordering::SeqCst);
                relay(s, dest).await;
                live_relays.fetch_sub(1, Ordering::SeqCst);
            }
            3 => {
                let assoc = next_assoc.fetch_add(1, Ordering::SeqCst);
                let Ok(relay_sock) = UdpSocket::bind("127.0.0.1:0").await else { return };
                let Ok(out) = UdpSocket::bind("127.0.0.1:0").await else { return };
                let rp = relay_sock.local_addr().unwrap().port();
                log.lock().unwrap().push(S5Event::Associate { assoc });
                if s.write_all(&[5, 0, 0, 1, 127, 0, 0, 1, (rp >> 8) as u8, rp as u8]).await.is_err() { return; }
                live_assocs.fetch_add(1, Ordering::SeqCst);
                let mut client: Option<SocketAddr> = None;
                let mut b1 = vec![0u8; 65536];
                let mut b2 = vec![0u8; 65536];
                let mut ctl = [0u8; 64];
                loop {
                    tokio::select! {
                        r = relay_sock.recv_from(&mut b1) => {
                            let Ok((n, from)) = r else { continue };
                            client = Some(from);
                            match unwrap(&b1[..n], &o.names) {
                                Some((dest, off)) => { log.lock().unwrap().push(S5Event::UdpOut { assoc, dest, payload: b1[off..n].to_vec() }); let _ = out.send_to(&b1[off..n], dest).await; }
                                None => log.lock().unwrap().push(S5Event::UdpMalformed { assoc, bytes: b1[..n].to_vec() }),
                            }
                        }
                        r = out.recv_from(&mut b2) => {
                            let Ok((n, from)) = r else { continue };
                            log.lock().unwrap().push(S5Event::UdpBack { assoc, from, payload: b2[..n].to_vec() });
                            if let Some(c) = client { let _ = relay_sock.send_to(&wrap(from, &b2[..n]), c).await; }
                        }
                        r = s.read(&mut ctl) => match r { Ok(n) if n > 0 => {}, _ => break },
                        _ = tokio::time::sleep(Duration::from_millis(5)) => { if kill_relays.lock().unwrap().contains(&assoc) { break; } }
                    }
                }
                if kill_relays.lock().unwrap().contains(&assoc) {
                    // the relay dies (datagrams to it now bounce as port unreachable) while the control connection stays open
                    drop(relay_sock);
                    drop(out);
                    loop { match s.read(&mut ctl).await { Ok(n) if n > 0 => {}, _ => break } }
                }
                live_assocs.fetch_sub(1, Ordering::SeqCst);
                log.lock().unwrap().push(S5Event::AssocClosed { assoc });
            }
            _ => { let _ = s.write_all(&[5, 7, 0, 1, 0, 0, 0, 0, 0, 0]).await; }
        }
    }
}
