//! Request drivers over in-memory sessions (raw HTTP/1.1 and h2 clients) shared by C01/C10/C20/...

use crate::kit::*;
use bytes::Bytes;
use std::sync::Arc;
use std::time::Duration;
use tokio::io::AsyncWriteExt;
use trusttunnel::verif::ctx::Ctx;
use trusttunnel::verif::tunnel::Proto;

#[derive(Clone, Debug)]
pub struct Req {
    pub method: String,
    /// authority (CONNECT) or absolute URI
    pub target: String,
    pub headers: Vec<(String, Vec<u8>)>,
    pub body: Vec<u8>,
    /// keep the stream open after the request (tunnel payload may follow)
    pub end_stream: bool,
}

impl Req {
    pub fn connect(target: &str) -> Req {
        Req { method: "CONNECT".into(), target: target.into(), headers: vec![], body: vec![], end_stream: false }
    }
    pub fn new(method: &str, target: &str) -> Req {
        Req { method: method.into(), target: target.into(), headers: vec![], body: vec![], end_stream: true }
    }
    pub fn header(mut self, n: &str, v: &[u8]) -> Req {
        self.headers.push((n.to_string(), v.to_vec()));
        self
    }
    pub fn describe(&self) -> String {
        format!("{} {}", self.method, self.target)
    }
}

#[derive(Clone, Debug, Default)]
pub struct Resp {
    pub status: Option<u16>,
    pub headers: Vec<(String, String)>,
    /// number of response heads seen on the stream (HTTP/1.1: status lines parsed back to back)
    pub heads: usize,
    /// interim (1xx) heads seen before the final one
    pub interim: usize,
    pub body: Vec<u8>,
    pub error: Option<String>,
    pub closed: bool,
}

impl Resp {
    pub fn header(&self, n: &str) -> Option<&str> {
        self.headers.iter().find(|(k, _)| k.eq_ignore_ascii_case(n)).map(|(_, v)| v.as_str())
    }
    pub fn summary(&self) -> String {
        format!("status={:?} heads={} x-warning={:?} proxy-authenticate={:?} err={:?}", self.status, self.heads, self.header("x-warning"), self.header("proxy-authenticate"), self.error)
    }
}

pub fn h1_encode(req: &Req) -> Vec<u8> {
    let mut v = format!("{} {} HTTP/1.1\r\n", req.method, req.target).into_bytes();
    let host = if req.method == "CONNECT" {
        req.target.clone()
    } else {
        req.target.split("://").nth(1).and_then(|x| x.split('/').next()).unwrap_or("").to_string()
    };
    v.extend_from_slice(format!("Host: {}\r\n", host).as_bytes());
    let extra = crate::secrets::extra_headers();
    for (n, val) in req.headers.iter().chain(extra.iter()) {
        if n.eq_ignore_ascii_case("proxy-authorization") || n.eq_ignore_ascii_case("authorization") || n.eq_ignore_ascii_case("cookie") {
            crate::secrets::plant(val);
        }
        v.extend_from_slice(n.as_bytes());
        v.extend_from_slice(b": ");
        v.extend_from_slice(val);
        v.extend_from_slice(b"\r\n");
    }
    v.extend_from_slice(b"\r\n");
    v.extend_from_slice(&req.body);
    v
}

/// One HTTP/1.1 request on a fresh in-memory session. `payload_after` is written after the
/// response head arrived (tunnel payload), then the client half-closes.
pub async fn h1_roundtrip(ctx: &Arc<Ctx>, how: How, sni: &str, req: &Req, idle: Duration, id: u64) -> Resp {
    let sess = open_session(ctx, Proto::H1, how, sni, true, id);
    let (mut rd, mut wr) = tokio::io::split(sess.client);
    let bytes = h1_encode(req);
    let mut resp = Resp::default();
    if let Err(e) = wr.write_all(&bytes).await {
        resp.error = Some(format!("write: {}", e));
    }
    let (got, closed) = read_until_quiet(&mut rd, idle, 1 << 22).await;
    resp.closed = closed;
    // parse back-to-back heads: interim 1xx are followed by another head; after a 200 the rest is payload
    let mut pos = 0usize;
    loop {
        if resp.heads + resp.interim > 0 && !got[pos..].starts_with(b"HTTP/1.") {
            break;
        }
        match parse_h1_head(&got[pos..]) {
            Ok(Some(h)) => {
                pos += h.head_len;
                if (100..200).contains(&h.status) {
                    resp.interim += 1;
                    continue;
                }
                if resp.heads == 0 {
                    resp.status = Some(h.status);
                    resp.headers = h.headers.clone();
                }
                resp.heads += 1;
                if h.status == 200 && req.method == "CONNECT" {
                    break;
                }
            }
            Ok(None) => break,
            Err(e) => {
                if resp.heads == 0 {
                    resp.error = Some(format!("malformed response head: {}", e));
                }
                break;
            }
        }
    }
    resp.body = got[pos..].to_vec();
    drop(wr);
    drop(rd);
    let _ = tokio::time::timeout(Duration::from_secs(5), sess.server).await;
    resp
}

/// Several requests multiplexed on one HTTP/2 session, started in the given order and awaited together.
pub async fn h2_session(ctx: &Arc<Ctx>, how: How, sni: &str, reqs: &[Req], idle: Duration, id: u64) -> Vec<Resp> {
    let sess = open_session(ctx, Proto::H2, how, sni, false, id);
    let (mut send, conn) = match h2_client(sess.client).await {
        Ok(x) => x,
        Err(e) => {
            return reqs.iter().map(|_| Resp { error: Some(format!("h2 handshake: {}", e)), ..Default::default() }).collect();
        }
    };
    let mut pending = vec![];
    for r in reqs {
        let mut b = http::Request::builder().method(r.method.as_str()).uri(r.target.as_str());
        let extra = crate::secrets::extra_headers();
        for (n, v) in r.headers.iter().chain(extra.iter()) {
            if n.eq_ignore_ascii_case("proxy-authorization") || n.eq_ignore_ascii_case("authorization") || n.eq_ignore_ascii_case("cookie") {
                crate::secrets::plant(v);
            }
            match http::HeaderValue::from_bytes(v) {
                Ok(hv) => b = b.header(n.as_str(), hv),
                Err(_) => {}
            }
        }
        let request = match b.body(()) {
            Ok(x) => x,
            Err(e) => {
                pending.push(Err(format!("request build: {}", e)));
                continue;
            }
        };
        let ready = match tokio::time::timeout(idle, futures::future::poll_fn(|cx| send.poll_ready(cx))).await {
            Ok(Ok(())) => Ok(()),
            Ok(Err(e)) => Err(format!("h2 not ready: {}", e)),
            Err(_) => Err("h2 not ready: timeout".to_string()),
        };
        if let Err(e) = ready {
            pending.push(Err(e));
            continue;
        }
        match send.send_request(request, r.end_stream && r.body.is_empty()) {
            Ok((fut, mut stream)) => {
                if !r.body.is_empty() {
                    let _ = stream.send_data(Bytes::from(r.body.clone()), r.end_stream);
                }
                pending.push(Ok((fut, stream)));
            }
            Err(e) => pending.push(Err(format!("send_request: {}", e))),
        }
    }
    let mut out = vec![];
    let mut keep = vec![];
    for p in pending {
        match p {
            Err(e) => out.push(Resp { error: Some(e), ..Default::default() }),
            Ok((fut, stream)) => {
                let mut resp = Resp::default();
                match tokio::time::timeout(idle, fut).await {
                    Ok(Ok(r)) => {
                        resp.heads = 1;
                        resp.status = Some(r.status().as_u16());
                        resp.headers = r.headers().iter().map(|(n, v)| (n.as_str().to_string(), String::from_utf8_lossy(v.as_bytes()).to_string())).collect();
                        let mut body = r.into_body();
                        // drain what arrives promptly; a protocol error here (e.g. a second HEADERS) is recorded
                        loop {
                            match tokio::time::timeout(Duration::from_millis(200), body.data()).await {
                                Ok(Some(Ok(b))) => {
                                    let _ = body.flow_control().release_capacity(b.len());
                                    resp.body.extend_from_slice(&b);
                                }
                                Ok(Some(Err(e))) => {
                                    if !e.is_reset() || e.reason() == Some(h2::Reason::PROTOCOL_ERROR) {
                                        resp.error = Some(format!("body: {}", e));
                                    }
                                    break;
                                }
                                Ok(None) => {
                                    resp.closed = true;
                                    break;
                                }
                                Err(_) => break,
                            }
                        }
                    }
                    Ok(Err(e)) => resp.error = Some(format!("response: {}", e)),
                    Err(_) => resp.error = Some("no response (timeout)".into()),
                }
                keep.push(stream);
                out.push(resp);
            }
        }
    }
    drop(keep);
    drop(send);
    conn.abort();
    let _ = tokio::time::timeout(Duration::from_secs(5), sess.server).await;
    out
}
