#![allow(dead_code)]
//! tt_verif — runtime monitors for TrustTunnel/TrustTunnel (see /verif/DESIGN.md).
//!
//! usage: tt_verif <C01..C20> [--tier quick|thorough] [--replay <file>]

mod common;
mod env;
mod kit;
mod h3c;
mod l2;
mod props;
mod script;
mod secrets;
mod tun;
mod s5srv;

use common::Args;

fn main() {
    let args = Args::parse();
    common::install_quiet_panic_hook();
    if std::env::var("VERIF_LOG").is_ok() {
        // debugging aid: the endpoint's own log on stdout (not used by any registered command)
        let _ = log::set_boxed_logger(Box::new(trusttunnel::log_utils::make_stdout_logger()));
        log::set_max_level(log::LevelFilter::Trace);
    }
    // last line of defence against a run that never ends (a spin the logical monitors do not see): not a verdict
    {
        let limit = std::time::Duration::from_secs(if args.thorough() { 6 * 3600 } else { 45 * 60 });
        let id = args.id.clone();
        std::thread::spawn(move || {
            std::thread::sleep(limit);
            eprintln!("BROKEN-RUN: check {} did not finish within {} s (wall-clock watchdog; inconclusive, not a verdict)", id, limit.as_secs());
            std::process::exit(2);
        });
    }
    std::fs::create_dir_all(args.root.join(".work")).ok();
    env::sweep_work(&args.root);
    // A panic that escapes a check is never a silent crash: when any panic of this process
    // started outside the harness sources (TrustTunnel or a crate it calls into) the run is
    // a violation witness, otherwise the harness itself is broken (exit 2, no verdict).
    let code = match common::catch(|| props::dispatch(&args)) {
        Ok(code) => code,
        Err(msg) => {
            let log = common::PANIC_LOG.lock().map(|l| l.clone()).unwrap_or_default();
            // harness sources show as "src/..." (relative to the crate) or with the /verif/ prefix; TrustTunnel and the crates it
            // calls into as /repo/... and ~/.cargo/registry/...
            let foreign = log.iter().find(|(loc, _)| !loc.is_empty() && !loc.contains("/verif/") && !loc.starts_with("src/"));
            match foreign {
                Some((loc, text)) => {
                    let dir = args.root.join("evidence").join("replays");
                    std::fs::create_dir_all(&dir).ok();
                    let path = dir.join(format!("{}-escaped-panic.json", args.id));
                    let doc = serde_json::json!({
                        "property": args.id, "kind": "escaped-panic", "location": loc,
                        "panic": text, "escaped_as": msg, "seed": args.seed,
                    });
                    std::fs::write(&path, serde_json::to_string_pretty(&doc).unwrap_or_default()).ok();
                    eprintln!("panic inside the code under test escaped the check: {} @ {}", text, loc);
                    println!("VIOLATION property={} replay={}", args.id, path.display());
                    1
                }
                None => {
                    eprintln!("BROKEN-RUN: the harness panicked: {}", msg);
                    2
                }
            }
        }
    };
    std::process::exit(code);
}
