#![allow(dead_code)]
//! tt_verif — runtime monitors for TrustTunnel/TrustTunnel (see /verif/DESIGN.md).
//!
//! usage: tt_verif <C01..C20> [--tier quick|thorough] [--replay <file>]

mod common;
mod env;
mod kit;
mod h3c;
mod l2;
mod props;
mod script;
mod secrets;
mod tun;

use common::Args;

fn main() {
    let args = Args::parse();
    common::install_quiet_panic_hook();
    std::fs::create_dir_all(args.root.join(".work")).ok();
    env::sweep_work(&args.root);
    let code = props::dispatch(&args);
    std::process::exit(code);
}
